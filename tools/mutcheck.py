#!/venv/bin/python
"""Apply each seeded patch to a scratch copy of /repo's package and report which
property checks fire.  usage: mutcheck.py [-j N] [dir-with-patches ...]  (default /verif/seeded)
A patch dir contains patch.diff (and optionally meta.json with "property").
Scratch copies live under $TMPDIR and are removed."""
import json, os, re, shutil, subprocess, sys, tempfile
from multiprocessing import Pool
sys.path.insert(0, os.path.dirname(os.path.dirname(os.path.abspath(__file__))))

PROPS = [f"C{i:02d}" for i in range(1, 19)]


def one(d):
    from sa.run import run_property
    own = None
    mp = os.path.join(d, "meta.json")
    if os.path.exists(mp):
        own = json.load(open(mp)).get("property")
    if own is None:
        m = re.search(r"(C\d\d)", d)
        own = m.group(1) if m else None
    tmp = tempfile.mkdtemp(prefix="mut_")
    try:
        shutil.copytree("/repo/codebasin", os.path.join(tmp, "codebasin"), ignore=shutil.ignore_patterns("__pycache__"))
        r = subprocess.run(["patch", "-p1", "-s", "-i", os.path.join(d, "patch.diff")], cwd=tmp, capture_output=True, text=True)
        if r.returncode != 0:
            return (d, own, "PATCH-FAILED", r.stdout[-200:])
        fired, errs = [], []
        for p in PROPS:
            try:
                code, ev, out, viols, known, aerr = run_property(p, "quick", root=tmp, quiet=True, write_evidence=False)
            except Exception as e:
                viols, aerr = [], [repr(e)]
            if viols:
                fired.append((p, [f"{v.rule} {v.key[:90]}" for v in viols[:3]]))
            if aerr and "no rules registered" not in str(aerr[0]):
                errs.append((p, [str(aerr[0])[:160]]))
        return (d, own, fired, errs)
    finally:
        shutil.rmtree(tmp, ignore_errors=True)


def main():
    args = sys.argv[1:]
    write_meta = False
    if args and args[0] == "--write-meta":
        write_meta = True; args = args[1:]
    j = 16
    if args and args[0] == "-j":
        j = int(args[1]); args = args[2:]
    roots = args or ["/verif/seeded"]
    dirs = []
    for r in roots:
        for dp, dn, fn in os.walk(r):
            if "patch.diff" in fn:
                dirs.append(dp)
    dirs.sort()
    with Pool(min(j, max(1, len(dirs))), maxtasksperchild=2) as pool:
        summary = pool.map(one, dirs, chunksize=1)
    caught = own_caught = 0
    for d, own, fired, errs in summary:
        if fired == "PATCH-FAILED":
            print(f"PATCH-FAILED {d}: {errs}")
            continue
        byown = any(p == own for p, _ in fired)
        if write_meta and os.path.exists(os.path.join(d, "meta.json")):
            meta = json.load(open(os.path.join(d, "meta.json")))
            meta["caught_by"] = {p: v[0] for p, v in fired}
            json.dump(meta, open(os.path.join(d, "meta.json"), "w"), indent=1)
        tag = "CAUGHT-OWN" if byown else ("CAUGHT-OTHER" if fired else "MISSED")
        caught += bool(fired); own_caught += byown
        print(f"{tag:12} {d} (labelled {own})")
        for p, v in fired:
            print(f"          {p}: {v[0]}" + (f" (+{len(v)-1})" if len(v) > 1 else ""))
        for p, e in errs:
            print(f"          analysis-error {p}: {e[0]}")
    print(f"caught {caught}/{len(summary)}; by the labelled property's own check {own_caught}/{len(summary)}")

main()
