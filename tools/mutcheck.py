#!/venv/bin/python
"""Apply each seeded patch to a scratch copy of /repo's package and report which
property checks fire.  usage: mutcheck.py [dir-with-patches ...]  (default /verif/seeded)
A patch dir contains patch.diff.  Scratch copies live under $TMPDIR and are removed."""
import json, os, shutil, subprocess, sys, tempfile
sys.path.insert(0, os.path.dirname(os.path.dirname(os.path.abspath(__file__))))
from sa.run import run_property

PROPS = [f"C{i:02d}" for i in range(1, 19)]

def main():
    roots = sys.argv[1:] or ["/verif/seeded"]
    dirs = []
    for r in roots:
        for dp, dn, fn in os.walk(r):
            if "patch.diff" in fn:
                dirs.append(dp)
    dirs.sort()
    summary = []
    for d in dirs:
        tmp = tempfile.mkdtemp(prefix="mut_")
        try:
            shutil.copytree("/repo/codebasin", os.path.join(tmp, "codebasin"), ignore=shutil.ignore_patterns("__pycache__"))
            r = subprocess.run(["patch", "-p1", "-s", "-i", os.path.join(d, "patch.diff")], cwd=tmp, capture_output=True, text=True)
            if r.returncode != 0:
                summary.append((d, "PATCH-FAILED", r.stdout[-200:]))
                continue
            fired, errs = [], []
            for p in PROPS:
                try:
                    code, ev, out, viols, known, aerr = run_property(p, "quick", root=tmp, quiet=True, write_evidence=False)
                except Exception as e:
                    code, viols, aerr = 2, [], [repr(e)]
                if viols:
                    fired.append((p, [f"{v.rule} {v.key[:80]}" for v in viols[:3]]))
                if aerr and "no rules registered" not in str(aerr[0]):
                    errs.append((p, aerr[:1]))
            summary.append((d, fired, errs))
        finally:
            shutil.rmtree(tmp, ignore_errors=True)
    caught = 0
    for d, fired, errs in summary:
        tag = "CAUGHT" if fired and fired != "PATCH-FAILED" else "MISSED"
        if fired == "PATCH-FAILED":
            tag = "PATCH-FAILED"
        caught += tag == "CAUGHT"
        print(f"{tag:7} {d}")
        if isinstance(fired, list):
            for p, v in fired:
                print(f"          {p}: {v[0]}" + (f" (+{len(v)-1})" if len(v) > 1 else ""))
        for p, e in (errs if isinstance(errs, list) else []):
            print(f"          analysis-error {p}: {str(e[0])[:160]}")
    print(f"caught {caught}/{len(summary)}")

main()
