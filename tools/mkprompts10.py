import os,re,glob
OLD='The listed places are only a hint: what matters is that your MECHANISM is new. Of the three, make one a PERFORMANCE change (a cache or memo table, an early exit, skipping work that looks redundant, building something once instead of per item, replacing a list by a set or a generator) that is correct for the inputs its author had in mind and breaks the property for others; one a change made of TWO small edits in two different functions (or a function and a data file) that are each harmless alone and only together break the property; and one of a kind that is easy to overlook in review:'
NEW="The listed places are only a hint: what matters is that your MECHANISM is new. Of the three, make one a swap of a STANDARD-LIBRARY call (or idiom) for another that looks equivalent and is not for some inputs (os.path.splitext / pathlib suffix(es) / str.rsplit, abspath / realpath / resolve / normpath, str.strip(chars) / removeprefix, re.match / search / fullmatch, shlex.split options, sorted keys, dict / set / list semantics, == / is, str.split() / split(' '), int() bases, copy / deepcopy ...); one a change of ORDER (the order in which two things are done, searched, merged, overridden or evaluated; which of two sources wins; first / last match) that leaves every single step as it was; and one of a kind that is easy to overlook in review:"
for i in range(1,19):
    P=f"C{i:02d}"
    src=open(f"/verif/tools/prompts/seed-r9-{P}.txt").read()
    places=set()
    for d in glob.glob(f"/verif/seeded/{P}-r9-*/patch.diff"):
        txt=open(d).read()
        files=re.findall(r"^\+\+\+ b/(\S+)",txt,re.M)
        ctx=re.findall(r"^@@ .* @@ (.*)$",txt,re.M)
        places.add(f"- {', '.join(sorted(set(files)))}: {'; '.join(sorted(set(c.strip() for c in ctx)))}")
    s=src.replace("/tmp/wt9/","/tmp/wt10/").replace("/tmp/seed9/","/tmp/seed10/")
    marker="\nYour task: produce THREE independent changes"
    s=s.replace(marker,"\n"+"\n".join(sorted(places))+"\n"+marker,1)
    assert OLD in s, P
    s=s.replace(OLD,NEW)
    os.makedirs(f"/tmp/seed10/{P}",exist_ok=True)
    open(f"/tmp/seed10/{P}/prompt.txt","w").write(s)
    pj=f"/tmp/seed9/{P}/property.json"
    if os.path.exists(pj): open(f"/tmp/seed10/{P}/property.json","w").write(open(pj).read())
groups={
 "L1":"codebasin/preprocessor.py (any class or function)",
 "L2":"codebasin/config.py, codebasin/__init__.py and codebasin/util.py",
 "L3":"codebasin/report.py, codebasin/_detail/logging.py, codebasin/__main__.py, codebasin/tree.py, codebasin/coverage/__main__.py",
 "L4":"codebasin/file_source.py, codebasin/file_parser.py, codebasin/finder.py, codebasin/platform.py, codebasin/language.py, codebasin/source.py",
}
for g,files in groups.items():
    s=open(f"/verif/tools/prompts/equiv-r7-K{g[1]}.txt").read()
    s=s.replace(f"/tmp/wt9/K{g[1]}",f"/tmp/wt10/{g}").replace(f"/tmp/eq7/K{g[1]}",f"/tmp/eq8/{g}")
    s=s.replace("(this time make at least half of them changes a maintainer makes for reasons OTHER than style: better error messages, extra validation that cannot fire for valid input, defensive copies, renamed or re-ordered parameters with all call sites updated, constants moved to module level, a function split in two, two functions merged)","(this time make at least half of them swaps of one standard-library call or idiom for another that is EXACTLY equivalent for every input that can reach it - os.path <-> pathlib where they agree, % / format / f-strings, dict() / {}, isinstance tuples, any/all/next over generators, str methods, sorted/reversed forms, with-statements, enumerate / zip / range(len()) - and the rest: early returns, guard clauses, loops <-> comprehensions, extracted helpers)")
    os.makedirs(f"/tmp/eq8/{g}",exist_ok=True)
    open(f"/tmp/eq8/{g}/prompt.txt","w").write(s)
print(open("/tmp/seed10/C05/prompt.txt").read()[-2900:-1900]); print(open("/tmp/eq8/L2/prompt.txt").read()[600:1500])
