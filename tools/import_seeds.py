#!/venv/bin/python
"""Copy confirmed seeded changes from <src> (verified by verify_seed.py) into /verif/seeded/<Cnn>-<round>-<k>/."""
import json, os, re, shutil, sys
src, rnd = sys.argv[1], sys.argv[2]
ver = {(p, k): info for p, k, info in json.load(open(os.path.join(src, f"verify_{rnd}.json")))}
n = 0
for (p, k), info in sorted(ver.items()):
    if not (isinstance(info, dict) and info.get("ok")):
        continue
    d = os.path.join(src, p, k)
    dst = f"/verif/seeded/{p}-{rnd}-{k}"
    os.makedirs(dst, exist_ok=True)
    for f in ("patch.diff", "demo.py", "notes.md"):
        if os.path.exists(os.path.join(d, f)):
            shutil.copy(os.path.join(d, f), os.path.join(dst, f))
    notes = open(os.path.join(d, "notes.md")).read() if os.path.exists(os.path.join(d, "notes.md")) else ""
    m = re.search(r"(?is)(needs|manifest)[^\n]*\n(.{0,600})", notes)
    meta = {
        "property": p,
        "origin": f"independent sub-agent given only the property text and a scratch worktree of /repo (round {rnd})",
        "needs_to_manifest": (m.group(0).strip()[:700] if m else "see notes.md"),
        "confirmed": {
            "how": "tools/verify_seed.py in a scratch git worktree of /repo HEAD: demo on the clean tree, `git apply patch.diff`, demo again, full test suite, `git checkout -- .`",
            "clean_demo_exit": info["clean_demo_rc"],
            "patched_demo_exit": info["patched_demo_rc"],
            "patched_suite_passed": info["suite_passed"],
            "demo_cmd": "cd <worktree> && PYTHONPATH=<worktree> /venv/bin/python demo.py   (the demo hard-codes /tmp/wt/<Cnn>; replace by the worktree path)",
        },
    }
    json.dump(meta, open(os.path.join(dst, "meta.json"), "w"), indent=1)
    n += 1
print("imported", n)
