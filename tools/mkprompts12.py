import os,re,glob
OLD="The listed places are only a hint: what matters is that your MECHANISM is new. Of the three, make one a change to an EXCEPTIONAL path (what is caught, converted to another exception, logged and swallowed, re-raised, cleaned up in finally, or now aborts the run - or no longer does) that leaves the normal path alone; one a change by which something computed or recorded for ONE file / platform / command / directive is reused, kept or shared for ANOTHER (an attribute instead of a local, a default argument, a class attribute, an object handed over without a copy, a key that is too coarse); and one of a kind that is easy to overlook in review:"
NEW="The listed places are only a hint: what matters is that your MECHANISM is new. Of the three, make one a BOUNDARY change (an off-by-one, `<` for `<=`, first for last, an empty / single-element / missing input treated like the general case or the other way round, a default value that differs from what callers assumed, an index or slice bound); one a change disguised as an OPTIMISATION or CLEAN-UP (an early exit, a cache or memo, skipping work that 'cannot matter', hoisting something out of a loop, de-duplicating with a set, merging two passes into one, removing a 'redundant' copy / reset / re-check that is in fact needed); and one of a kind that is easy to overlook in review:"
for i in range(1,19):
    P=f"C{i:02d}"
    src=open(f"/verif/tools/prompts/seed-r11-{P}.txt").read()
    places=set()
    for d in glob.glob(f"/verif/seeded/{P}-r11-*/patch.diff"):
        txt=open(d).read()
        files=re.findall(r"^\+\+\+ b/(\S+)",txt,re.M)
        ctx=re.findall(r"^@@ .* @@ (.*)$",txt,re.M)
        places.add(f"- {', '.join(sorted(set(files)))}: {'; '.join(sorted(set(c.strip() for c in ctx)))}")
    s=src.replace("/tmp/wt11/","/tmp/wt12/").replace("/tmp/seed11/","/tmp/seed12/")
    marker="\nYour task: produce THREE independent changes"
    assert marker in s, P
    s=s.replace(marker,"\n"+"\n".join(sorted(places))+"\n"+marker,1)
    assert OLD in s, P
    s=s.replace(OLD,NEW)
    os.makedirs(f"/tmp/seed12/{P}",exist_ok=True)
    open(f"/tmp/seed12/{P}/prompt.txt","w").write(s)
    pj=f"/tmp/seed11/{P}/property.json"
    if os.path.exists(pj): open(f"/tmp/seed12/{P}/property.json","w").write(open(pj).read())
groups={
 "N1":"codebasin/preprocessor.py (any class or function)",
 "N2":"codebasin/config.py, codebasin/__init__.py and codebasin/util.py",
 "N3":"codebasin/report.py, codebasin/_detail/logging.py, codebasin/__main__.py, codebasin/tree.py, codebasin/coverage/__main__.py",
 "N4":"codebasin/file_source.py, codebasin/file_parser.py, codebasin/finder.py, codebasin/platform.py, codebasin/language.py, codebasin/source.py",
}
for g,files in groups.items():
    s=open(f"/verif/tools/prompts/equiv-r9-M{g[1]}.txt").read()
    s=s.replace(f"/tmp/wt11/M{g[1]}",f"/tmp/wt12/{g}").replace(f"/tmp/eq9/M{g[1]}",f"/tmp/eq10/{g}")
    s,n=re.subn(r"\(this time make at least half of them CLEAN-UPS.*?ordinary refactorings\)","(this time make at least half of them MODERNISATIONS and harmless PERFORMANCE work: a walrus assignment, a conditional expression for a four-line if/else, `dict.setdefault` / `collections.defaultdict` / `Counter` for hand-written bookkeeping where exactly equivalent, `str.startswith` with a tuple, `in (a, b)` for a chain of `==`, tuple unpacking, `zip` / `enumerate` for index arithmetic, `contextlib.suppress`, `any` / `all` / `sum` / `max` with a generator, chained comparisons, `dict` / `set` comprehensions, `pathlib` or `os.path` spelled the other way where exactly equivalent, binding a repeatedly used attribute or bound method to a local before a loop, testing the cheap condition first when both are free of side effects, returning early when the remaining work provably does nothing; and the rest ordinary refactorings)",s,flags=re.S)
    assert n==1, g
    os.makedirs(f"/tmp/eq10/{g}",exist_ok=True)
    open(f"/tmp/eq10/{g}/prompt.txt","w").write(s)
print(open("/tmp/seed12/C05/prompt.txt").read()[-3200:-2000]); print(open("/tmp/eq10/N2/prompt.txt").read()[600:1200])
