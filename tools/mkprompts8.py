import os,re,glob
OLD="The listed places are only a hint: what matters is that your MECHANISM is new. Of the three, make one an 'improvement' that a well-meaning contributor would propose (a performance shortcut, a robustness fix, support for a new input form, a clean-up that unifies two code paths) and that breaks the property for inputs the contributor did not think of; one a ONE-TOKEN change (an operator, an index, a method name such as append/extend/insert, sorted/list, a keyword argument, True/False, a neighbouring variable); and one of a kind that is easy to overlook in review:"
NEW="The listed places are only a hint: what matters is that your MECHANISM is new. Of the three, make one a change OUTSIDE the big modules - in a data file of the package (codebasin/compilers/*.toml, codebasin/schema/*.schema) or in one of the small modules (codebasin/util.py, language.py, source.py, platform.py, tree.py, coverage/__main__.py, _detail/logging.py) - whichever of these the property really depends on; one a change to how an EDGE case is handled (an empty collection, None or a default argument, an exception that is caught or no longer caught, the first or last element, a path that is relative / has a trailing slash / is a symlink) which leaves the common case alone; and one of a kind that is easy to overlook in review:"
for i in range(1,19):
    P=f"C{i:02d}"
    src=open(f"/verif/tools/prompts/seed-r7-{P}.txt").read()
    places=set()
    for d in glob.glob(f"/verif/seeded/{P}-r7-*/patch.diff"):
        txt=open(d).read()
        files=re.findall(r"^\+\+\+ b/(\S+)",txt,re.M)
        ctx=re.findall(r"^@@ .* @@ (.*)$",txt,re.M)
        places.add(f"- {', '.join(sorted(set(files)))}: {'; '.join(sorted(set(c.strip() for c in ctx)))}")
    s=src.replace("/tmp/wt7/","/tmp/wt8/").replace("/tmp/seed7/","/tmp/seed8/")
    marker="\nYour task: produce THREE independent changes"
    s=s.replace(marker,"\n"+"\n".join(sorted(places))+"\n"+marker,1)
    assert OLD in s, P
    s=s.replace(OLD,NEW)
    os.makedirs(f"/tmp/seed8/{P}",exist_ok=True)
    open(f"/tmp/seed8/{P}/prompt.txt","w").write(s)
    pj=f"/tmp/seed7/{P}/property.json"
    if os.path.exists(pj): open(f"/tmp/seed8/{P}/property.json","w").write(open(pj).read())
groups={
 "J1":"codebasin/preprocessor.py (any class or function)",
 "J2":"codebasin/config.py, codebasin/__init__.py and codebasin/util.py",
 "J3":"codebasin/report.py, codebasin/_detail/logging.py, codebasin/__main__.py, codebasin/tree.py, codebasin/coverage/__main__.py",
 "J4":"codebasin/file_source.py, codebasin/file_parser.py, codebasin/finder.py, codebasin/platform.py, codebasin/language.py, codebasin/source.py",
}
for g,files in groups.items():
    s=open(f"/verif/tools/prompts/equiv-r5-H{g[1]}.txt").read()
    s=s.replace(f"/tmp/wt7/H{g[1]}",f"/tmp/wt8/{g}").replace(f"/tmp/eq5/H{g[1]}",f"/tmp/eq6/{g}")
    s=s.replace("produce TWELVE independent changes","produce TWELVE independent changes (prefer functions and idioms that look intricate: loops with flags, try/except, state machines, comprehensions, tables) ")
    os.makedirs(f"/tmp/eq6/{g}",exist_ok=True)
    open(f"/tmp/eq6/{g}/prompt.txt","w").write(s)
print(open("/tmp/seed8/C05/prompt.txt").read()[-2500:])
