import os,re,glob
for i in range(1,19):
    P=f"C{i:02d}"
    src=open(f"/verif/tools/prompts/seed-r6-{P}.txt").read()
    places=set()
    for d in glob.glob(f"/verif/seeded/{P}-r6-*/patch.diff"):
        txt=open(d).read()
        files=re.findall(r"^\+\+\+ b/(\S+)",txt,re.M)
        ctx=re.findall(r"^@@ .* @@ (.*)$",txt,re.M)
        places.add(f"- {', '.join(sorted(set(files)))}: {'; '.join(sorted(set(c.strip() for c in ctx)))}")
    s=src.replace("/tmp/wt6/","/tmp/wt7/").replace("/tmp/seed6/","/tmp/seed7/")
    marker="\nYour task: produce THREE independent changes"
    s=s.replace(marker,"\n"+"\n".join(sorted(places))+"\n"+marker,1)
    s=s.replace("Of the three, make one a DELETION or a MOVE (a line or a call that looks redundant or harmlessly reorderable but is not), one a change to a VALUE (a constant, a default, a regular expression, a table or .toml/.schema entry, an argument passed to a library call), and one of a kind that is easy to overlook in review:","The listed places are only a hint: what matters is that your MECHANISM is new. Of the three, make one an 'improvement' that a well-meaning contributor would propose (a performance shortcut, a robustness fix, support for a new input form, a clean-up that unifies two code paths) and that breaks the property for inputs the contributor did not think of; one a ONE-TOKEN change (an operator, an index, a method name such as append/extend/insert, sorted/list, a keyword argument, True/False, a neighbouring variable); and one of a kind that is easy to overlook in review:")
    os.makedirs(f"/tmp/seed7/{P}",exist_ok=True)
    open(f"/tmp/seed7/{P}/prompt.txt","w").write(s)
    pj=f"/tmp/seed6/{P}/property.json"
    if os.path.exists(pj): open(f"/tmp/seed7/{P}/property.json","w").write(open(pj).read())
groups={
 "H1":"codebasin/preprocessor.py (any class or function)",
 "H2":"codebasin/config.py, codebasin/__init__.py and codebasin/util.py",
 "H3":"codebasin/report.py, codebasin/_detail/logging.py, codebasin/__main__.py, codebasin/tree.py, codebasin/coverage/__main__.py",
 "H4":"codebasin/file_source.py, codebasin/file_parser.py, codebasin/finder.py, codebasin/platform.py, codebasin/language.py, codebasin/source.py",
}
tmpl=open("/verif/tools/prompts/equiv-r4-G1.txt").read()
for g,files in groups.items():
    s=tmpl.replace("/tmp/wt6/G1",f"/tmp/wt7/{g}").replace("/tmp/eq4/G1",f"/tmp/eq5/{g}")
    s=re.sub(r"each confined to: .*? \(package source, never tests\)",f"each confined to: {files} (package source, never tests)",s)
    s=s.replace("produce EIGHT independent refactorings","produce TWELVE independent changes that do NOT alter what the tool computes")
    s=s.replace("For each k = 1..8","For each k = 1..12")
    s=s.replace("(b) be the kind of change a maintainer really makes:","(b) be the kind of change a maintainer really makes - not only refactorings: also add logging or debug output, add type hints and docstrings, add an assertion or an input validation that can never fire for inputs the callers produce, add a new OPTIONAL parameter with a default that keeps the old behaviour (and do not use it), add a small new helper function or method that nothing calls yet, improve an error message (not a warning the tool's users rely on), reorder methods in a class or functions in a module, and:")
    os.makedirs(f"/tmp/eq5/{g}",exist_ok=True)
    open(f"/tmp/eq5/{g}/prompt.txt","w").write(s)
print(open("/tmp/eq5/H2/prompt.txt").read()[500:2300])
