import os,re,glob
OLD="The listed places are only a hint: what matters is that your MECHANISM is new. Of the three, make one a swap of a STANDARD-LIBRARY call (or idiom) for another that looks equivalent and is not for some inputs (os.path.splitext / pathlib suffix(es) / str.rsplit, abspath / realpath / resolve / normpath, str.strip(chars) / removeprefix, re.match / search / fullmatch, shlex.split options, sorted keys, dict / set / list semantics, == / is, str.split() / split(' '), int() bases, copy / deepcopy ...); one a change of ORDER (the order in which two things are done, searched, merged, overridden or evaluated; which of two sources wins; first / last match) that leaves every single step as it was; and one of a kind that is easy to overlook in review:"
NEW="The listed places are only a hint: what matters is that your MECHANISM is new. Of the three, make one a change to an EXCEPTIONAL path (what is caught, converted to another exception, logged and swallowed, re-raised, cleaned up in finally, or now aborts the run - or no longer does) that leaves the normal path alone; one a change by which something computed or recorded for ONE file / platform / command / directive is reused, kept or shared for ANOTHER (an attribute instead of a local, a default argument, a class attribute, an object handed over without a copy, a key that is too coarse); and one of a kind that is easy to overlook in review:"
for i in range(1,19):
    P=f"C{i:02d}"
    src=open(f"/verif/tools/prompts/seed-r10-{P}.txt").read()
    places=set()
    for d in glob.glob(f"/verif/seeded/{P}-r10-*/patch.diff"):
        txt=open(d).read()
        files=re.findall(r"^\+\+\+ b/(\S+)",txt,re.M)
        ctx=re.findall(r"^@@ .* @@ (.*)$",txt,re.M)
        places.add(f"- {', '.join(sorted(set(files)))}: {'; '.join(sorted(set(c.strip() for c in ctx)))}")
    s=src.replace("/tmp/wt10/","/tmp/wt11/").replace("/tmp/seed10/","/tmp/seed11/")
    marker="\nYour task: produce THREE independent changes"
    s=s.replace(marker,"\n"+"\n".join(sorted(places))+"\n"+marker,1)
    assert OLD in s, P
    s=s.replace(OLD,NEW)
    os.makedirs(f"/tmp/seed11/{P}",exist_ok=True)
    open(f"/tmp/seed11/{P}/prompt.txt","w").write(s)
    pj=f"/tmp/seed10/{P}/property.json"
    if os.path.exists(pj): open(f"/tmp/seed11/{P}/property.json","w").write(open(pj).read())
groups={
 "M1":"codebasin/preprocessor.py (any class or function)",
 "M2":"codebasin/config.py, codebasin/__init__.py and codebasin/util.py",
 "M3":"codebasin/report.py, codebasin/_detail/logging.py, codebasin/__main__.py, codebasin/tree.py, codebasin/coverage/__main__.py",
 "M4":"codebasin/file_source.py, codebasin/file_parser.py, codebasin/finder.py, codebasin/platform.py, codebasin/language.py, codebasin/source.py",
}
for g,files in groups.items():
    s=open(f"/verif/tools/prompts/equiv-r8-L{g[1]}.txt").read()
    s=s.replace(f"/tmp/wt10/L{g[1]}",f"/tmp/wt11/{g}").replace(f"/tmp/eq8/L{g[1]}",f"/tmp/eq9/{g}")
    s=re.sub(r"\(this time make at least half of them swaps.*?extracted helpers\)","(this time make at least half of them CLEAN-UPS: removing code that is provably dead - a branch whose condition can never hold, a variable that is assigned and never read, a redundant re-check of something just established, an unused import or parameter default, an else after return - simplifying a condition that is partly implied by an earlier one, renaming a private attribute consistently across its class, replacing a hand-written loop by the built-in that does exactly the same; and the rest ordinary refactorings)",s,flags=re.S)
    os.makedirs(f"/tmp/eq9/{g}",exist_ok=True)
    open(f"/tmp/eq9/{g}/prompt.txt","w").write(s)
print(open("/tmp/seed11/C05/prompt.txt").read()[-2900:-2000]); print(open("/tmp/eq9/M2/prompt.txt").read()[600:1500])
