#!/venv/bin/python
"""Apply every equivalent variant to a scratch worktree of /repo and run the test suite:
an 'equivalent' edit that breaks a test is not equivalent."""
import os, subprocess, sys
sys.path.insert(0, os.path.dirname(os.path.dirname(os.path.abspath(__file__))))
from sa.variants.equiv import EQUIV
wt = "/tmp/veq"
subprocess.run(["git", "-C", "/repo", "worktree", "remove", "--force", wt], capture_output=True)
subprocess.check_call(["git", "-C", "/repo", "worktree", "add", "-q", "--detach", wt, "HEAD"])
try:
    for name, edits in EQUIV:
        ok = True
        for rel, old, new in edits:
            p = os.path.join(wt, rel)
            s = open(p).read()
            if old not in s:
                print(name, "ANCHOR-MISSING", rel); ok = False; break
            open(p, "w").write(s.replace(old, new))
        if ok:
            r = subprocess.run(["/venv/bin/python", "-m", "pytest", "-q", "-p", "no:cacheprovider", "-x"], cwd=wt, capture_output=True, text=True)
            tail = r.stdout.strip().splitlines()[-1] if r.stdout.strip() else r.stderr[-200:]
            print(name, tail)
        subprocess.run(["git", "checkout", "--", "."], cwd=wt); subprocess.run(["git", "clean", "-fdq"], cwd=wt)
finally:
    subprocess.run(["git", "-C", "/repo", "worktree", "remove", "--force", wt], capture_output=True)
