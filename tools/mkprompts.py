import os,re,json,glob,subprocess
# round-4 mutant prompts
for i in range(1,19):
    P=f"C{i:02d}"
    src=open(f"/tmp/seed3/{P}/prompt.txt").read()
    # places touched in r3
    places=set()
    for d in glob.glob(f"/verif/seeded/{P}-r3-*/patch.diff"):
        txt=open(d).read()
        files=re.findall(r"^\+\+\+ b/(\S+)",txt,re.M)
        ctx=re.findall(r"^@@ .* @@ (.*)$",txt,re.M)
        places.add(f"- {', '.join(sorted(set(files)))}: {'; '.join(sorted(set(c.strip() for c in ctx)))}")
    s=src.replace("/tmp/wt3/","/tmp/wt4/").replace("/tmp/seed3/","/tmp/seed4/")
    marker="\nYour task: produce THREE independent changes"
    s=s.replace(marker,"\n"+"\n".join(sorted(places))+"\n"+marker,1)
    s=s.replace("do not look at other directories under /tmp/wt or /tmp/seed_out","do not look at any other directory under /tmp")
    os.makedirs(f"/tmp/seed4/{P}",exist_ok=True)
    open(f"/tmp/seed4/{P}/prompt.txt","w").write(s)
    if os.path.exists(f"/tmp/seed3/{P}/property.json"):
        open(f"/tmp/seed4/{P}/property.json","w").write(open(f"/tmp/seed3/{P}/property.json").read())
# round-2 equivalent prompts
groups={
 "F1":"codebasin/preprocessor.py (ONLY the classes Token..Lexer and ExpressionEvaluator, i.e. tokens, lexer and #if expression evaluation)",
 "F2":"codebasin/preprocessor.py (ONLY the Node classes: FileNode, CodeNode, DirectiveNode and its subclasses IfNode/ElIfNode/ElseNode/EndIfNode/DefineNode/UndefNode/IncludeNode/PragmaNode, and SourceTree)",
 "F3":"codebasin/preprocessor.py (ONLY DirectiveParser, Macro, MacroFunction, MacroExpander, ExpanderHelper and the module-level helper functions)",
 "F4":"codebasin/config.py",
 "F5":"codebasin/report.py",
 "F6":"codebasin/file_source.py, codebasin/file_parser.py, codebasin/language.py, codebasin/source.py",
 "F7":"codebasin/__init__.py, codebasin/util.py, codebasin/_detail/logging.py",
 "F8":"codebasin/__main__.py, codebasin/tree.py, codebasin/coverage/__main__.py, codebasin/finder.py, codebasin/platform.py",
}
tmpl=open("/tmp/eq1/E1/prompt.txt").read()
for g,files in groups.items():
    s=tmpl.replace("/tmp/wt3/E1",f"/tmp/wt4/{g}").replace("/tmp/eq1/E1",f"/tmp/eq2/{g}")
    s=re.sub(r"each confined to the files: .*? \(package source, never tests\)",f"each confined to: {files} (package source, never tests)",s)
    s=s.replace("split a long function, replace a hand-written loop by an equivalent stdlib call,","split a long function, replace a hand-written loop by an equivalent stdlib call, merge duplicated branches, hoist a loop-invariant expression, replace a flag variable by a break/else, turn a method into a @staticmethod or a property access into a local,")
    os.makedirs(f"/tmp/eq2/{g}",exist_ok=True)
    open(f"/tmp/eq2/{g}/prompt.txt","w").write(s)
print(open("/tmp/eq2/F2/prompt.txt").read()[600:1100])
print(open("/tmp/seed4/C06/prompt.txt").read()[3200:5200])
