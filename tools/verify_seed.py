#!/venv/bin/python
"""Confirm seeded changes in scratch git worktrees of /repo and copy the confirmed ones to /verif/seeded.
For each <src>/<Cnn>/<k>/{patch.diff,demo.py,notes.md}:
  clean worktree: demo exits 0; patch applied: demo exits != 0 and the full test suite reports 145 passed.
usage: verify_seed.py <src-root> [tag-prefix]"""
import json, os, re, shutil, subprocess, sys
from multiprocessing import Pool

SRC = sys.argv[1]
PREFIX = sys.argv[2] if len(sys.argv) > 2 else ""
PY = "/venv/bin/python"


def sh(cmd, cwd, env=None, timeout=900):
    e = dict(os.environ)
    e.update(env or {})
    r = subprocess.run(cmd, cwd=cwd, env=e, capture_output=True, text=True, timeout=timeout)
    return r.returncode, (r.stdout + r.stderr)


def job(prop):
    wt = f"/tmp/vs_{prop}"
    out = []
    subprocess.run(["git", "-C", "/repo", "worktree", "remove", "--force", wt], capture_output=True)
    rc, o = sh(["git", "-C", "/repo", "worktree", "add", "-q", "--detach", wt, "HEAD"], "/repo")
    if rc:
        return [(prop, "?", "worktree failed: " + o)]
    try:
        pdir = os.path.join(SRC, prop)
        for k in sorted(os.listdir(pdir)):
            d = os.path.join(pdir, k)
            if not os.path.exists(os.path.join(d, "patch.diff")):
                continue
            env = {"PYTHONPATH": wt}
            demo = os.path.join(d, "demo.py")
            # demos were written for /tmp/wt/<prop>: run them from the scratch worktree instead
            demo_txt = open(demo).read().replace(f"/tmp/wt12/{prop}", wt).replace(f"/tmp/wt11/{prop}", wt).replace(f"/tmp/wt10/{prop}", wt).replace(f"/tmp/wt9/{prop}", wt).replace(f"/tmp/wt8/{prop}", wt).replace(f"/tmp/wt7/{prop}", wt).replace(f"/tmp/wt6/{prop}", wt).replace(f"/tmp/wt5/{prop}", wt).replace(f"/tmp/wt4/{prop}", wt).replace(f"/tmp/wt3/{prop}", wt).replace(f"/tmp/wt2/{prop}", wt).replace(f"/tmp/wt/{prop}", wt)
            local_demo = os.path.join(wt, "_demo.py")
            open(local_demo, "w").write(demo_txt)
            rc0, o0 = sh([PY, "-W", "ignore", local_demo], wt, env)
            rcA, oA = sh(["git", "apply", os.path.join(d, "patch.diff")], wt)
            rc1, o1 = sh([PY, "-W", "ignore", local_demo], wt, env) if rcA == 0 else (None, "")
            os.remove(local_demo)
            rcT, oT = sh([PY, "-m", "pytest", "-q", "-p", "no:cacheprovider", "-x"], wt) if rcA == 0 else (None, "")
            m = re.search(r"(\d+) passed", oT or "")
            passed = int(m.group(1)) if m else 0
            failed = "failed" in (oT or "")
            sh(["git", "checkout", "--", "."], wt)
            sh(["git", "clean", "-fdq"], wt)
            ok = rc0 == 0 and rcA == 0 and rc1 not in (0, None) and passed == 145 and not failed
            out.append((prop, k, {"ok": ok, "clean_demo_rc": rc0, "apply_rc": rcA, "patched_demo_rc": rc1, "suite_passed": passed, "suite_failed": failed,
                                  "patched_demo_tail": (o1 or "")[-400:], "clean_demo_tail": (o0 or "")[-300:] if rc0 else ""}))
    finally:
        subprocess.run(["git", "-C", "/repo", "worktree", "remove", "--force", wt], capture_output=True)
    return out


def main():
    props = sorted(p for p in os.listdir(SRC) if re.fullmatch(r"C\d\d", p))
    with Pool(9) as pool:
        res = pool.map(job, props)
    allr = [x for r in res for x in r]
    for prop, k, info in allr:
        print(prop, k, json.dumps(info)[:400] if not (isinstance(info, dict) and info.get("ok")) else "CONFIRMED")
    json.dump(allr, open(os.path.join(SRC, f"verify_{PREFIX or 'r'}.json"), "w"), indent=1)

main()
