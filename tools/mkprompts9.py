import os,re,glob
OLD='The listed places are only a hint: what matters is that your MECHANISM is new. Of the three, make one a change OUTSIDE the big modules - in a data file of the package (codebasin/compilers/*.toml, codebasin/schema/*.schema) or in one of the small modules (codebasin/util.py, language.py, source.py, platform.py, tree.py, coverage/__main__.py, _detail/logging.py) - whichever of these the property really depends on; one a change to how an EDGE case is handled (an empty collection, None or a default argument, an exception that is caught or no longer caught, the first or last element, a path that is relative / has a trailing slash / is a symlink) which leaves the common case alone; and one of a kind that is easy to overlook in review:'
NEW="The listed places are only a hint: what matters is that your MECHANISM is new. Of the three, make one a PERFORMANCE change (a cache or memo table, an early exit, skipping work that looks redundant, building something once instead of per item, replacing a list by a set or a generator) that is correct for the inputs its author had in mind and breaks the property for others; one a change made of TWO small edits in two different functions (or a function and a data file) that are each harmless alone and only together break the property; and one of a kind that is easy to overlook in review:"
for i in range(1,19):
    P=f"C{i:02d}"
    src=open(f"/verif/tools/prompts/seed-r8-{P}.txt").read()
    places=set()
    for d in glob.glob(f"/verif/seeded/{P}-r8-*/patch.diff"):
        txt=open(d).read()
        files=re.findall(r"^\+\+\+ b/(\S+)",txt,re.M)
        ctx=re.findall(r"^@@ .* @@ (.*)$",txt,re.M)
        places.add(f"- {', '.join(sorted(set(files)))}: {'; '.join(sorted(set(c.strip() for c in ctx)))}")
    s=src.replace("/tmp/wt8/","/tmp/wt9/").replace("/tmp/seed8/","/tmp/seed9/")
    marker="\nYour task: produce THREE independent changes"
    s=s.replace(marker,"\n"+"\n".join(sorted(places))+"\n"+marker,1)
    assert OLD in s, P
    s=s.replace(OLD,NEW)
    os.makedirs(f"/tmp/seed9/{P}",exist_ok=True)
    open(f"/tmp/seed9/{P}/prompt.txt","w").write(s)
    pj=f"/tmp/seed8/{P}/property.json"
    if os.path.exists(pj): open(f"/tmp/seed9/{P}/property.json","w").write(open(pj).read())
groups={
 "K1":"codebasin/preprocessor.py (any class or function)",
 "K2":"codebasin/config.py, codebasin/__init__.py and codebasin/util.py",
 "K3":"codebasin/report.py, codebasin/_detail/logging.py, codebasin/__main__.py, codebasin/tree.py, codebasin/coverage/__main__.py",
 "K4":"codebasin/file_source.py, codebasin/file_parser.py, codebasin/finder.py, codebasin/platform.py, codebasin/language.py, codebasin/source.py",
}
for g,files in groups.items():
    s=open(f"/verif/tools/prompts/equiv-r6-J{g[1]}.txt").read()
    s=s.replace(f"/tmp/wt8/J{g[1]}",f"/tmp/wt9/{g}").replace(f"/tmp/eq6/J{g[1]}",f"/tmp/eq7/{g}")
    s=s.replace("(prefer functions and idioms that look intricate: loops with flags, try/except, state machines, comprehensions, tables)","(this time make at least half of them changes a maintainer makes for reasons OTHER than style: better error messages, extra validation that cannot fire for valid input, defensive copies, renamed or re-ordered parameters with all call sites updated, constants moved to module level, a function split in two, two functions merged)")
    os.makedirs(f"/tmp/eq7/{g}",exist_ok=True)
    open(f"/tmp/eq7/{g}/prompt.txt","w").write(s)
print(open("/tmp/seed9/C05/prompt.txt").read()[-2700:-1900]); print(open("/tmp/eq7/K2/prompt.txt").read()[400:1500])
