#!/venv/bin/python
"""Regenerate /verif/MANIFEST.json from the rule registry and the per-property texts below."""
import json, os, sys
sys.path.insert(0, os.path.dirname(os.path.dirname(os.path.abspath(__file__))))
from sa import rules
from sa.run import REGISTRY
rules.load_all()

TEXT = {
 "C01": ("decision tables (finite-atom path evaluation) + AST/class-table rules", "Structural necessary conditions of conditional inclusion: node-kind table vs the C grammar, keyword dispatch, the association visitor's complete decision table (node class x branch-taken x active), pre-order traversal, tree construction table, macro-table ownership, payload slices, -D construction. Decides the control skeleton for every program; does not decide expression values (C02/C03) or equality with gcc -E."),
 "C02": ("table extraction + decision tables over the operator table", "Precedence/associativity relation vs the C grammar, the climbing loop evaluated for every operator of the table, lexer coverage/longest match, arm-by-arm operator identity, literal prefix/suffix tables, residual identifiers, no evaluation of #elif after a taken branch. Numeric results and value kinds beyond operator identity are not decided; recorded deviations are known findings."),
 "C03": ("typestate pairing, decision tables, def-use slot discipline", "Bookkeeping invariants of the expander (lock-step stacks, depth backstop reached from every push, pre-expansion through the same expander), paint-on-copy, raw/expanded slot discipline of #/##/substitution, argument-splitting table, function-like detection, -D parity. Token-sequence equality with a conforming preprocessor is behavioural and not decided."),
 "C04": ("decision tables of the resolver and of IncludeNode, memo-key soundness, canonical-key agreement", "Complete decision table of find_include_file (search order, first hit wins, <> vs quote), memo keyed by everything the result depends on and private to one Platform, same platform/state for the included file, per-entry order in finder.find (-D/-I, forced includes, file), #pragma once key canonicalisation, argument provenance at the resolver call."),
 "C05": ("automaton extraction from the cleaner + product exploration with a reference scanner", "The character-level state machine of c_cleaner and the per-line protocol of c_file_source are extracted from the source and explored exhaustively against an ISO C phase 2-3 reference scanner over the lexically significant alphabet; plus structural rules on the counting protocol and line grouping."),
 "C06": ("sibling cross-check of aggregators, decision table of the used/unused split, def-use of the symlink guards", "Which lines flow into which sum: the three per-file aggregations agree on tree, filter, key and weight; used/unused partition; summary arithmetic shape; FileTree accumulation, prune and purity of printing; symlink guards of every consumer. The numbers themselves are not computed."),
 "C07": ("dominance (guard-before-divide), truth tables of accumulate-if predicates, def-use of mean divisors", "Every division guarded by a NaN-yielding zero test; distance = XOR over OR and coverage predicates by truth table; symmetry; means divide by the size of what they sum over; divergence over all pairs of all platforms; distance-matrix layout."),
 "C08": ("loop-carried dependence analysis, ambient-state census, frozen-cache provenance, shared-object write census", "No value survives from one database entry / platform to the next in finder.find except the result accumulator; no class-level/module-level/default-argument/memoised state on the processing path; the process-wide compiler cache is copied before a command can change it; tree nodes, tokens and macros are not written while associating; -p only selects databases."),
 "C09": ("decision table of CodeBase.__contains__ and __iter__", "Every path to True passes resolve(), exists, not-dir, source extension, is_relative_to a code-base directory, and GitIgnoreSpec(exclude).match_file on the path relative to that directory; enumeration filters only through __contains__. gitignore semantics are delegated to pathspec (trusted)."),
 "C10": ("who-may-test-membership over the call graph, loop-source check of every aggregator, provenance of the exclude list", "Membership (and the root directory) never gates parsing/association on the path reachable from finder.find; every report counts by iterating the CodeBase; -x and [codebase].exclude are concatenated in both front ends."),
 "C11": ("registration table + argparse option-shape model + decision table of CompileCommand.arguments", "Recognised options registered as append actions on a parser that never abbreviates/reads files/exits; argv followed by implicit options through parse_known_args; `arguments` passed verbatim, `command` split by shlex; entry fields not rewritten. Option shapes on which argparse raises are recorded known findings."),
 "C12": ("structural rules on the alias walk and pass/mode application, TOML data lint with jsonschema, writer agreement", "Alias walk remembers every visited name and reports loops/dangling targets; implicit options appended; passes = default + selected with per-pass copies and modes; built-in definition files schema-valid with every referenced mode/pass declared; all writers of the pass table key by first flag; user config extends built-in; cache never modified by parsing."),
 "C13": ("stdlib call-arity sweep, loop-carried analysis, provenance of path bases, skip-implies-warn on the CFG", "Relative file and include directories are joined to the entry's own directory, recomputed per entry; every skip of the entry loop is preceded by a warning; is_supported truth table; existence test dominates entry creation; schema validation on load; who may associate."),
 "C14": ("ORDER taint: sources (set/dict/rglob order) to sinks (print/json/return/float accumulation) with sanitiser list", "Every value whose order depends on hashing or directory enumeration is sorted by a total key (or consumed order-insensitively) before it reaches an observable the property lists."),
 "C15": ("CANON taint on ParserState keys, guard siblings, once-key agreement", "Every access to the per-file tables uses a key that went through realpath; membership decided on the resolved path; symlink guards of all consumers; #pragma once key agreement."),
 "C16": ("print discipline, structure rules on find_duplicates (bucket by content digest or bytewise confirmation, group predicate truth table)", "Candidates come from the code base minus symlinks; grouping reads file content at least once (digest buckets and/or shallow=False comparison); groups emitted iff size >= 2 and emitted completely; everything printed to the given stream."),
 "C17": ("automaton extraction of fortran_cleaner + product with a free-form reference scanner; language tables", "The Fortran cleaner's state machine and the protocol of fortran_file_source explored against a reference scanner; directive pass; language tables (fixed-form suffixes accepted but unserved are recorded)."),
 "C18": ("must-pass-through on the CFG at every resolver call site and skip site; regex/category agreement; handler wiring", "A miss at every call site of find_include_file reaches a warning; every drop site in config.py is preceded by a log call; message content by def-use of the f-string; the two kind strings match exactly one category regex each; the aggregator is a filter of exactly one handler and counts records whose level equals WARNING."),
}

def main():
    props = sorted({r.prop for r in REGISTRY})
    checks = []
    for p in props:
        tech, text = TEXT[p]
        checks.append({
            "property_id": p,
            "quick_cmd": f"./check {p}",
            "thorough_cmd": f"./check {p} --tier thorough",
            "evidence_file": f"/verif/evidence/{p}.json",
            "replay_cmd_template": f"./check {p} --replay {{path}}",
            "engine": "sa",
            "level_claimed": {"category": "other", "text": "Static analysis deciding structural necessary conditions of the property on /repo's current source (holds for every input because it is a fact about the code, not about a sample): " + text, "design_ref": f"DESIGN.md section 5, {p}"},
            "level_note": "Trusted: python ast/tomllib; the checker's reference tables (C grammar, scanner automata, argparse option matching); pathspec/argparse/numpy/os.path behave as documented; duck-typed calls resolve to every package class defining the method. Decides the named structural clauses, not the run-time behaviour.",
            "technique": "static analysis: " + tech + "; contracts stated over extracted decision tables (atoms -> effects -> result rows) of the functions behind the property; comparison of those tables with the reviewed snapshot (RX: dropped / widened effects, replaced / moved conditions, changed operands)",
        })
    allp = [f"C{i:02d}" for i in range(1, 19)]
    na = [{"property_id": p, "reason": "check not built yet in this session (planned, see DESIGN.md section 5)"} for p in allp if p not in props]
    m = {
        "version": 1,
        "setup_cmd": "/venv/bin/python -B -c \"import ast, tomllib, jsonschema\"",
        "hooks": {
            "guard": "INTEL_CODE_BASE_INVESTIGATOR_VERIF",
            "enable": "none needed: static analysis reads /repo's working tree; no instrumentation exists in /repo",
            "baseline_off_cmd": "cd /repo && /venv/bin/python -m pytest -ra -q -p no:cacheprovider --timeout=900 --continue-on-collection-errors",
            "source_commits": [],
            "add_only": True,
        },
        "engines": [{"name": "sa", "path": "/verif/sa", "serves_properties": props, "kind_free_text": "repository-specific static analyser: ast model, resolved call graph, statement CFG with dominators, finite-atom decision tables, reaching definitions / loop-carried dependences / provenance, automaton extraction + product exploration"}],
        "checks": checks,
        "not_applicable": na,
        "notes": "Every check is `./check <id>`: stdlib-only python run with /venv/bin/python, parses /repo (or --root) on every run, imports nothing from it. Exit 0 ok (KNOWN-FINDING lines for recorded defects), 1 VIOLATION, 2 ANALYSIS-ERROR (anchor vanished / shape not understood). Known findings: /verif/KNOWN_FINDINGS.txt.",
    }
    json.dump(m, open(os.path.join(os.path.dirname(os.path.dirname(os.path.abspath(__file__))), "MANIFEST.json"), "w"), indent=1)
    print("properties with checks:", props)
main()
