import os,re,glob
for i in range(1,19):
    P=f"C{i:02d}"
    src=open(f"/verif/tools/prompts/seed-r5-{P}.txt").read()
    places=set()
    for d in glob.glob(f"/verif/seeded/{P}-r5-*/patch.diff"):
        txt=open(d).read()
        files=re.findall(r"^\+\+\+ b/(\S+)",txt,re.M)
        ctx=re.findall(r"^@@ .* @@ (.*)$",txt,re.M)
        places.add(f"- {', '.join(sorted(set(files)))}: {'; '.join(sorted(set(c.strip() for c in ctx)))}")
    s=src.replace("/tmp/wt5/","/tmp/wt6/").replace("/tmp/seed5/","/tmp/seed6/")
    marker="\nYour task: produce THREE independent changes"
    s=s.replace(marker,"\n"+"\n".join(sorted(places))+"\n"+marker,1)
    s=s.replace("At least one of the three should be of a kind that is easy to overlook in review:","Of the three, make one a DELETION or a MOVE (a line or a call that looks redundant or harmlessly reorderable but is not), one a change to a VALUE (a constant, a default, a regular expression, a table or .toml/.schema entry, an argument passed to a library call), and one of a kind that is easy to overlook in review:")
    os.makedirs(f"/tmp/seed6/{P}",exist_ok=True)
    open(f"/tmp/seed6/{P}/prompt.txt","w").write(s)
    pj=f"/tmp/seed5/{P}/property.json"
    if os.path.exists(pj): open(f"/tmp/seed6/{P}/property.json","w").write(open(pj).read())
groups={
 "G1":"codebasin/preprocessor.py (any class or function)",
 "G2":"codebasin/config.py and codebasin/__init__.py",
 "G3":"codebasin/report.py and codebasin/_detail/logging.py",
 "G4":"codebasin/file_source.py, codebasin/file_parser.py, codebasin/finder.py, codebasin/platform.py",
 "G5":"codebasin/__main__.py, codebasin/tree.py, codebasin/coverage/__main__.py, codebasin/util.py, codebasin/source.py, codebasin/language.py",
 "G6":"any file of the package codebasin/ (choose functions that are central to what the tool computes: parsing command lines, resolving includes, evaluating #if, counting lines, reports)",
}
tmpl=open("/verif/tools/prompts/equiv-r2-F1.txt").read()
for g,files in groups.items():
    s=tmpl.replace("/tmp/wt4/F1",f"/tmp/wt6/{g}").replace("/tmp/eq2/F1",f"/tmp/eq4/{g}")
    s=re.sub(r"each confined to: .*? \(package source, never tests\)",f"each confined to: {files} (package source, never tests)",s)
    s=s.replace("(c) touch real logic (not only comments/whitespace) in 3 to 30 changed lines,","(c) touch real logic (not only comments/whitespace) in 3 to 30 changed lines (a typical small pull request: one or two idioms changed in one or two functions),")
    os.makedirs(f"/tmp/eq4/{g}",exist_ok=True)
    open(f"/tmp/eq4/{g}/prompt.txt","w").write(s)
print(open("/tmp/seed6/C02/prompt.txt").read()[-2600:-1500])
