"""Alpha-normalisation: make the analysis independent of the names of local
variables.

/verif/reference/codebasin holds a snapshot of the package the rules were
written against.  When a function of the analysed tree is *structurally
identical* to its reference version up to a consistent renaming of local
variables (and nested function names), the locals are renamed back to the
reference names before any rule looks at the function.  Nothing else is taken
from the reference: if the function differs in structure, it is analysed as
written.  This only makes pure renamings invisible; it never hides a change of
behaviour, because alpha-equivalent functions behave identically.
"""
from __future__ import annotations

import ast
import os

REF_ROOT = os.path.join(os.path.dirname(os.path.dirname(os.path.abspath(__file__))), "reference")


def _renamable(fn):
    """names that may be renamed inside fn: stored locals and nested def names
    (parameters, globals, nonlocals, imports are fixed)"""
    fixed = {a.arg for a in fn.args.posonlyargs + fn.args.args + fn.args.kwonlyargs}
    params = set()
    if fn.name.startswith("_") and fn.name != "__init__":
        # the parameters of a private function (or of a protocol method that its framework calls positionally) are
        # bound names like any local; call sites that pass them by keyword are renamed along (see normalise)
        params = {a.arg for a in fn.args.posonlyargs + fn.args.args if a.arg not in ("self", "cls")}
        fixed -= params
    if fn.args.vararg:
        fixed.add(fn.args.vararg.arg)
    if fn.args.kwarg:
        fixed.add(fn.args.kwarg.arg)
    names = set()
    for n in ast.walk(fn):
        if n is fn:
            continue
        if isinstance(n, (ast.FunctionDef, ast.AsyncFunctionDef)):
            names.add(n.name)
            for a in n.args.posonlyargs + n.args.args + n.args.kwonlyargs:
                fixed.add(a.arg)
        elif isinstance(n, ast.Lambda):
            for a in n.args.args:
                fixed.add(a.arg)
        elif isinstance(n, (ast.Global, ast.Nonlocal)):
            fixed.update(n.names)
        elif isinstance(n, ast.Name) and isinstance(n.ctx, (ast.Store, ast.Del)):
            names.add(n.id)
        elif isinstance(n, ast.ExceptHandler) and n.name:
            names.add(n.name)
        elif isinstance(n, (ast.Import, ast.ImportFrom)):
            for a in n.names:
                fixed.add((a.asname or a.name).split(".")[0])
    return (names | params) - fixed


def _match(a, b, ra, rb, fwd, bwd):
    """structural equality of a (current) and b (reference) modulo renaming"""
    if type(a) is not type(b):
        return False
    if isinstance(a, ast.AST):
        if isinstance(a, ast.Name):
            return _ident(a.id, b.id, ra, rb, fwd, bwd)
        if isinstance(a, ast.arg):
            return _ident(a.arg, b.arg, ra, rb, fwd, bwd)  # annotations are comments
        if isinstance(a, ast.keyword) and a.arg is not None and b.arg is not None and (a.arg in ra or b.arg in rb):
            # a recursive call that passes a (renamed) parameter of this very function by keyword
            return _ident(a.arg, b.arg, ra, rb, fwd, bwd) and _match(a.value, b.value, ra, rb, fwd, bwd)
        for (fa, va), (fb, vb) in zip(ast.iter_fields(a), ast.iter_fields(b)):
            if fa in ("lineno", "col_offset", "end_lineno", "end_col_offset", "type_comment"):
                continue
            if isinstance(a, (ast.FunctionDef, ast.AsyncFunctionDef)) and fa == "name":
                if not _ident(va, vb, ra, rb, fwd, bwd):
                    return False
                continue
            if isinstance(a, ast.ExceptHandler) and fa == "name":
                if (va is None) != (vb is None) or (va is not None and not _ident(va, vb, ra, rb, fwd, bwd)):
                    return False
                continue
            if fa == "body" and isinstance(va, list) and va and isinstance(va[0], ast.Expr) and isinstance(getattr(va[0], "value", None), ast.Constant) and isinstance(va[0].value.value, str):
                va = va[1:]  # docstrings are comments
                if vb and isinstance(vb[0], ast.Expr) and isinstance(getattr(vb[0], "value", None), ast.Constant) and isinstance(vb[0].value.value, str):
                    vb = vb[1:]
            elif fa == "body" and isinstance(vb, list) and vb and isinstance(vb[0], ast.Expr) and isinstance(getattr(vb[0], "value", None), ast.Constant) and isinstance(vb[0].value.value, str):
                vb = vb[1:]
            if not _match(va, vb, ra, rb, fwd, bwd):
                return False
        return True
    if isinstance(a, list):
        return len(a) == len(b) and all(_match(x, y, ra, rb, fwd, bwd) for x, y in zip(a, b))
    return a == b


def _ident(x, y, ra, rb, fwd, bwd):
    if x == y and x not in ra and y not in rb:
        return True
    if x in ra and y in rb:
        if fwd.get(x, y) != y or bwd.get(y, x) != x:
            return False
        fwd[x] = y
        bwd[y] = x
        return True
    return x == y and fwd.get(x, x) == x


def _apply(fn, mapping):
    for n in ast.walk(fn):
        if isinstance(n, ast.Name) and n.id in mapping:
            n.id = mapping[n.id]
        elif isinstance(n, (ast.FunctionDef, ast.AsyncFunctionDef)) and n is not fn and n.name in mapping:
            n.name = mapping[n.name]
        elif isinstance(n, ast.ExceptHandler) and n.name in mapping:
            n.name = mapping[n.name]
        elif isinstance(n, ast.arg) and n.arg in mapping:
            n.arg = mapping[n.arg]


def _top_functions(tree):
    out = {}

    def rec(body, prefix):
        for n in body:
            if isinstance(n, (ast.FunctionDef, ast.AsyncFunctionDef)):
                out[prefix + n.name] = n
            elif isinstance(n, ast.ClassDef):
                rec(n.body, prefix + n.name + ".")

    rec(tree.body, "")
    return out


def normalise(tree, relpath):
    """Rename locals of `tree` (module AST of the analysed tree) back to the
    reference names wherever a function is alpha-equivalent to its reference.
    Returns the number of functions whose locals were renamed."""
    refpath = os.path.join(REF_ROOT, relpath)
    if not os.path.exists(refpath):
        return 0
    try:
        ref = ast.parse(open(refpath).read())
    except SyntaxError:
        return 0
    cur_f, ref_f = _top_functions(tree), _top_functions(ref)
    n = 0
    for q, f in cur_f.items():
        g = ref_f.get(q)
        if g is None:
            continue
        fwd, bwd = {}, {}
        if _match(f, g, _renamable(f), _renamable(g), fwd, bwd):
            mapping = {k: v for k, v in fwd.items() if k != v}
            if mapping:
                pnames = {a.arg for a in f.args.posonlyargs + f.args.args + f.args.kwonlyargs}
                pmap = {k: v for k, v in mapping.items() if k in pnames}
                _apply(f, mapping)
                if pmap:
                    # call sites in this module that pass the renamed parameters by keyword
                    for c in ast.walk(tree):
                        if isinstance(c, ast.Call) and (getattr(c.func, "attr", None) == f.name or getattr(c.func, "id", None) == f.name or (isinstance(c.func, ast.Attribute) and c.func.attr.endswith(f.name.lstrip("_")) and f.name.startswith("__"))):
                            for kw in c.keywords:
                                if kw.arg in pmap:
                                    kw.arg = pmap[kw.arg]
                n += 1
    return n
