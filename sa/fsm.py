"""M4 - automaton extraction for the repo's cleaner idiom and product exploration
with a reference scanner.

The cleaners are written as `if state[-1] == "S": if char == 'c': ...` chains
over a mode stack and an output buffer.  `Extracted` interprets the *loop body*
of the cleaner (and its end-of-line hook) with the decision engine under
concrete mode stacks / character representatives and an abstract output buffer
(first significant character only), yielding the transition relation
    delta(stack, buffer-class, char) -> (stack', events, outcome)
as sequences of primitive effects.  Nothing is imported from the repo.

`explore_c` / `explore_fortran` then run a BFS over the synchronous product of
that automaton (driven by the per-line protocol, which is checked separately by
decision table) and a reference scanner over the lexically significant
alphabet, and report every reachable well-formed state in which the two
disagree about: code on the current physical line, end of logical line,
directive-ness of the logical line, or in which the cleaner can raise.
"""

from __future__ import annotations

import ast
from collections import deque

from .decision import NOTHING, Evaluator, Hooks, Sym, vtext
from .model import AnalysisError, u


class ExternalDependence(AnalysisError):
    """a transition of the extracted automaton depends on data outside the modelled lexical state, with different outcomes"""

    def __init__(self, msg, key):
        super().__init__(msg)
        self.key = key


class _StepHooks(Hooks):
    def __init__(self, stack, cat, char, directives_only=False, vc=None, selfname="self"):
        self.stack = list(stack)
        self.cat = cat  # BLANK | HASH | SRC  (class of the physical buffer)
        self.char = char
        self.directives_only = directives_only
        self.events = []  # ('ns', c) | ('sp',) | ('char', c)
        self.putback = None
        self.vc = list(vc or [])
        self.dircheck = False
        self.consumed_rest = False
        self.fell = False
        self._initial = (list(self.stack), self.cat, list(self.vc))

    # every path of one step starts from the same model state and leaves its own outcome
    def begin_path(self):
        self.stack, self.cat, self.vc = list(self._initial[0]), self._initial[1], list(self._initial[2])
        self.events, self.putback, self.dircheck, self.consumed_rest, self.fell = [], None, False, False, False

    def end_path(self):
        return (tuple(self.stack), self.cat, tuple(self.vc), tuple(self.events), self.putback, self.dircheck, self.fell)

    def restore(self, snap):
        self.stack, self.cat, self.vc, self.events, self.putback, self.dircheck, self.fell = list(snap[0]), snap[1], list(snap[2]), list(snap[3]), snap[4], snap[5], snap[6]

    # -- buffer abstraction
    def emit_nonspace(self, c):
        self.events.append(("ns", c))
        if self.cat in ("EMPTY", "BLANK"):
            self.cat = "HASH" if c == "#" else "SRC"

    def emit_space(self):
        self.events.append(("sp",))
        if self.cat == "EMPTY":
            self.cat = "BLANK"

    def emit_char(self, c):
        if isinstance(c, str) and c.isspace():
            self.emit_space()
        else:
            self.emit_nonspace(c)

    def _is_stack(self, text):
        return text in ("state", "self.state")

    def _is_buf(self, text):
        return text in ("obuf", "self.outbuf")

    def resolve(self, expr, st):
        if isinstance(expr, ast.Subscript):
            b = u(expr.value)
            if self._is_stack(b) and not isinstance(expr.slice, ast.Slice):
                idx = expr.slice
                try:
                    i = ast.literal_eval(idx)
                except Exception:
                    raise AnalysisError(f"cleaner: stack index not constant: {u(expr)}")
                try:
                    return self.stack[i]
                except IndexError:
                    return "<underflow>"
        if isinstance(expr, ast.Attribute):
            t = u(expr)
            if t == "self.directives_only":
                return self.directives_only
            if t == "self.verify_continue" and isinstance(expr.ctx, ast.Load):
                return list(self.vc)
            if self._is_stack(t):
                return Sym(t)
            if t in ("obuf.parts", "self.outbuf.parts") and isinstance(expr.ctx, ast.Load):
                # only emptiness is modelled
                return [] if self.cat == "EMPTY" else [Sym("<buffered text>")]
        if isinstance(expr, ast.Name) and expr.id == "char":
            return self.char
        if isinstance(expr, ast.Compare) and len(expr.ops) == 1 and self._is_stack(u(expr.left)) and isinstance(expr.ops[0], (ast.Eq, ast.NotEq)):
            try:
                val = ast.literal_eval(expr.comparators[0])
            except Exception:
                return NOTHING
            r = list(self.stack) == list(val)
            return r if isinstance(expr.ops[0], ast.Eq) else not r
        return NOTHING

    def on_call(self, call, ftext, args, kwargs, st):
        recv, _, meth = ftext.rpartition(".")
        if self._is_stack(recv):
            if meth == "append" and len(args) == 1 and isinstance(args[0], str):
                self.stack.append(args[0])
                return None
            if meth == "pop" and not args:
                if not self.stack:
                    raise AnalysisError("cleaner: pop on empty mode stack")
                return self.stack.pop()
            raise AnalysisError(f"cleaner: unsupported stack operation {ftext}")
        if self._is_buf(recv):
            if meth == "append_nonspace":
                self.emit_nonspace(args[0])
                return None
            if meth == "append_char":
                self.emit_char(args[0])
                return None
            if meth == "append_space":
                self.emit_space()
                return None
            if meth == "category":
                return {"EMPTY": "BLANK", "BLANK": "BLANK", "HASH": "CPP_DIRECTIVE", "SRC": "SRC_NONBLANK"}[self.cat]
            raise AnalysisError(f"cleaner: unsupported buffer operation {ftext}")
        if ftext == "inbuffer.putback":
            if self.putback is not None:
                raise AnalysisError("cleaner: two putbacks in one step")
            self.putback = args[0]
            return None
        if ftext in ("char.isspace", "char.isalpha", "char.isdigit", "char.isalnum") and isinstance(self.char, str):
            return getattr(self.char, meth)()
        if ftext == "next" and len(args) == 1 and vtext(args[0]) == "inbuffer":
            return self.char
        if ftext == "self.dir_check":
            self.dircheck = True
            return None
        if recv == "self.verify_continue":
            if meth == "append":
                self.vc.append(args[0])
                return None
        if ftext in ("RuntimeError", "ValueError"):
            return Sym(ftext)
        if recv == "self" and meth in getattr(self, "helpers", {}):
            return NOTHING  # inlined (see inline())
        if ftext in ("bool", "len", "str", "ord", "chr", "isinstance", "int") or (recv and recv.split(".")[0] not in ("self", "obuf", "state", "inbuffer") and meth in ("isdigit", "isalpha", "isalnum", "isspace", "isidentifier", "startswith", "endswith", "lower", "upper")):
            return NOTHING  # pure: left to the evaluator (an undecided result makes the transition depend on it)
        raise AnalysisError(f"cleaner: call not understood in the state machine: {ftext}({', '.join(vtext(a) for a in args)})")

    def inline(self, call, ftext, st):
        recv, _, meth = ftext.rpartition(".")
        if recv == "self" and meth in getattr(self, "helpers", {}):
            return self.helpers[meth]
        return None

    def on_store(self, target_text, value, st):
        if self._is_stack(target_text):
            if isinstance(value, list) and all(isinstance(x, str) for x in value):
                self.stack[:] = value
                return None
            raise AnalysisError(f"cleaner: mode stack assigned a non-literal: {vtext(value)}")
        if target_text in ("self.state[-1]", "state[-1]") and isinstance(value, str):
            self.stack[-1] = value
            return None
        if target_text == "self.verify_continue":
            if isinstance(value, list):
                self.vc = list(value)
                return None
        raise AnalysisError(f"cleaner: store not understood in the state machine: {target_text} = {vtext(value)}")


class Extracted:
    """Transition relation of one cleaner class, interpreted on demand."""

    def __init__(self, repo, clsname):
        self.repo = repo
        self.cls = repo.cls("file_source", clsname)
        self.process = self.cls.find_method("process")
        if self.process is None:
            raise AnalysisError(f"{clsname}.process missing")
        self.loop_body, self.loop_kind = self._find_char_loop(self.process.node)
        # small private helpers of the cleaner (predicates over its state, extracted branches) are interpreted in place
        self.helpers = {n: f.node for n, f in self.cls.methods.items() if n not in ("process", "logical_newline", "dir_check", "__init__", "reset")}
        self.cache = {}
        self.modes_pushed = set()
        self.steps = 0

    def _find_char_loop(self, fn):
        for n in ast.walk(fn):
            if isinstance(n, ast.For) and u(n.target) == "char":
                return n.body, "for"
            if isinstance(n, ast.While) and n.body and isinstance(n.body[0], ast.Assign) and u(n.body[0].targets[0]) == "char" and u(n.body[0].value).startswith("next("):
                return n.body, "while"
        raise AnalysisError(f"{self.cls.name}.process: loop binding `char` not found")

    def _run(self, body, hooks, fn, extra=None):
        wrapper = ast.parse("def _f():\n    for _i in [0]:\n        pass\n    else:\n        __FELL__()").body[0]
        wrapper.body[0].body = body

        class H(type(hooks)):
            pass

        orig = hooks.on_call

        def on_call(call, ftext, args, kwargs, st):
            if ftext == "__FELL__":
                hooks.fell = True
                return None
            return orig(call, ftext, args, kwargs, st)

        hooks.on_call = on_call
        hooks.fell = False
        params = {"inbuffer": Sym("inbuffer"), "lineiter": Sym("lineiter")}
        params.update(extra or {})
        paths = Evaluator(hooks, max_paths=64).paths(wrapper, params=params)
        outcomes = {(p.env.get("__model__"), p.result[0]) for p in paths}
        if len(outcomes) != 1:
            # the step does different things depending on something that is neither the mode stack, the character nor
            # the class of the buffered line: the scanner is no longer a function of the lexical state
            atoms_ = sorted({k for p in paths for k in p.atoms})
            a, b = sorted(outcomes, key=repr)[:2]
            raise ExternalDependence(
                f"{self.cls.name}: in mode {list(hooks._initial[0])} on {hooks.char!r} the step depends on {atoms_[:3]} - data outside the lexical state (mode stack, character, class of the buffered line): "
                f"one way it leaves modes {list(a[0][0])} / emits {list(a[0][3])}, the other way {list(b[0][0])} / {list(b[0][3])}; the reference scanner's step is a function of (mode, character), so one of the two disagrees with it",
                key=f"{self.cls.name}:transition-depends-on:{atoms_[0][:60] if atoms_ else '?'}",
            )
        p = paths[0]
        hooks.restore(p.env["__model__"])
        if p.result[0] == "raise":
            return "raise"
        if p.result[0] == "return":
            return "return"
        return "next" if hooks.fell else "break"

    def step(self, stack, cat, char, directives_only=False, vc=()):
        """One character.  Returns (stack', cat', outcome, events, vc', dircheck)
        outcome in next | return | break | raise ; putback is resolved here."""
        key = (tuple(stack), cat, char, directives_only, tuple(vc))
        if key in self.cache:
            return self.cache[key]
        self.steps += 1
        events = []
        cur_stack, cur_cat, cur_vc = list(stack), cat, list(vc)
        pending = [char]
        outcome = "next"
        dircheck = False
        guard = 0
        while pending:
            guard += 1
            if guard > 4:
                raise AnalysisError(f"{self.cls.name}: putback loop on {char!r} in {stack}")
            c = pending.pop(0)
            h = _StepHooks(cur_stack, cur_cat, c, directives_only, cur_vc)
            h.helpers = self.helpers
            outcome = self._run(self.loop_body, h, self.process.node)
            events += h.events
            cur_stack, cur_cat, cur_vc = h.stack, h.cat, h.vc
            dircheck = dircheck or h.dircheck
            for m in cur_stack:
                self.modes_pushed.add(m)
            if outcome != "next":
                break
            if h.putback is not None:
                pending.append(h.putback)
        res = (tuple(cur_stack), cur_cat, outcome, tuple(events), tuple(cur_vc), dircheck)
        self.cache[key] = res
        return res

    def run_method(self, name, stack, cat, vc=(), body=None):
        """Interpret a whole (loop-free) method such as logical_newline or the
        epilogue statements of process."""
        m = self.cls.find_method(name) if body is None else None
        stmts = m.node.body if body is None else body
        h = _StepHooks(stack, cat, None, False, vc)
        h.helpers = self.helpers
        out = self._run(stmts, h, None)
        return tuple(h.stack), h.cat, out, tuple(h.events), tuple(h.vc)

    def handled_modes(self):
        """modes that have an arm in the dispatch chain"""
        out = set()
        for n in ast.walk(ast.Module(body=self.loop_body, type_ignores=[])):
            if isinstance(n, ast.Compare) and len(n.ops) == 1 and isinstance(n.ops[0], ast.Eq) and u(n.left) in ("state[-1]", "self.state[-1]") and isinstance(n.comparators[0], ast.Constant):
                out.add(n.comparators[0].value)
        return out


# ======================================================================
# reference scanner for C (translation phases 2-3, line classification only)

C_ALPHABET = ["/", "*", '"', "'", "\\", "#", " ", "a"]


def ref_c_step(mode, ch):
    """-> (mode', marks) ; marks: 'code' (non-white char outside comments on the
    current physical line), 'slash' (a previously pending '/' turned out to be
    code), 'hash' (first significant char is '#').  mode 'ERR' = ill-formed."""
    if mode == "CODE":
        if ch == "/":
            return "SLASH", []
        if ch == '"':
            return "DQ", ["code"]
        if ch == "'":
            return "SQ0", ["code"]
        if ch == "\\":
            return "ERR", []  # stray backslash outside literals
        if ch.isspace():
            return "CODE", []
        return "CODE", ["code"]
    if mode == "SLASH":
        if ch == "/":
            return "LINEC", []
        if ch == "*":
            return "BLOCK", []
        m, marks = ref_c_step("CODE", ch)
        return m, ["slash"] + marks
    if mode == "LINEC":
        return "LINEC", []
    if mode == "BLOCK":
        return ("STAR" if ch == "*" else "BLOCK"), []
    if mode == "STAR":
        return ("CODE" if ch == "/" else "STAR" if ch == "*" else "BLOCK"), (["space"] if ch == "/" else [])
    if mode == "DQ":
        if ch == "\\":
            return "DQE", ["code"]
        if ch == '"':
            return "CODE", ["code"]
        return "DQ", ["code"]
    if mode == "DQE":
        return "DQ", ["code"]
    if mode in ("SQ0", "SQ1"):
        # character constant: exactly one c-char or one escape (multi-character constants draw a
        # gcc diagnostic and are outside the property's quantifier)
        if ch == "\\":
            return ("SQE" if mode == "SQ0" else "ERR"), ["code"]
        if ch == "'":
            return ("CODE" if mode == "SQ1" else "ERR"), ["code"]
        return ("SQ1" if mode == "SQ0" else "ERR"), ["code"]
    if mode == "SQE":
        return "SQ1", ["code"]
    raise AssertionError(mode)


def explore_c(ex: Extracted, directives_only=False, max_depth=6, max_states=20000):
    """BFS over the product.  The per-line protocol used here is the reference
    protocol of c_file_source (checked against the source by C05.R1b):
      for each physical line: reset the physical buffer; process all characters except the
      newline and a trailing backslash; if not continued and top != IN_BLOCK_COMMENT:
      logical_newline(); count the line iff the physical buffer is not BLANK; the logical
      line ends iff not continued and top != IN_BLOCK_COMMENT (re-tested after logical_newline).
    """
    # state: (cbi_stack, cbi_cat, skipping(rest of line ignored after `return`), ref_mode, ref_code,
    #         ref_slash_prev (pending slash sits on an earlier physical line), cbi_log, ref_log, line_has_char)
    init = (("TOPLEVEL",), "EMPTY", False, "CODE", False, False, "N", "N")
    seen = {init: None}
    work = deque([init])
    disc = []
    ntrans = 0

    def trace(s, ev):
        out = [ev]
        while seen[s] is not None:
            s, e = seen[s]
            out.append(e)
        return "".join(reversed(out))

    while work:
        s = work.popleft()
        stack, cat, skipping, rm, rcode, rprev, clog, rlog = s
        for ev in C_ALPHABET + ["\\\n", "\n"]:
            ntrans += 1
            if ev in ("\\\n", "\n"):
                cont = ev == "\\\n"
                if cont and stack[-1] == "FOUND_SLASH":
                    # recorded construct (D10): the pending '/' is emitted into the NEXT physical line's buffer
                    disc.append(("D10", "a '/' pending across a backslash-newline is emitted into the next physical line", trace(s, ev), stack, rm))
                    continue
                # ---- reference
                if rm in ("DQE", "SQE"):
                    continue  # backslash-newline directly after a backslash inside a literal: not generated
                if not cont and rm in ("DQ", "SQ0", "SQ1"):
                    continue  # unterminated literal at end of logical line: ill-formed
                rm2, rcode2, rprev2, rlog2 = rm, rcode, False, rlog
                slash_marks_prev = False
                if not cont:
                    if rm == "SLASH":
                        # a lone '/' at the end of the logical line is code on the line that holds it
                        if rprev:
                            slash_marks_prev = True
                        else:
                            rcode2 = True
                        if rlog2 == "N":
                            rlog2 = "S"
                        rm2 = "CODE"
                    elif rm == "LINEC":
                        rm2 = "CODE"
                    elif rm == "STAR":
                        rm2 = "BLOCK"
                else:
                    if rm == "SLASH":
                        rprev2 = True
                ref_ends = (not cont) and rm2 != "BLOCK"
                # ---- cbi (reference protocol)
                st2, cat2 = stack, cat
                if not cont and stack[-1] != "IN_BLOCK_COMMENT":
                    st2, cat2, out, _ev, _vc = ex.run_method("logical_newline", stack, cat)
                    if out == "raise":
                        disc.append(("raise", "logical_newline raises", trace(s, ev), stack, rm))
                        continue
                cbi_counts = cat2 not in ("EMPTY", "BLANK")
                if slash_marks_prev or (rm == "SLASH" and rprev and not cont):
                    disc.append(("D10", "a '/' pending across a backslash-newline is emitted into the next physical line", trace(s, ev), stack, rm))
                    continue
                if cbi_counts != rcode2:
                    disc.append(("count", f"physical line counted={cbi_counts}, reference has code={rcode2}", trace(s, ev), stack, rm))
                    continue
                cbi_ends = (not cont) and st2[-1] != "IN_BLOCK_COMMENT"
                if cbi_ends != ref_ends:
                    disc.append(("logical-end", f"logical line ends: cbi={cbi_ends} reference={ref_ends}", trace(s, ev), stack, rm))
                    continue
                clog2 = clog if clog != "N" else {"EMPTY": "N", "BLANK": "N", "HASH": "H", "SRC": "S"}[cat2]
                if cbi_ends:
                    if (clog2 == "H") != (rlog2 == "H"):
                        disc.append(("directive", f"logical line is a directive: cbi={clog2 == 'H'} reference={rlog2 == 'H'}", trace(s, ev), stack, rm))
                        continue
                    clog2 = rlog2 = "N"
                n = (st2, "EMPTY", False, rm2, False, rprev2, clog2, rlog2)
            else:
                ch = ev
                rm2, marks = ref_c_step(rm, ch)
                if rm2 == "ERR":
                    continue
                rcode2, rlog2 = rcode, rlog
                d10 = False
                for m in marks:
                    if m == "code":
                        rcode2 = True
                        if rlog2 == "N":
                            rlog2 = "H" if (ch == "#" and rm in ("CODE",)) else "S"
                    elif m == "slash":
                        if rprev:
                            d10 = True
                        else:
                            rcode2 = True
                        if rlog2 == "N":
                            rlog2 = "S"
                if d10:
                    disc.append(("D10", "a '/' pending across a backslash-newline is emitted into the next physical line", trace(s, ev), stack, rm))
                    continue
                if skipping:
                    st2, cat2, out = stack, cat, "return"
                else:
                    st2, cat2, out, events, _vc, _dc = ex.step(stack, cat, ch, directives_only)
                if out == "raise":
                    disc.append(("raise", "the cleaner raises on well-formed input", trace(s, ev), stack, rm))
                    continue
                if len(st2) > max_depth:
                    disc.append(("stack-growth", f"mode stack deeper than {max_depth}", trace(s, ev), stack, rm))
                    continue
                n = (st2, cat2, skipping or out == "return", rm2, rcode2, rprev if rm2 == "SLASH" else False, clog, rlog2)
            if n not in seen:
                if len(seen) > max_states:
                    raise AnalysisError("cleaner product: state explosion")
                seen[n] = (s, ev)
                work.append(n)
    # end of file: every state at a line boundary where the reference is in CODE must have the base stack
    eof_bad = []
    for s in seen:
        stack, cat, skipping, rm, rcode, rprev, clog, rlog = s
        at_boundary = cat == "EMPTY" and not rcode and clog == "N" and rlog == "N"
        if at_boundary and rm == "CODE" and not rprev and stack != ("TOPLEVEL",):
            eof_bad.append(s)
    for s in eof_bad[:5]:
        disc.append(("eof", f"at a logical-line boundary the mode stack is {s[0]}, expected ['TOPLEVEL']", trace(s, ""), s[0], s[3]))
    return seen, ntrans, disc


# ======================================================================
# Fortran (free form)

F_ALPHABET = ["!", "&", '"', "'", "$", " ", "a", "+"]


class FortranExtracted(Extracted):
    def _regex_sentinel(self):
        """dir_check written with a regular expression: the sentinel is `<letters>*$` after the `!`; the pattern's AST
        (re._parser) is checked for the letter class - every ASCII letter, either case (`!DIR$`, `!DEC$`, `!GCC$`,
        `!$omp`) - the rest of a regex formulation is not modelled (analysis error)"""
        import re._parser as sre

        pats = []
        mod = self.cls.module
        consts = {t.id: st.value for st in mod.tree.body if isinstance(st, ast.Assign) for t in st.targets if isinstance(t, ast.Name)}
        for n in ast.walk(self.dir_check.node):
            if isinstance(n, ast.Call) and isinstance(n.func, ast.Attribute) and n.func.attr in ("match", "fullmatch", "search"):
                src = n.func.value
                if isinstance(src, ast.Name) and isinstance(consts.get(src.id), ast.Call):
                    src = consts[src.id]
                elif isinstance(src, ast.Attribute) and isinstance(src.value, ast.Name) and src.value.id in ("self", "cls", self.cls.name) and isinstance(self.cls.class_attrs.get(src.attr), ast.Call):
                    src = self.cls.class_attrs[src.attr]  # a pattern compiled once at class level
                cand = None
                if isinstance(src, ast.Call) and u(src.func) in ("re.compile",) and src.args and isinstance(src.args[0], ast.Constant):
                    cand = (src.args[0].value, [u(k.value) for k in src.keywords] + [u(a) for a in src.args[1:]])
                elif isinstance(src, ast.Name) and src.id == "re" and n.args and isinstance(n.args[0], ast.Constant):
                    cand = (n.args[0].value, [u(a) for a in n.args[2:]] + [u(k.value) for k in n.keywords])
                if cand:
                    pats.append(cand)
        if len(pats) != 1:
            raise AnalysisError("dir_check: loop over the input buffer not found")
        pat, flags = pats[0]
        try:
            tree = list(sre.parse(pat))
        except Exception as e:
            raise AnalysisError(f"dir_check: sentinel pattern does not parse: {e}")
        icase = any("IGNORECASE" in f or f.endswith("re.I") for f in flags)
        ok_shape = len(tree) >= 2 and str(tree[0][0]) == "MAX_REPEAT" and tree[0][1][0] == 0 and str(tree[-1][0]) == "LITERAL" and tree[-1][1] == ord("$")
        if not ok_shape:
            raise AnalysisError(f"dir_check: sentinel pattern `{pat}` is not of the form <letters>*\\$")
        cls_items = tree[0][1][2]
        letters = set()
        for it in cls_items:
            if str(it[0]) == "IN":
                for kind, val in it[1]:
                    if str(kind) == "RANGE":
                        letters |= {chr(c) for c in range(val[0], val[1] + 1)}
                    elif str(kind) == "LITERAL":
                        letters.add(chr(val))
            elif str(it[0]) == "LITERAL":
                letters.add(chr(it[1]))
        if icase:
            letters |= {c.upper() for c in letters} | {c.lower() for c in letters}
        import string

        missing = sorted(set(string.ascii_letters) - letters)
        if missing:
            raise ExternalDependence(
                f"fortran_cleaner.dir_check: the sentinel pattern `{pat}` admits only {''.join(sorted(letters & set(string.ascii_letters)))[:12]}... before the `$`: directive comments whose sentinel has other letters ({''.join(missing)[:8]}...: `!DIR$ IVDEP`, `!DEC$ ATTRIBUTES`, `!GCC$ unroll`) are taken for plain comments and not counted",
                key="fortran_cleaner:dir_check:sentinel-letters",
            )
        raise AnalysisError("dir_check: regular-expression formulation is not modelled beyond its letter class")

    def __init__(self, repo):
        super().__init__(repo, "fortran_cleaner")
        self.dir_check = self.cls.find_method("dir_check")
        if self.dir_check is None:
            raise AnalysisError("fortran_cleaner.dir_check missing")
        # epilogue = statements of process() after the try block that holds the loop
        body = self.process.node.body
        idx = None
        for i, s in enumerate(body):
            if any(x is self.loop_body[0] for x in ast.walk(s)):
                idx = i
        if idx is None:
            raise AnalysisError("fortran_cleaner.process: loop statement not found at top level")
        self.epilogue = body[idx + 1 :]
        # dir_check: the per-character loop
        loops = [n for n in self.dir_check.node.body if isinstance(n, ast.For) and u(n.iter) == self.dir_check.params[1]]
        if not loops:
            self._regex_sentinel()
        if len(loops) != 1:
            raise AnalysisError("dir_check: loop over the input buffer not found")
        self.dc_loop = loops[0]
        body_ = [s for s in self.dir_check.node.body if not (isinstance(s, ast.Expr) and isinstance(s.value, ast.Constant))]
        if self.dc_loop.orelse or body_.index(self.dc_loop) != len(body_) - 1:
            # the model below reads "what happens at the `$`" inside the loop; an emission moved behind the loop
            # (for ... else, break + trailing statements) is a shape it does not interpret
            raise AnalysisError("dir_check: statements after / else-branch of the scanning loop are not modelled")
        self.dc_pre = [s for s in self.dir_check.node.body if s is not self.dc_loop and not (isinstance(s, ast.Expr) and isinstance(s.value, ast.Constant))]
        self.dc_cache = {}

    def eol(self, stack, cat, vc):
        return self.run_method(None, stack, cat, vc, body=self.epilogue or [ast.Pass()])

    def dc_step(self, found_len, cat, char):
        """one character inside dir_check.  -> (outcome, cat') outcome: scan | sentinel | dead"""
        key = (found_len > 1, cat, char)
        if key in self.dc_cache:
            return self.dc_cache[key]
        import copy

        body = copy.deepcopy(self.dc_loop.body)
        inb = self.dir_check.params[1]

        class T(ast.NodeTransformer):
            def visit_For(self, node):
                if u(node.iter) == inb:
                    if not (len(node.body) == 1 and isinstance(node.body[0], ast.Expr) and u(node.body[0].value) == f"self.outbuf.append_nonspace({u(node.target)})"):
                        raise AnalysisError(f"dir_check: unexpected consumer of the rest of the line: {u(node)[:80]}")
                    return ast.Expr(value=ast.Call(func=ast.Name(id="__CONSUME_REST__", ctx=ast.Load()), args=[], keywords=[]))
                return self.generic_visit(node)

        body = [ast.fix_missing_locations(T().visit(s)) for s in body]
        h = _StepHooks(["<dc>"], cat, char)
        h.helpers = self.helpers
        found = ["!"] + ["a"] * (found_len - 1)
        orig = h.on_call

        def on_call(call, ftext, args, kwargs, st):
            if ftext == "found.append":
                found.append(args[0])
                return None
            if ftext == "__CONSUME_REST__":
                h.consumed_rest = True
                return None
            return orig(call, ftext, args, kwargs, st)

        h.on_call = on_call
        out = self._run(body, h, None, extra={"found": found})
        # params: found list is iterated concretely
        res = ("sentinel" if (h.consumed_rest or (out == "break" and h.events)) else "dead" if out == "return" else "scan", h.cat)
        self.dc_cache[key] = res
        return res



def explore_fortran(ex: FortranExtracted, max_depth=6, max_states=60000):
    """Product of the extracted Fortran cleaner with a reference free-form scanner.
    Reference per physical line (persistent: cont = statement continued, strq = open character
    literal being continued):
      code | '...' | "..." with doubled quotes | ! comment | !<alpha*>$ sentinel | trailing & continuation
      (optionally followed by a comment) | leading & on a continuation line | blank / comment lines
      inside a continuation do not end it.
    counted  <=> the line has statement text or is a sentinel comment
    ends     <=> not continued (and not a blank/comment line inside a continuation)
    """
    # ref line-local modes: START, CODE, DQ, SQ, AMP (& seen in code), SAMP_D/SAMP_S (& seen in string, only blanks since),
    #   CB (just saw !), CA (alpha after !), CS (sentinel), CD (dead comment)
    init = (("TOPLEVEL",), "EMPTY", (), None, False, 0, False, None, "START", False, False, 0)
    # (stack, cat, vc, dc_state, skip, dc_found, | cont, strq, mode, text, sentinel, amp_cont)
    seen = {init: None}
    work = deque([init])
    disc = []
    ntrans = 0

    def trace(s, ev):
        out = [ev]
        while seen[s] is not None:
            s, e = seen[s]
            out.append(e)
        return "".join(reversed(out))

    def ref_char(cont, strq, mode, text, sent, amp, ch):
        """-> (mode, text, sent, amp, strq) or None if ill-formed"""
        sp = ch == " "
        if mode == "START":
            if sp:
                return mode, text, sent, amp, strq
            if cont and ch == "&":
                # leading continuation marker: resume
                return ("DQ" if strq == '"' else "SQ" if strq == "'" else "CODE"), text, sent, amp | 2, strq
            if cont and strq:
                if ch == "!":
                    return None  # a comment line inside a continued character context is not generated
                return None  # continued character context requires a leading &
            mode = "CODE"
        if mode == "CODE":
            if sp:
                return "CODE", text, sent, amp, strq
            if ch == "!":
                return "CB", text, sent, amp, strq
            if ch == "&":
                return "AMP", text, sent, amp, strq
            if ch == '"':
                return "DQ", True, sent, amp, '"'
            if ch == "'":
                return "SQ", True, sent, amp, "'"
            return "CODE", True, sent, amp, strq
        if mode == "AMP":
            if sp:
                return "AMP", text, sent, amp, strq
            if ch == "!":
                return "CB", text, sent, amp | 1, strq
            return None  # '&' in the middle of a statement is not Fortran
        if mode in ("DQ", "SQ"):
            q = '"' if mode == "DQ" else "'"
            if ch == q:
                # closing quote (a doubled quote re-opens immediately: same classification)
                return "CODE", True, sent, amp, None
            if ch == "&":
                return ("SAMP_D" if mode == "DQ" else "SAMP_S"), text, sent, amp, strq
            return mode, True, sent, amp, strq
        if mode in ("SAMP_D", "SAMP_S"):
            base = "DQ" if mode == "SAMP_D" else "SQ"
            if sp:
                return mode, text, sent, amp, strq
            # the & was a literal character
            return ref_char(cont, strq, base, True, sent, amp, ch)
        if mode == "CB":
            if ch == "$":
                return "CS", text, True, amp, strq
            if ch.isalpha():
                return "CA", text, sent, amp, strq
            return "CD", text, sent, amp, strq
        if mode == "CA":
            if ch == "$":
                return "CS", text, True, amp, strq
            if ch.isalpha():
                return "CA", text, sent, amp, strq
            return "CD", text, sent, amp, strq
        if mode in ("CS", "CD"):
            return mode, text, sent, amp, strq
        raise AssertionError(mode)

    while work:
        s = work.popleft()
        stack, cat, vc, dc, skip, dcf, cont, strq, mode, text, sent, amp = s
        for ev in F_ALPHABET + ["\n"]:
            ntrans += 1
            if ev == "\n":
                # ---- reference
                if mode in ("DQ", "SQ"):
                    continue  # unterminated character literal
                in_str_amp = mode in ("SAMP_D", "SAMP_S")
                continued = mode == "AMP" or bool(amp & 1) or in_str_amp
                counted = text or sent
                if mode == "START" and cont and strq:
                    continue  # blank line inside a continued character context: not generated
                blank_or_comment = not text and not in_str_amp and mode != "AMP" and not (amp & 1)
                if not text and (amp or mode == "AMP" or in_str_amp):
                    continue  # "&" must not be the only nonblank character(s) of a line (before an optional comment)
                if continued:
                    cont2, strq2, ends = True, (strq if in_str_amp else None), False
                elif blank_or_comment and cont:
                    cont2, strq2, ends = True, strq, False
                else:
                    cont2, strq2, ends = False, None, True
                # ---- cbi
                st2, cat2, out, _e, vc2 = ex.eol(stack, cat, vc)
                if out == "raise":
                    disc.append(("raise", "end-of-line handling raises", trace(s, ev), stack, mode))
                    continue
                cbi_counted = cat2 not in ("EMPTY", "BLANK")
                if cbi_counted != counted:
                    disc.append(("count", f"physical line counted={cbi_counted}, reference={counted} (text={text}, sentinel={sent})", trace(s, ev), stack, mode))
                    continue
                cbi_ends = st2[-1] != "CONTINUING_FROM_SOL"
                if cbi_ends != ends:
                    disc.append(("logical-end", f"statement ends: cbi={cbi_ends} reference={ends}", trace(s, ev), stack, mode))
                    continue
                n = (st2, "EMPTY", vc2, None, False, 0, cont2, strq2, "START", False, False, 0)
            else:
                r = ref_char(cont, strq, mode, text, sent, amp, ev)
                if r is None:
                    continue
                mode2, text2, sent2, amp2, strq2 = r
                if dc is not None:
                    # characters go to dir_check
                    if dc == "SCAN":
                        oc, cat2 = ex.dc_step(dcf, cat, ev)
                        dc2 = {"scan": "SCAN", "sentinel": "SENT", "dead": "DEAD"}[oc]
                        n = (stack, cat2, vc, dc2, True, min(dcf + 1, 2) if oc == "scan" else dcf, cont, strq2, mode2, text2, sent2, amp2)
                    else:
                        n = (stack, cat, vc, dc, True, dcf, cont, strq2, mode2, text2, sent2, amp2)
                elif skip:
                    n = (stack, cat, vc, None, True, 0, cont, strq2, mode2, text2, sent2, amp2)
                else:
                    st2, cat2, out, events, vc2, dircheck = ex.step(stack, cat, ev, False, vc)
                    if out == "raise":
                        disc.append(("raise", "the cleaner raises on well-formed input", trace(s, ev), stack, mode))
                        continue
                    # runs of blanks after & only grow the scratch list; only its emptiness matters
                    vc2 = vc2[:2]
                    if len(st2) > max_depth:
                        disc.append(("stack-growth", f"mode stack deeper than {max_depth}", trace(s, ev), stack, mode))
                        continue
                    n = (st2, cat2, vc2, "SCAN" if dircheck else None, out in ("break", "return"), 1 if dircheck else 0, cont, strq2, mode2, text2, sent2, amp2)
            if n not in seen:
                if len(seen) > max_states:
                    raise AnalysisError("fortran product: state explosion")
                seen[n] = (s, ev)
                work.append(n)
    return seen, ntrans, disc
