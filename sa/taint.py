"""M5b - ORDER taint: which values depend on hash order / directory enumeration
order / dict insertion order, and where they reach an observable.

Kinds (per expression / variable / object field):
  CLEAN  no dependence on an arbitrary order
  SET    unordered container (set/frozenset): fine as a value, arbitrary when iterated
  SEQ    sequence / iterator / dict whose (insertion) order is arbitrary
  VAL    scalar (str / float / element) whose value depends on an arbitrary order

Sources: set()/frozenset()/set literals and comprehensions (when iterated),
set.pop(), Path.rglob/glob/iterdir, os.listdir/scandir/walk, dicts and lists filled
inside a loop whose iteration order is arbitrary, sorted(..., key=f) with a key
that is not injective (ties keep the input order).
Sanitisers: sorted()/list.sort() with no key or an injective key, len/min/max/any/
all/bool, math.fsum, set()/frozenset() (back to SET), membership tests, integer
accumulation.
Sinks: print / write / json.dump / tabulate arguments, values returned by the
listed API functions, float or string accumulation inside an arbitrary-order loop.
Interprocedural: per-function summaries (return kind, fields filled in call
order) joined over a fixpoint; parameters get the join of the kinds passed at
the resolved call sites.
"""

from __future__ import annotations

import ast

from .callgraph import CallGraph
from .model import AnalysisError, FuncInfo, Repo, callee, dotted, u

CLEAN, SET, SEQ, VAL = 0, 1, 2, 3
NAMES = {CLEAN: "clean", SET: "set", SEQ: "seq*", VAL: "val*"}


def join(a, b):
    if a == b:
        return a
    if CLEAN in (a, b):
        return max(a, b)
    if {a, b} == {SET, SEQ}:
        return SEQ
    return max(a, b)


ORDER_SOURCES = {"rglob", "glob", "iterdir"}
ORDER_SOURCE_FUNCS = {"os.listdir", "os.scandir", "os.walk", "glob.glob", "glob.iglob"}
INSENSITIVE = {"len", "min", "max", "any", "all", "bool", "isinstance", "hash", "id", "math.fsum", "fsum", "int", "float", "abs", "type", "callable", "hasattr", "getattr"}
SEQ_PRESERVING = {"list", "tuple", "iter", "enumerate", "reversed", "filter", "map", "zip", "it.chain", "itertools.chain", "it.chain.from_iterable", "itertools.chain.from_iterable", "chain", "it.combinations", "it.permutations", "itertools.combinations", "itertools.permutations", "it.islice", "copy", "copy.copy", "next"}
SET_MAKERS = {"set", "frozenset"}
PRINTERS = {"print"}


def injective_key(k):
    """Is the sort key certainly injective on the elements (so that ties cannot
    expose the input order)?"""
    if k is None:
        return True
    if isinstance(k, ast.Constant) and k.value is None:
        return True
    if isinstance(k, ast.Name):
        return k.id in ("sorted", "str", "repr", "tuple")  # element-identifying transformations
    if isinstance(k, ast.Lambda) and len(k.args.args) == 1:
        p = k.args.args[0].arg
        return _ident_expr(k.body, p)
    return False


def _ident_expr(e, p):
    if isinstance(e, ast.Name):
        return e.id == p
    if isinstance(e, ast.Tuple):
        return any(_ident_expr(x, p) for x in e.elts)
    if isinstance(e, ast.Call) and len(e.args) == 1 and not e.keywords and u(e.func) in ("sorted", "str", "repr", "tuple", "list", "os.fspath"):
        return _ident_expr(e.args[0], p)
    return False


class Finding:
    def __init__(self, f, node, what, detail):
        self.f, self.node, self.what, self.detail = f, node, what, detail

    @property
    def key(self):
        return f"{self.f.key}:{self.what}:{u(self.node)[:70]}"


class Summary:
    def __init__(self):
        self.ret = CLEAN
        self.ret_float = False
        self.params = {}  # name -> kind
        self.ordered_fields = set()  # self attrs filled non-commutatively per call
        self.emits = False  # prints / writes something


class OrderTaint:
    def __init__(self, repo: Repo, modules, api_returns=()):
        self.repo = repo
        self.cg = CallGraph(repo)
        self.funcs = [f for f in repo.all_functions() if f.module.short in modules]
        self.summ = {f.key: Summary() for f in self.funcs}
        self.fields = {}  # attr name -> kind
        self.props = {}  # property name -> [FuncInfo]
        for f in self.funcs:
            if f.is_property():
                self.props.setdefault(f.name, []).append(f)
        self.api_returns = set(api_returns)
        self.findings = {}
        self.rounds = 0
        changed = True
        while changed and self.rounds < 8:
            self.rounds += 1
            changed = False
            self.findings = {}
            for f in self.funcs:
                before = self._snapshot(f)
                fb = dict(self.fields)
                _FuncPass(self, f).run()
                if self._snapshot(f) != before or fb != self.fields:
                    changed = True

    def iterable_class(self, f, name):
        a = f.node.args
        for p in a.posonlyargs + a.args + a.kwonlyargs:
            if p.arg == name and p.annotation is not None:
                for c in self.repo.all_classes():
                    if c.name in u(p.annotation) and "__iter__" in c.methods:
                        return c
        for n in f.body_nodes():
            if isinstance(n, ast.Assign) and len(n.targets) == 1 and isinstance(n.targets[0], ast.Name) and n.targets[0].id == name and isinstance(n.value, ast.Call):
                c = self.repo.resolve_class(f.module, dotted(n.value.func) or "")
                if c is not None and "__iter__" in c.methods:
                    return c
        for c in self.repo.all_classes():
            if c.name.lower() == name.lower() and "__iter__" in c.methods:
                return c
        return None

    def _snapshot(self, f):
        s = self.summ[f.key]
        return (s.ret, s.ret_float, tuple(sorted(s.params.items())), tuple(sorted(s.ordered_fields)), s.emits)

    def report(self, f, node, what, detail):
        fd = Finding(f, node, what, detail)
        self.findings[fd.key] = fd


class _FuncPass:
    def __init__(self, eng: OrderTaint, f: FuncInfo):
        self.e = eng
        self.f = f
        self.s = eng.summ[f.key]
        self.env = dict(self.s.params)
        self.floaty = set()
        self.loop = []  # stack of bools: inside arbitrary-order loop
        self.is_gen = any(isinstance(n, (ast.Yield, ast.YieldFrom)) for n in f.body_nodes())

    # ------------------------------------------------------------------
    def run(self):
        for _ in range(2):
            self.block(self.f.node.body)

    def tainted_loop(self):
        return any(self.loop)

    def block(self, stmts):
        for s in stmts:
            self.stmt(s)

    def stmt(self, s):
        if isinstance(s, (ast.FunctionDef, ast.AsyncFunctionDef, ast.ClassDef)):
            return
        if isinstance(s, ast.Assign):
            k = self.kind(s.value)
            for t in s.targets:
                self.assign(t, k, s.value, s)
            return
        if isinstance(s, ast.AnnAssign):
            if s.value is not None:
                self.assign(s.target, self.kind(s.value), s.value, s)
            return
        if isinstance(s, ast.AugAssign):
            k = self.kind(s.value)
            tgt = s.target
            cur = self.kind(tgt)
            newk = join(cur, k if k in (SEQ, VAL) else CLEAN)
            if self.tainted_loop() and isinstance(s.op, ast.Add):
                if self.is_noncommutative_value(s.value):
                    newk = VAL
                    self.e.report(self.f, s, "order-dependent-accumulation", "float/string accumulated in an arbitrary iteration order")
                elif isinstance(s.value, (ast.List, ast.ListComp)) or self.is_listy(tgt):
                    newk = SEQ
            if isinstance(tgt, ast.Name):
                self.env[tgt.id] = newk
                if self.is_noncommutative_value(s.value):
                    self.floaty.add(tgt.id)
            elif isinstance(tgt, ast.Subscript):
                self.store_sub(tgt, newk)
            elif isinstance(tgt, ast.Attribute):
                self.store_attr(tgt, newk)
            return
        if isinstance(s, ast.Expr):
            self.kind(s.value, stmt=s)
            return
        if isinstance(s, ast.Return):
            if s.value is not None:
                k = self.kind(s.value)
                self.s.ret = join(self.s.ret, k)
                if self.is_noncommutative_value(s.value):
                    self.s.ret_float = True
                if k in (SEQ, VAL) and self.f.key in self.e.api_returns:
                    self.e.report(self.f, s, "order-dependent-return", f"returns a value whose order/content depends on an arbitrary iteration order ({NAMES[k]})")
            return
        if isinstance(s, ast.If):
            self.kind(s.test)
            self.block(s.body)
            self.block(s.orelse)
            return
        if isinstance(s, (ast.For, ast.AsyncFor)):
            k = self.iter_kind(s.iter)
            arb = k in (SET, SEQ)
            self.assign(s.target, CLEAN, None, s)
            self.loop.append(arb)
            for _ in range(2):
                self.block(s.body)
            self.loop.pop()
            self.block(s.orelse)
            return
        if isinstance(s, ast.While):
            # a loop driven by set.pop() visits elements in arbitrary order
            arb = any(isinstance(n, ast.Call) and isinstance(n.func, ast.Attribute) and n.func.attr == "pop" and not n.args and self.kind(n.func.value) == SET for n in ast.walk(s))
            self.kind(s.test)
            self.loop.append(arb)
            for _ in range(2):
                self.block(s.body)
            self.loop.pop()
            self.block(s.orelse)
            return
        if isinstance(s, ast.With):
            for it in s.items:
                k = self.kind(it.context_expr)
                if it.optional_vars is not None:
                    self.assign(it.optional_vars, CLEAN, None, s)
            self.block(s.body)
            return
        if isinstance(s, ast.Try):
            self.block(s.body)
            for h in s.handlers:
                self.block(h.body)
            self.block(s.orelse)
            self.block(s.finalbody)
            return
        if isinstance(s, (ast.Raise, ast.Pass, ast.Break, ast.Continue, ast.Import, ast.ImportFrom, ast.Global, ast.Nonlocal, ast.Assert, ast.Delete)):
            return
        if isinstance(s, ast.Match):
            raise AnalysisError("order taint: match statement not modelled")

    # ------------------------------------------------------------------
    def is_noncommutative_value(self, v):
        """float or string valued expression (accumulating it is order sensitive)"""
        for n in ast.walk(v):
            if isinstance(n, ast.BinOp) and isinstance(n.op, ast.Div):
                return True
            if isinstance(n, ast.JoinedStr):
                return True
            if isinstance(n, ast.Constant) and isinstance(n.value, (str, float)):
                return True
            if isinstance(n, ast.Call):
                d = dotted(n.func) or ""
                if d in ("float", "str", "repr") or d.endswith(".format") or d.endswith(".join"):
                    return True
                for t in self.e.cg.resolve(self.f, n, duck=False):
                    if t.key in self.e.summ and self.e.summ[t.key].ret_float:
                        return True
            if isinstance(n, ast.Name) and n.id in self.floaty:
                return True
        return False

    def is_listy(self, tgt):
        return False

    def iter_kind(self, e):
        """kind of iterating `e`: objects of package classes with __iter__ use that method's summary"""
        k = self.kind(e)
        if isinstance(e, ast.Name):
            cls = self.e.iterable_class(self.f, e.id)
            if cls is not None:
                it = cls.find_method("__iter__")
                if it is not None and it.key in self.e.summ:
                    k = join(k, self.e.summ[it.key].ret)
        return k

    def assign(self, t, k, value, stmt):
        if isinstance(t, ast.Name):
            self.env[t.id] = k
            if value is not None and self.is_noncommutative_value(value):
                self.floaty.add(t.id)
            else:
                self.floaty.discard(t.id)
        elif isinstance(t, (ast.Tuple, ast.List)):
            for e in t.elts:
                self.assign(e, VAL if k in (SEQ, VAL) else CLEAN, None, stmt)
        elif isinstance(t, ast.Subscript):
            self.store_sub(t, k)
        elif isinstance(t, ast.Attribute):
            self.store_attr(t, k)
        elif isinstance(t, ast.Starred):
            self.assign(t.value, k, None, stmt)

    def store_sub(self, t, k):
        """d[key] = v : inside an arbitrary-order loop the insertion order of d is arbitrary"""
        base = t.value
        newk = SEQ if self.tainted_loop() else CLEAN
        if k in (SEQ, VAL):
            pass  # stored values are tainted, the container's order is not
        if newk == CLEAN:
            return
        if isinstance(base, ast.Name):
            self.env[base.id] = join(self.env.get(base.id, CLEAN), newk)
        elif isinstance(base, ast.Attribute):
            self.store_attr(base, newk, ordered=True)

    def store_attr(self, t, k, ordered=False):
        if k == CLEAN:
            return
        self.e.fields[t.attr] = join(self.e.fields.get(t.attr, CLEAN), k)
        if dotted(t.value) == "self":
            self.s.ordered_fields.add(t.attr)

    # ------------------------------------------------------------------
    def kind(self, e, stmt=None):
        if e is None:
            return CLEAN
        if isinstance(e, ast.Constant):
            return CLEAN
        if isinstance(e, ast.Name):
            return self.env.get(e.id, CLEAN)
        if isinstance(e, (ast.Set, ast.SetComp)):
            if isinstance(e, ast.SetComp):
                for g in e.generators:
                    self.kind(g.iter)
            return SET
        if isinstance(e, (ast.List, ast.Tuple)):
            k = CLEAN
            for x in e.elts:
                kx = self.kind(x.value if isinstance(x, ast.Starred) else x)
                if isinstance(x, ast.Starred) and kx in (SET, SEQ):
                    k = join(k, SEQ)
                elif kx == VAL:
                    k = join(k, VAL)
                elif kx == SEQ:
                    k = join(k, VAL)  # a list containing an order-dependent thing
            return SEQ if k == SEQ else (VAL if k == VAL else CLEAN)
        if isinstance(e, (ast.ListComp, ast.GeneratorExp)):
            k = CLEAN
            saved = dict(self.env)
            for g in e.generators:
                if self.iter_kind(g.iter) in (SET, SEQ):
                    k = SEQ
                # comprehension targets are fresh bindings (they shadow same-named locals)
                for n in ast.walk(g.target):
                    if isinstance(n, ast.Name):
                        self.env[n.id] = CLEAN
            self.loop.append(k == SEQ)
            ek = self.kind(e.elt)
            self.loop.pop()
            self.env = saved
            if ek in (VAL,) and k == CLEAN:
                return VAL
            return k
        if isinstance(e, ast.DictComp):
            k = CLEAN
            for g in e.generators:
                if self.kind(g.iter) in (SET, SEQ):
                    k = SEQ
            return k
        if isinstance(e, ast.Dict):
            return CLEAN
        if isinstance(e, ast.JoinedStr):
            k = CLEAN
            for v in e.values:
                if isinstance(v, ast.FormattedValue) and self.kind(v.value) in (SEQ, VAL, SET):
                    k = VAL
            return k
        if isinstance(e, ast.BinOp):
            a, b = self.kind(e.left), self.kind(e.right)
            if isinstance(e.op, (ast.BitOr, ast.BitAnd, ast.Sub, ast.BitXor)) and SET in (a, b) and SEQ not in (a, b) and VAL not in (a, b):
                return SET
            r = join(a, b)
            return r if r != SET else SEQ if isinstance(e.op, ast.Add) else r
        if isinstance(e, ast.BoolOp):
            k = CLEAN
            for v in e.values:
                k = join(k, self.kind(v))
            return k
        if isinstance(e, ast.UnaryOp):
            return CLEAN if isinstance(e.op, ast.Not) else self.kind(e.operand)
        if isinstance(e, ast.Compare):
            self.kind(e.left)
            for c in e.comparators:
                self.kind(c)
            return CLEAN
        if isinstance(e, ast.IfExp):
            self.kind(e.test)
            return join(self.kind(e.body), self.kind(e.orelse))
        if isinstance(e, ast.Subscript):
            kb = self.kind(e.value)
            if isinstance(e.slice, ast.Slice):
                return kb
            if kb == SEQ:
                # positional access into an arbitrarily ordered sequence; keyed access into a dict is fine
                idx = e.slice
                if isinstance(idx, ast.Constant) and isinstance(idx.value, int) or (isinstance(idx, ast.UnaryOp) and isinstance(idx.operand, ast.Constant)):
                    return VAL
                return CLEAN
            return VAL if kb == VAL else CLEAN
        if isinstance(e, ast.Attribute):
            root = (dotted(e.value) or "").split(".")[0]
            if e.attr in self.e.props and root not in ("args", "namespace", "kwargs", "os", "sys"):
                k = CLEAN
                for p in self.e.props[e.attr]:
                    k = join(k, self.e.summ[p.key].ret)
                return k
            base = self.kind(e.value)
            fk = self.e.fields.get(e.attr, CLEAN)
            return join(fk, VAL if base == VAL else CLEAN)
        if isinstance(e, ast.Starred):
            return self.kind(e.value)
        if isinstance(e, ast.Lambda):
            return CLEAN
        if isinstance(e, (ast.Yield, ast.YieldFrom)):
            if e.value is not None:
                k = self.kind(e.value)
                if isinstance(e, ast.YieldFrom) and k in (SET, SEQ):
                    self.s.ret = join(self.s.ret, SEQ)
                if self.tainted_loop():
                    self.s.ret = join(self.s.ret, SEQ)
            return CLEAN
        if isinstance(e, ast.NamedExpr):
            k = self.kind(e.value)
            self.assign(e.target, k, e.value, None)
            return k
        if isinstance(e, ast.Call):
            return self.call(e, stmt)
        if isinstance(e, ast.Await):
            return self.kind(e.value)
        return CLEAN

    def call(self, c: ast.Call, stmt):
        d = dotted(c.func) or u(c.func)
        argk = [self.kind(a) for a in c.args]
        kwk = {k.arg: self.kind(k.value) for k in c.keywords}
        anyt = max(argk + list(kwk.values()) + [CLEAN])
        # --- sinks
        if d in PRINTERS or d.endswith(".write") or d in ("json.dump", "json.dumps") or d.endswith("writelines"):
            self.s.emits = True
            data_args = [a for a, k in zip(c.args, argk)]
            bad = [(a, k) for a, k in zip(c.args, argk) if k in (SEQ, VAL, SET)]
            if bad:
                self.e.report(self.f, c, "order-dependent-output", f"`{u(bad[0][0])[:50]}` ({NAMES[bad[0][1]]}) is written out")
            elif self.tainted_loop():
                self.e.report(self.f, c, "output-in-arbitrary-order-loop", "output produced inside a loop whose iteration order is arbitrary")
            return CLEAN
        if d == "sorted":
            key = next((k.value for k in c.keywords if k.arg == "key"), None)
            if injective_key(key):
                return CLEAN
            return SEQ if argk and argk[0] in (SET, SEQ) else CLEAN
        if isinstance(c.func, ast.Attribute) and c.func.attr == "sort":
            key = next((k.value for k in c.keywords if k.arg == "key"), None)
            base = c.func.value
            if injective_key(key):
                if isinstance(base, ast.Name):
                    self.env[base.id] = CLEAN
            return CLEAN
        if d in INSENSITIVE:
            return CLEAN
        if d in SET_MAKERS:
            return SET
        if d == "sum":
            if argk and argk[0] in (SET, SEQ) and c.args and self.is_noncommutative_value(c.args[0]):
                self.e.report(self.f, c, "order-dependent-accumulation", "float terms summed in an arbitrary order (use math.fsum, which is exactly rounded)")
                return VAL
            return VAL if anyt == VAL else CLEAN
        if d in SEQ_PRESERVING or d in ("dict", "collections.OrderedDict", "OrderedDict"):
            if c.args:
                anyt = join(anyt, self.iter_kind(c.args[0]))
            return SEQ if anyt in (SET, SEQ) else anyt
        if d == "str" or d == "repr":
            return VAL if anyt in (SET, SEQ, VAL) else CLEAN
        if d in ORDER_SOURCE_FUNCS:
            return SEQ
        if d == "tabulate":
            return VAL if anyt in (SEQ, VAL) else CLEAN
        if isinstance(c.func, ast.Attribute):
            attr = c.func.attr
            recv = c.func.value
            rk = self.kind(recv)
            if attr in ORDER_SOURCES:
                return SEQ
            if attr == "join":
                return VAL if anyt in (SET, SEQ, VAL) else CLEAN
            if attr in ("keys", "values", "items"):
                return SEQ if rk == SEQ else CLEAN
            if attr == "pop" and not c.args and rk == SET:
                return VAL
            if attr in ("copy", "union", "intersection", "difference", "symmetric_difference"):
                return rk if rk != CLEAN else (SET if attr != "copy" else CLEAN)
            if attr in ("append", "extend", "insert", "appendleft"):
                newk = CLEAN
                if self.tainted_loop() or anyt in (SEQ,) or (attr == "extend" and anyt == SET):
                    newk = SEQ
                elif anyt == VAL:
                    newk = VAL
                if newk != CLEAN:
                    if isinstance(recv, ast.Name):
                        self.env[recv.id] = join(self.env.get(recv.id, CLEAN), newk)
                    elif isinstance(recv, ast.Attribute):
                        self.store_attr(recv, newk, ordered=True)
                return CLEAN
            if attr in ("add", "update", "discard", "remove", "difference_update", "setdefault", "get", "startswith", "endswith", "format", "index", "count"):
                if attr == "setdefault" and self.tainted_loop():
                    if isinstance(recv, ast.Name):
                        self.env[recv.id] = join(self.env.get(recv.id, CLEAN), SEQ)
                return VAL if (attr == "format" and anyt in (SEQ, VAL)) else CLEAN
        # --- package callee
        targets = [t for t in self.e.cg.resolve(self.f, c, duck=True) if t.key in self.e.summ]
        if targets:
            k = CLEAN
            for t in targets:
                ts = self.e.summ[t.key]
                # bind argument kinds to parameters (context-insensitive join)
                params = [p for p in t.params if p not in ("self", "cls")] if t.cls is not None and not t.is_static() else t.params
                if t.name == "__init__":
                    params = [p for p in t.params if p != "self"]
                for i, ak in enumerate(argk):
                    if i < len(params) and ak != CLEAN:
                        ts.params[params[i]] = join(ts.params.get(params[i], CLEAN), ak)
                for kw, ak in kwk.items():
                    if kw in params and ak != CLEAN:
                        ts.params[kw] = join(ts.params.get(kw, CLEAN), ak)
                k = join(k, ts.ret)
                if self.tainted_loop():
                    # fields the callee fills in call order become arbitrarily ordered
                    for fld in self._ordered_fields(t):
                        self.e.fields[fld] = join(self.e.fields.get(fld, CLEAN), SEQ)
                    if self._emits(t):
                        self.e.report(self.f, c, "output-in-arbitrary-order-loop", f"{t.key} writes output and is called from a loop whose iteration order is arbitrary")
                if t.name == "__init__":
                    k = CLEAN
            return k
        # unknown callee: taint passes through (an iteration wrapper such as tqdm keeps the order)
        if anyt in (SET, SEQ):
            return SEQ
        if anyt == VAL:
            return VAL
        if isinstance(c.func, ast.Attribute) and self.kind(c.func.value) in (SEQ, VAL):
            return VAL
        return CLEAN

    def _ordered_fields(self, t, seen=None):
        seen = seen or set()
        if t.key in seen:
            return set()
        seen.add(t.key)
        out = set(self._direct_ordered_fields(t))
        for k in self.e.cg.edges.get(t.key, ()):
            if k in self.e.summ:
                out |= self._ordered_fields(self.e.cg.funcs[k], seen)
        return out

    def _direct_ordered_fields(self, t):
        out = set()
        for n in t.body_nodes():
            if isinstance(n, ast.Subscript) and isinstance(n.ctx, ast.Store) and isinstance(n.value, ast.Attribute):
                # <obj>.<field>[key] = ...  creates entries in call order (dict) - only if it may create a key
                out.add(n.value.attr)
            if isinstance(n, ast.Call) and isinstance(n.func, ast.Attribute) and n.func.attr in ("append", "extend", "insert") and isinstance(n.func.value, ast.Attribute):
                out.add(n.func.value.attr)
        return out

    def _emits(self, t, seen=None):
        seen = seen or set()
        if t.key in seen:
            return False
        seen.add(t.key)
        if self.e.summ[t.key].emits:
            return True
        return any(k in self.e.summ and self._emits(self.e.cg.funcs[k], seen) for k in self.e.cg.edges.get(t.key, ()))
