"""Helpers for rules that state a specification over a function's decision table
(paths = atoms -> effects -> result) instead of matching its text: such rules are
indifferent to how the function is written (guard vs nested if, loop vs comprehension,
early return vs else, renamed locals, extracted helpers) and react only to a change of
what is done in which case."""

from __future__ import annotations

import re

from . import review
from .decision import vtext as _vtext
from .model import AnalysisError


def tab(f, unroll=2):
    """decision table of FuncInfo `f` (deepest affordable unrolling); AnalysisError when unavailable"""
    t = review.table(f, unroll=unroll)
    if (isinstance(t, Exception) or not t) and unroll == 2:
        t = review.table(f, unroll=1)
    if isinstance(t, Exception) or not t:
        raise AnalysisError(f"{f.key}: decision table not available ({t})")
    return t


def tv(v):
    return "-" if v is None else int(v)


def vt(v):
    """value text without version counters"""
    return re.sub(r"@\d+", "", v if isinstance(v, str) else _vtext(v))


def calls(p, suffix=None, name=None):
    return [e for e in p.effects if e[0] == "call" and (suffix is None or str(e[1]).endswith(suffix)) and (name is None or e[1] == name)]


def atoms(p, drop_more=True):
    return {vt(k): v for k, v in p.atoms.items() if not (drop_more and k.startswith("more("))}


def n_iter(p, what):
    """number of iterations of the loop over `what` taken on this path"""
    return sum(1 for k, v in p.atoms.items() if k.startswith(f"more({what}#") and v)


def appended(p, name):
    """texts of the values added to the list `name` on this path, in order, whichever idiom adds them:
    `name += [a, b]`, `name.append(a)`, `name.extend([a, b])`; a non-display operand is denoted `*<text>`"""
    out = []
    for e in p.effects:
        val = None
        if e[0] == "aug" and e[1] == name and e[2] == "Add":
            val = e[3]
        elif e[0] == "call" and e[1] == f"{name}.append" and len(e) > 2:
            out.append(vt(e[2]))
            continue
        elif e[0] == "call" and e[1] == f"{name}.extend" and len(e) > 2:
            val = e[2]
        else:
            continue
        if isinstance(val, (list, tuple)):
            out.extend(vt(x) for x in val)
        else:
            out.append("*" + vt(val))
    return out


def split_top(text, sep=","):
    """split at top-level separators (outside brackets and string literals; the expressions of an f-string value text
    `f'..{expr}..'` may themselves contain string literals)"""
    out, depth, cur, quote, prev = [], 0, [], None, ""
    fmode, fbrace, fq = False, 0, None
    for i, ch in enumerate(text):
        if fmode:
            cur.append(ch)
            if fq:
                if ch == fq and prev != "\\":
                    fq = None
            elif ch == "{":
                fbrace += 1
            elif ch == "}":
                fbrace = max(0, fbrace - 1)
            elif ch in "'\"":
                if fbrace > 0:
                    fq = ch
                elif ch == quote:
                    fmode, quote = False, None
        elif quote:
            cur.append(ch)
            if ch == quote and prev != "\\":
                quote = None
        elif ch in "'\"":
            quote = ch
            cur.append(ch)
            if prev == "f" and (i < 2 or not (text[i - 2].isalnum() or text[i - 2] == "_")):
                fmode, fbrace, fq = True, 0, None
        elif ch in "([{":
            depth += 1
            cur.append(ch)
        elif ch in ")]}":
            depth -= 1
            cur.append(ch)
        elif ch == sep and depth == 0:
            out.append("".join(cur).strip())
            cur = []
        else:
            cur.append(ch)
        prev = ch
    if cur:
        out.append("".join(cur).strip())
    return out


def dict_fields(text):
    """`dict:{'a': X, 'b': Y}` -> {'a': 'X', 'b': 'Y'} (top-level string keys only); None if not a display"""
    if text.startswith("dict:"):
        text = text[5:]
    text = text.strip()
    if not (text.startswith("{") and text.endswith("}")):
        return None
    out = {}
    for item in split_top(text[1:-1]):
        kv = split_top(item, ":")
        if len(kv) < 2:
            return None
        k = kv[0].strip()
        if len(k) >= 2 and k[0] in "'\"" and k[-1] == k[0]:
            out[k[1:-1]] = item[item.index(":") + 1 :].strip() if len(kv) == 2 else ":".join(item.split(":")[1:]).strip()
    return out


def call_args(text, fname):
    """`fname(a, b, k=c)` -> (['a','b'], {'k':'c'}); None if text is not that call"""
    if not (text.startswith(fname + "(") and text.endswith(")")):
        return None
    pos, kw = [], {}
    for a in split_top(text[len(fname) + 1 : -1]):
        kv = split_top(a, "=")
        if len(kv) == 2 and kv[0].isidentifier():
            kw[kv[0]] = kv[1]
        else:
            pos.append(a)
    return pos, kw


def class_hooks(cls, unroll=2, base=None):
    """Hooks that interpret calls of small loop-free methods of the same class in place (a method that delegates to
    its siblings is the same thing as one that spells their statements out)"""
    import ast as _ast

    from .decision import Hooks as _Hooks

    Base = base or _Hooks

    class _CH(Base):
        def inline(self, call, ftext, st):
            r = super().inline(call, ftext, st)
            if r is not None:
                return r
            if not ftext.startswith("self.") or ftext.count(".") != 1:
                return None
            m = cls.find_method(ftext[5:])
            if m is None:
                return None
            body = [x for x in m.node.body if not (isinstance(x, _ast.Expr) and isinstance(x.value, _ast.Constant))]
            if len(body) > 6 or any(isinstance(n, (_ast.For, _ast.While, _ast.Try, _ast.With, _ast.Yield, _ast.YieldFrom)) for n in _ast.walk(m.node)):
                return None
            return m.node

    _CH.unroll = unroll
    return _CH()


def _strip_parens(t):
    t = t.strip()
    while t.startswith("(") and t.endswith(")"):
        depth = 0
        ok = True
        for i, ch in enumerate(t):
            if ch == "(":
                depth += 1
            elif ch == ")":
                depth -= 1
                if depth == 0 and i != len(t) - 1:
                    ok = False
                    break
        if not ok:
            break
        t = t[1:-1].strip()
    return t


def _top_binop(t, ops):
    """(left, op, right) at the LAST top-level ` Op ` (left-associative) of a value text, or None"""
    depth, quote, prev = 0, None, ""
    hits = []
    i = 0
    while i < len(t):
        ch = t[i]
        if quote:
            if ch == quote and prev != "\\":
                quote = None
        elif ch in "'\"":
            quote = ch
        elif ch in "([{":
            depth += 1
        elif ch in ")]}":
            depth -= 1
        elif ch == " " and depth == 0:
            for op in ops:
                if t.startswith(f" {op} ", i):
                    hits.append((i, op))
        prev = ch
        i += 1
    if not hits:
        return None
    i, op = hits[-1]
    return t[:i], op, t[i + len(op) + 2 :]


def product_form(text):
    """normal form of a product/quotient value text: (sorted numerator factors, sorted denominator factors), with
    `float(x)` transparent and numeric literals normalised (100.0 == 100); commutativity and associativity of `*`
    and the placement of `/` do not matter: `a / b * 100`, `100 * a / b`, `100.0 * (a / b)` have one normal form"""
    num, den = [], []

    def walk(t, into, other):
        t = _strip_parens(t)
        while re.fullmatch(r"float\((.*)\)", t) and _strip_parens(t[5:]) != t[5:]:
            t = _strip_parens(t[5:])
        hit = _top_binop(t, ("Mult", "Div"))
        if hit is None:
            try:
                t = repr(float(t)) if re.fullmatch(r"-?\d+(\.\d*)?", t) else t
            except ValueError:
                pass
            into.append(t)
            return
        l, op, r = hit
        walk(l, into, other)
        if op == "Mult":
            walk(r, into, other)
        else:
            walk(r, other, into)

    walk(vt(text), num, den)
    return sorted(num), sorted(den)
