"""M2 - statement-level control-flow graph for the statement kinds the package
uses, with dominators / post-dominators and branch-labelled edges.

Nodes are integers; node.kind in {entry, exit, raise, stmt, test, loop, join}.
`test` nodes carry the ast test expression; their out-edges are labelled True /
False.  A `for` header is a `loop` node (edges: True = body, False = orelse/after).
Exceptions: `raise` goes to the innermost matching-or-any handler if inside a
`try`, otherwise to the RAISE sink.  Calls inside a `try` body may raise: every
statement of a try body gets an extra edge to each handler (conservative).
"""

from __future__ import annotations

import ast
from dataclasses import dataclass, field

from .model import AnalysisError, u


@dataclass
class N:
    id: int
    kind: str
    ast: object = None
    succ: list = field(default_factory=list)  # (target id, label)
    pred: list = field(default_factory=list)
    loops: tuple = ()  # ids of enclosing loop header nodes, outermost first

    def __repr__(self):
        t = u(self.ast)[:50] if self.ast is not None and not isinstance(self.ast, str) else (self.ast or "")
        return f"<{self.id}:{self.kind} {t}>"


class CFG:
    def __init__(self, fn: ast.FunctionDef):
        self.fn = fn
        self.nodes: list[N] = []
        self.entry = self._new("entry").id
        self.exit = self._new("exit").id  # normal return / fall off the end
        self.raise_ = self._new("raise").id  # uncaught exception
        self.stmt_node: dict[int, int] = {}  # id(ast stmt) -> node id
        self._loop_stack = []  # (header id, after id)
        self._try_stack = []  # list of handler entry ids lists
        last = self._block(fn.body, [self.entry])
        for p in last:
            self._edge(p, self.exit)
        self._dom = None
        self._pdom = None

    # -- construction ----------------------------------------------------
    def _new(self, kind, a=None):
        n = N(len(self.nodes), kind, a, loops=tuple(h for h, _ in getattr(self, "_loop_stack", [])))
        self.nodes.append(n)
        return n

    def _edge(self, a, b, label=None):
        if isinstance(a, tuple):
            a, label = a
        self.nodes[a].succ.append((b, label))
        self.nodes[b].pred.append((a, label))

    def _connect(self, preds, target):
        for p in preds:
            self._edge(p, target)

    def _block(self, stmts, preds):
        """preds: list of node ids or (id,label) pairs whose control falls into
        the block.  Returns the list of dangling exits of the block."""
        for st in stmts:
            preds = self._stmt(st, preds)
        return preds

    def _exc_targets(self):
        if self._try_stack:
            return self._try_stack[-1]
        return [self.raise_]

    def _stmt(self, st, preds):
        if isinstance(st, (ast.FunctionDef, ast.AsyncFunctionDef, ast.ClassDef)):
            n = self._new("stmt", st)
            self.stmt_node[id(st)] = n.id
            self._connect(preds, n.id)
            return [n.id]
        if isinstance(st, ast.If):
            t = self._new("test", st.test)
            self.stmt_node[id(st)] = t.id
            self._connect(preds, t.id)
            if self._try_stack:
                for h in self._try_stack[-1]:
                    self._edge(t.id, h, "exc")
            out = self._block(st.body, [(t.id, True)])
            out += self._block(st.orelse, [(t.id, False)]) if st.orelse else [(t.id, False)]
            return out
        if isinstance(st, (ast.For, ast.AsyncFor)):
            h = self._new("loop", st)
            self.stmt_node[id(st)] = h.id
            self._connect(preds, h.id)
            after = self._new("join", "after-loop")
            self._loop_stack.append((h.id, after.id))
            body_out = self._block(st.body, [(h.id, True)])
            self._loop_stack.pop()
            self._connect(body_out, h.id)
            els = self._block(st.orelse, [(h.id, False)]) if st.orelse else [(h.id, False)]
            self._connect(els, after.id)
            after.loops = tuple(x for x, _ in self._loop_stack)
            return [after.id]
        if isinstance(st, ast.While):
            t = self._new("test", st.test)
            t.kind = "loop"
            self.stmt_node[id(st)] = t.id
            self._connect(preds, t.id)
            after = self._new("join", "after-loop")
            self._loop_stack.append((t.id, after.id))
            body_out = self._block(st.body, [(t.id, True)])
            self._loop_stack.pop()
            self._connect(body_out, t.id)
            const_true = isinstance(st.test, ast.Constant) and bool(st.test.value)
            if not const_true:
                els = self._block(st.orelse, [(t.id, False)]) if st.orelse else [(t.id, False)]
                self._connect(els, after.id)
            after.loops = tuple(x for x, _ in self._loop_stack)
            return [after.id]
        if isinstance(st, ast.Try):
            handlers = []
            for hd in st.handlers:
                hn = self._new("handler", hd)
                handlers.append(hn)
            # exceptions not matched by any handler propagate outward
            outer = self._exc_targets()
            self._try_stack.append([h.id for h in handlers] + ([] if any(_catches_all(h.ast) for h in handlers) else outer))
            body_out = self._block(st.body, preds)
            self._try_stack.pop()
            else_out = self._block(st.orelse, body_out) if st.orelse else body_out
            outs = list(else_out)
            for hn in handlers:
                outs += self._block(hn.ast.body, [hn.id])
            if st.finalbody:
                f = self._new("join", "finally")
                self._connect(outs, f.id)
                outs = self._block(st.finalbody, [f.id])
            return outs
        if isinstance(st, (ast.With, ast.AsyncWith)):
            n = self._new("stmt", st)
            n.kind = "with"
            self.stmt_node[id(st)] = n.id
            self._connect(preds, n.id)
            self._may_raise(n.id)
            return self._block(st.body, [n.id])
        if isinstance(st, ast.Match):
            raise AnalysisError("match statements are not modelled by the CFG")
        n = self._new("stmt", st)
        self.stmt_node[id(st)] = n.id
        self._connect(preds, n.id)
        if isinstance(st, ast.Return):
            self._edge(n.id, self.exit)
            return []
        if isinstance(st, ast.Raise):
            for t in self._exc_targets():
                self._edge(n.id, t, "exc")
            return []
        if isinstance(st, ast.Break):
            if not self._loop_stack:
                raise AnalysisError("break outside loop")
            self._edge(n.id, self._loop_stack[-1][1])
            return []
        if isinstance(st, ast.Continue):
            if not self._loop_stack:
                raise AnalysisError("continue outside loop")
            self._edge(n.id, self._loop_stack[-1][0])
            return []
        self._may_raise(n.id)
        return [n.id]

    def _may_raise(self, nid):
        # only inside try bodies do we materialise exceptional edges
        if self._try_stack:
            for h in self._try_stack[-1]:
                self._edge(nid, h, "exc")

    # -- queries ----------------------------------------------------------
    def node_of(self, stmt):
        if id(stmt) not in self.stmt_node:
            raise AnalysisError(f"statement not in CFG: {u(stmt)[:60]}")
        return self.stmt_node[id(stmt)]

    def _dominators(self, start, succ):
        n = len(self.nodes)
        reach = set()
        work = [start]
        while work:
            x = work.pop()
            if x in reach:
                continue
            reach.add(x)
            work.extend(succ(x))
        full = set(reach)
        dom = {x: set(full) for x in reach}
        dom[start] = {start}
        preds = {x: [] for x in reach}
        for x in reach:
            for y in succ(x):
                if y in reach:
                    preds[y].append(x)
        changed = True
        while changed:
            changed = False
            for x in reach:
                if x == start:
                    continue
                ps = [dom[p] for p in preds[x]]
                new = set.intersection(*ps) if ps else set()
                new = new | {x}
                if new != dom[x]:
                    dom[x] = new
                    changed = True
        return dom

    def dom(self):
        if self._dom is None:
            self._dom = self._dominators(self.entry, lambda x: [t for t, _ in self.nodes[x].succ])
        return self._dom

    def dominates(self, a, b):
        """every path entry -> b passes through a"""
        d = self.dom()
        return b in d and a in d[b]

    def reachable_from(self, a, avoid=(), labels=None):
        seen = set()
        work = [a]
        while work:
            x = work.pop()
            if x in seen or x in avoid:
                continue
            seen.add(x)
            for t, lab in self.nodes[x].succ:
                if labels is not None and (x, lab) in labels:
                    continue
                work.append(t)
        return seen

    def all_paths_through(self, src, dst_set, through_set):
        """True iff every path from src to any node in dst_set passes through a
        node of through_set (src itself excluded)."""
        seen = set()
        work = [src]
        while work:
            x = work.pop()
            if x in seen:
                continue
            seen.add(x)
            if x != src and x in through_set:
                continue
            if x in dst_set and x != src:
                return False
            for t, _ in self.nodes[x].succ:
                work.append(t)
        return True

    def path_conditions(self, target):
        """Conjunction of (test ast, polarity) that hold on EVERY path from
        entry to `target` (must-conditions): test nodes that dominate target and
        for which only one labelled out-edge can reach target without passing
        through the test again."""
        out = []
        d = self.dom()
        if target not in d:
            return out
        for t in sorted(d[target]):
            nd = self.nodes[t]
            if nd.kind not in ("test",) or t == target:
                continue
            pol = []
            for tgt, lab in nd.succ:
                if lab not in (True, False):
                    continue
                r = self.reachable_from(tgt, avoid={t})
                if target in r:
                    pol.append(lab)
            if len(pol) == 1:
                out.append((nd.ast, pol[0]))
        return out

    def in_loop(self, nid):
        return self.nodes[nid].loops


def _catches_all(handler: ast.ExceptHandler):
    return handler.type is None or u(handler.type) in ("Exception", "BaseException")


def cfg_of(fi):
    c = getattr(fi, "_cfg", None)
    if c is None:
        c = CFG(fi.node)
        fi._cfg = c
    return c
