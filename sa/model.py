"""M0 - program model of /repo's working tree.

Parses every module of the `codebasin` package with `ast`, indexes classes
(with in-package MRO), functions (methods and nested functions by qualified
name), module-level bindings and import aliases, and loads the data files the
rules consult (compilers/*.toml, schema/*.schema).  Nothing is imported or run.
"""

from __future__ import annotations

import ast
import hashlib
import json
import os
import tomllib
from dataclasses import dataclass, field


class AnalysisError(Exception):
    """An anchor vanished or a construct has a shape the engine does not
    understand.  Reported as ANALYSIS-ERROR (exit 2), never as a pass and never
    as a VIOLATION."""


def u(node) -> str:
    """Normalised text of a construct (comments/formatting invisible)."""
    if node is None:
        return "None"
    if isinstance(node, list):
        return "; ".join(ast.unparse(n) for n in node)
    return ast.unparse(node)


@dataclass(eq=False)
class FuncInfo:
    module: "Module"
    qualname: str
    node: ast.FunctionDef
    cls: "ClassInfo | None" = None
    parent: "FuncInfo | None" = None

    @property
    def name(self):
        return self.node.name

    @property
    def key(self):
        return f"{self.module.short}:{self.qualname}"

    @property
    def params(self):
        a = self.node.args
        return [x.arg for x in a.posonlyargs + a.args + a.kwonlyargs]

    def loc(self, node=None):
        n = node if node is not None else self.node
        return f"{self.module.relpath}:{getattr(n, 'lineno', self.node.lineno)}"

    def is_static(self):
        return any(u(d) in ("staticmethod",) for d in self.node.decorator_list)

    def is_classmethod(self):
        return any(u(d) in ("classmethod",) for d in self.node.decorator_list)

    def is_property(self):
        return any(u(d) == "property" for d in self.node.decorator_list)

    def body_nodes(self, include_nested=False, helpers=True):
        """All AST nodes of the body; nested function/class bodies excluded
        unless asked for.  With helpers=True (default) the bodies of helpers newly extracted from this
        function (see new_helpers) are included."""
        if helpers:
            out = list(self.body_nodes(include_nested, helpers=False))
            for h in self.new_helpers():
                out.extend(h.body_nodes(include_nested, helpers=False))
            return out
        out = []
        stack = list(reversed(self.node.body))
        while stack:
            n = stack.pop()
            out.append(n)
            for c in reversed(list(ast.iter_child_nodes(n))):
                if not include_nested and isinstance(
                    c, (ast.FunctionDef, ast.AsyncFunctionDef, ast.ClassDef, ast.Lambda)
                ):
                    if isinstance(c, ast.Lambda):
                        stack.append(c)
                    continue
                stack.append(c)
        return out

    def calls(self, include_nested=False):
        return [n for n in self.body_nodes(include_nested) if isinstance(n, ast.Call)]

    def new_helpers(self):
        """functions of the same module that this function calls and that do not exist in the reviewed snapshot
        (resp. in the analysed tree, when this is the snapshot): the product of an extract-method refactoring.
        Rules that look for a construct "in F" look in F and these helpers (F as it was before the extraction)."""
        cached = getattr(self, "_new_helpers", None)
        if cached is not None:
            return cached
        out, seen, work = [], {self.qualname}, [self]
        try:
            from .review import other_side

            om = other_side(self.module.repo).modules.get(self.module.name)
        except Exception:
            om = None
        if om is not None:
            while work:
                f = work.pop()
                for n in f.body_nodes(helpers=False):
                    if not isinstance(n, ast.Call):
                        continue
                    name = None
                    if isinstance(n.func, ast.Name):
                        name = n.func.id
                    elif isinstance(n.func, ast.Attribute) and isinstance(n.func.value, ast.Name) and (n.func.value.id in ("self", "cls") or (self.cls is not None and n.func.value.id == self.cls.name)):
                        name = n.func.attr
                    if name is None:
                        continue
                    cand = None
                    if self.cls is not None:
                        cand = self.cls.find_method(name)
                        if cand is None:
                            # name-mangled private methods: self.__x is stored as __x
                            cand = self.cls.find_method(name)
                    if cand is None:
                        cand = self.module.functions.get(name)
                    if cand is None or cand.qualname in seen or cand.module is not self.module:
                        continue
                    if cand.qualname in om.functions:
                        continue
                    seen.add(cand.qualname)
                    out.append(cand)
                    work.append(cand)
        object.__setattr__(self, "_new_helpers", out)
        return out


@dataclass(eq=False)
class ClassInfo:
    module: "Module"
    name: str
    node: ast.ClassDef
    qualname: str = ""
    base_names: list = field(default_factory=list)
    methods: dict = field(default_factory=dict)
    class_attrs: dict = field(default_factory=dict)  # name -> value ast
    bases: list = field(default_factory=list)  # resolved ClassInfo (in package)

    @property
    def key(self):
        return f"{self.module.short}:{self.qualname or self.name}"

    def mro(self):
        """Linearisation for single inheritance chains inside the package (the
        package uses no multiple inheritance from package classes; checked)."""
        out = [self]
        for b in self.bases:
            for c in b.mro():
                if c not in out:
                    out.append(c)
        return out

    def find_method(self, name):
        for c in self.mro():
            if name in c.methods:
                return c.methods[name]
        return None

    def is_subclass_of(self, other: "ClassInfo"):
        return other in self.mro()

    def loc(self, node=None):
        n = node if node is not None else self.node
        return f"{self.module.relpath}:{n.lineno}"


def _register(fi):
    from .decision import FUNC_INDEX

    FUNC_INDEX[id(fi.node)] = fi


class Module:
    def __init__(self, repo, name, path, relpath):
        self.repo = repo
        self.name = name  # codebasin.finder
        self.short = name.split(".", 1)[1] if "." in name else name
        if name == "codebasin":
            self.short = "__init__"
        self.path = path
        self.relpath = relpath
        with open(path, "rb") as f:
            raw = f.read()
        self.sha = hashlib.sha256(raw).hexdigest()
        self.src = raw.decode()
        try:
            self.tree = ast.parse(self.src, filename=path)
        except SyntaxError as e:  # pragma: no cover
            raise AnalysisError(f"{relpath}: does not parse: {e}")
        from .alpha import normalise

        self.alpha_renamed = normalise(self.tree, relpath)
        self.functions: dict[str, FuncInfo] = {}
        self.classes: dict[str, ClassInfo] = {}
        self.imports: dict[str, str] = {}  # local alias -> dotted target
        self.globals: dict[str, list] = {}  # name -> [value asts]
        self._index()

    # ------------------------------------------------------------------
    def _index(self):
        for node in ast.walk(self.tree):
            if isinstance(node, ast.Import):
                for a in node.names:
                    self.imports[a.asname or a.name.split(".")[0]] = (
                        a.name if a.asname else a.name.split(".")[0]
                    )
            elif isinstance(node, ast.ImportFrom):
                mod = node.module or ""
                if node.level:
                    base = self.name.rsplit(".", node.level)[0]
                    mod = base + ("." + mod if mod else "")
                for a in node.names:
                    self.imports[a.asname or a.name] = f"{mod}.{a.name}"
        for st in self.tree.body:
            if isinstance(st, ast.Assign):
                for t in st.targets:
                    if isinstance(t, ast.Name):
                        self.globals.setdefault(t.id, []).append(st.value)
            elif isinstance(st, ast.AnnAssign) and isinstance(st.target, ast.Name):
                self.globals.setdefault(st.target.id, []).append(st.value)
        self._index_body(self.tree.body, prefix="", cls=None, parent=None)

    def _index_body(self, body, prefix, cls, parent):
        for st in body:
            if isinstance(st, (ast.FunctionDef, ast.AsyncFunctionDef)):
                q = prefix + st.name
                fi = FuncInfo(self, q, st, cls=cls, parent=parent)
                self.functions[q] = fi
                _register(fi)
                if cls is not None and parent is None:
                    cls.methods[st.name] = fi
                self._index_nested(st, q + ".", cls, fi)
            elif isinstance(st, ast.ClassDef):
                q = prefix + st.name
                ci = ClassInfo(self, st.name, st, qualname=q)
                ci.base_names = [u(b) for b in st.bases]
                for s2 in st.body:
                    if isinstance(s2, ast.Assign):
                        for t in s2.targets:
                            if isinstance(t, ast.Name):
                                ci.class_attrs[t.id] = s2.value
                            elif isinstance(t, ast.Subscript) and isinstance(t.value, ast.Name):
                                # _language_extensions["c"] = [...]
                                ci.class_attrs.setdefault(
                                    t.value.id + "[]", []
                                ).append((t.slice, s2.value))
                    elif isinstance(s2, ast.AnnAssign) and isinstance(s2.target, ast.Name):
                        ci.class_attrs[s2.target.id] = s2.value
                self.classes[q] = ci
                self._index_body(st.body, q + ".", ci, None)

    def _index_nested(self, fn, prefix, cls, parent):
        """Nested defs anywhere inside a function body."""
        stack = list(fn.body)
        while stack:
            n = stack.pop()
            if isinstance(n, (ast.FunctionDef, ast.AsyncFunctionDef)):
                q = prefix + n.name
                fi = FuncInfo(self, q, n, cls=cls, parent=parent)
                self.functions[q] = fi
                _register(fi)
                self._index_nested(n, q + ".", cls, fi)
                continue
            if isinstance(n, ast.ClassDef):
                continue
            stack.extend(ast.iter_child_nodes(n))


class Repo:
    """The analysed tree.  `root` is /repo unless CBI_ROOT points at a scratch
    copy (used by the self-test)."""

    PKG = "codebasin"

    def __init__(self, root=None):
        self.root = os.path.abspath(root or os.environ.get("CBI_ROOT", "/repo"))
        self.pkgdir = os.path.join(self.root, self.PKG)
        if not os.path.isdir(self.pkgdir):
            raise AnalysisError(f"package directory {self.pkgdir} not found")
        self.modules: dict[str, Module] = {}
        self.consulted: dict[str, str] = {}
        for dirpath, dirnames, filenames in os.walk(self.pkgdir):
            dirnames[:] = sorted(d for d in dirnames if d != "__pycache__")
            for fn in sorted(filenames):
                if not fn.endswith(".py"):
                    continue
                path = os.path.join(dirpath, fn)
                rel = os.path.relpath(path, self.root)
                parts = rel[:-3].split(os.sep)
                if parts[-1] == "__init__":
                    parts = parts[:-1]
                name = ".".join(parts)
                m = Module(self, name, path, rel)
                self.modules[name] = m
                self.consulted[rel] = m.sha
        self._link_classes()
        self._data_cache = {}

    # ------------------------------------------------------------------
    def _link_classes(self):
        for m in self.modules.values():
            for c in m.classes.values():
                for b in c.base_names:
                    t = self.resolve_class(m, b)
                    if t is not None:
                        c.bases.append(t)

    def resolve_class(self, module: Module, dotted: str):
        """Resolve a (possibly dotted) name used in `module` to a package class."""
        if dotted in module.classes:
            return module.classes[dotted]
        head, _, rest = dotted.partition(".")
        if head in module.imports:
            target = module.imports[head] + ("." + rest if rest else "")
            return self._class_by_dotted(target)
        return None

    def _class_by_dotted(self, dotted):
        # longest module prefix
        parts = dotted.split(".")
        for i in range(len(parts), 0, -1):
            mn = ".".join(parts[:i])
            if mn in self.modules:
                q = ".".join(parts[i:])
                m = self.modules[mn]
                if q in m.classes:
                    return m.classes[q]
                # re-export (from x import Y) in that module
                if q and q in m.imports:
                    return self._class_by_dotted(m.imports[q])
                return None
        return None

    def _func_by_dotted(self, dotted):
        parts = dotted.split(".")
        for i in range(len(parts), 0, -1):
            mn = ".".join(parts[:i])
            if mn in self.modules:
                q = ".".join(parts[i:])
                m = self.modules[mn]
                if q in m.functions:
                    return m.functions[q]
                if q and q in m.imports:
                    return self._func_by_dotted(m.imports[q])
                return None
        return None

    # ------------------------------------------------------------------
    def mod(self, short) -> Module:
        name = self.PKG if short in ("__init__", self.PKG) else f"{self.PKG}.{short}"
        if name not in self.modules:
            raise AnalysisError(f"anchor vanished: module {name}")
        return self.modules[name]

    def func(self, short, qualname) -> FuncInfo:
        m = self.mod(short)
        # private-name mangling tolerant lookup
        if qualname not in m.functions:
            raise AnalysisError(f"anchor vanished: function {short}:{qualname}")
        return m.functions[qualname]

    def cls(self, short, name) -> ClassInfo:
        m = self.mod(short)
        if name not in m.classes:
            raise AnalysisError(f"anchor vanished: class {short}:{name}")
        return m.classes[name]

    def all_functions(self):
        for m in self.modules.values():
            yield from m.functions.values()

    def all_classes(self):
        for m in self.modules.values():
            yield from m.classes.values()

    def subclasses(self, base: ClassInfo, strict=False):
        out = []
        for c in self.all_classes():
            if c.is_subclass_of(base) and (not strict or c is not base):
                out.append(c)
        return out

    # ------------------------------------------------------------------
    def data_path(self, rel):
        p = os.path.join(self.pkgdir, rel)
        if not os.path.exists(p):
            raise AnalysisError(f"anchor vanished: data file codebasin/{rel}")
        return p

    def read_data(self, rel) -> bytes:
        p = self.data_path(rel)
        with open(p, "rb") as f:
            raw = f.read()
        self.consulted[os.path.relpath(p, self.root)] = hashlib.sha256(raw).hexdigest()
        return raw

    def toml(self, rel):
        try:
            return tomllib.loads(self.read_data(rel).decode())
        except tomllib.TOMLDecodeError as e:
            raise AnalysisError(f"codebasin/{rel}: invalid TOML: {e}")

    def json(self, rel):
        try:
            return json.loads(self.read_data(rel).decode())
        except ValueError as e:
            raise AnalysisError(f"codebasin/{rel}: invalid JSON: {e}")


# ----------------------------------------------------------------------
# small AST helpers shared by the rules


def const(node, default=None):
    if isinstance(node, ast.Constant):
        return node.value
    return default


def literal(node):
    """ast.literal_eval that fails closed."""
    try:
        return ast.literal_eval(node)
    except Exception:
        raise AnalysisError(f"expected a literal, found: {u(node)}")


def dotted(node):
    """'a.b.c' for Name/Attribute chains, else None."""
    parts = []
    while isinstance(node, ast.Attribute):
        parts.append(node.attr)
        node = node.value
    if isinstance(node, ast.Name):
        parts.append(node.id)
        return ".".join(reversed(parts))
    return None


def callee(call: ast.Call):
    return dotted(call.func) or u(call.func)


def kwarg(call: ast.Call, name, pos=None):
    for k in call.keywords:
        if k.arg == name:
            return k.value
    if pos is not None and pos < len(call.args):
        return call.args[pos]
    return None


def names_in(node):
    return {n.id for n in ast.walk(node) if isinstance(n, ast.Name)}


def walk_no_nested(node):
    """ast.walk that does not enter nested function/class definitions."""
    stack = [node]
    first = True
    while stack:
        n = stack.pop()
        yield n
        for c in ast.iter_child_nodes(n):
            if isinstance(c, (ast.FunctionDef, ast.AsyncFunctionDef, ast.ClassDef)) and not (
                first and c is node
            ):
                continue
            stack.append(c)
        first = False


def strip_doc(body):
    if body and isinstance(body[0], ast.Expr) and isinstance(body[0].value, ast.Constant) and isinstance(
        body[0].value.value, str
    ):
        return body[1:]
    return body
