"""C15 - each physical file is parsed and counted once, however it is reached."""

from __future__ import annotations

import ast
import re

from ..decision import Evaluator, Hooks, vtext
from ..flow import provenance, stmt_of
from ..model import AnalysisError, callee, dotted, u, walk_no_nested
from ..run import rule

TABLES = ("trees", "maps", "langs")


@rule("C15.R1", "every access to the per-file tables of ParserState uses a realpath-canonical key")
def r1(ctx):
    repo = ctx.repo
    ps = repo.cls("finder", "ParserState")
    grp = ps.find_method("_get_realpath")
    ctx.require(grp is not None, "ParserState._get_realpath missing")
    # _get_realpath(path) == os.path.realpath(path) (memoised by the same path)
    p0 = grp.params[1]
    paths = Evaluator(Hooks()).paths(grp.node)
    ok = True
    why = ""
    for p in paths:
        rv = vtext(p.result[1]) if p.result[0] == "return" else None
        stores = [e for e in p.effects if e[0] == "store"]
        if stores:
            if not (len(stores) == 1 and stores[0][1] == f"self._path_cache[{p0}]" and vtext(stores[0][2]) == f"os.path.realpath({p0})"):
                ok, why = False, f"memo stores {stores}"
            if rv not in (f"os.path.realpath({p0})",):
                ok, why = False, f"returns {rv} after computing"
        else:
            if rv not in (f"self._path_cache[{p0}]", f"os.path.realpath({p0})"):
                ok, why = False, f"returns {rv}"
    ctx.check(ok, "finder:ParserState._get_realpath:is-realpath", f"_get_realpath(path) must be os.path.realpath(path), memoised under the same spelling: {why}", grp.loc())
    # accesses
    n = 0
    for f in repo.all_functions():
        for node in f.body_nodes():
            key_expr = None
            if isinstance(node, ast.Subscript) and isinstance(node.value, ast.Attribute) and node.value.attr in TABLES:
                key_expr = node.slice
                tab = node.value.attr
            elif isinstance(node, ast.Compare) and len(node.ops) == 1 and isinstance(node.ops[0], (ast.In, ast.NotIn)) and isinstance(node.comparators[0], ast.Attribute) and node.comparators[0].attr in TABLES:
                key_expr = node.left
                tab = node.comparators[0].attr
            if key_expr is None:
                continue
            n += 1
            st = stmt_of(f, node)
            k = f"{f.key}:{tab}[{u(key_expr)}]"
            if f.cls is ps:
                leaves = provenance(f, key_expr, st)
                bad = [u(l) for l, c in leaves if not any(x in ("self._get_realpath", "os.path.realpath") for x in c) and not isinstance(l, ast.Constant) and not any(x.endswith("<recv>") and x[:-6] in ("self._get_realpath", "os.path.realpath") for x in c)]
                ctx.check(not bad, k, f"key `{u(key_expr)}` derives from {bad} without passing through _get_realpath: two spellings of one file (symlink, `..`) get separate trees / association maps", f.loc(node))
            else:
                # outside ParserState: only kwargs['filename'] (bound to a canonical path by the visitor, C04.R5)
                ctx.check(u(key_expr) == "kwargs['filename']", k, f"`{u(node)}` indexes a ParserState table from outside with a key that is not the visitor-supplied canonical file name", f.loc(node))
    # the visitor passes filename=self._get_realpath(filename)
    from .c01 import find_visitor

    assoc, cb, _ = find_visitor(repo)
    evc = [c for c in cb.calls() if isinstance(c.func, ast.Attribute) and c.func.attr == "evaluate_for_platform"]
    kw = next((u(k.value) for k in evc[0].keywords if k.arg == "filename"), None) if evc else None
    # decided on the visitor's decision table (a local of the enclosing function that names the canonical path is that path)
    from ..spec import tab as _tab, vt as _vt

    want = (f"self._get_realpath({assoc.params[1]})", f"os.path.realpath({assoc.params[1]})")
    n_ev = 0
    for p in _tab(cb, unroll=1):
        for k_ in list(p.atoms) + [str(e[1]) for e in p.effects if e[0] == "call"]:
            t_ = _vt(k_)
            i_ = t_.find(".evaluate_for_platform(")
            if i_ < 0:
                continue
            m_ = re.search(r"filename=([^,()]*(\([^()]*\))?[^,()]*)", t_[i_:])
            n_ev += 1
            got = m_.group(1).strip() if m_ else None
            ctx.check(got in want, "finder:ParserState.associate:filename-canonical", f"nodes must be evaluated with filename=self._get_realpath(<file>): two spellings of one file would keep separate include / once state: got filename={got}", cb.loc())
            break
    if not n_ev:
        raise AnalysisError("associate: no call of evaluate_for_platform in the visitor's decision table")
    # who may write the canonical-name memo: only the memoising getter itself (and the constructor, which creates it
    # empty); an entry written from anywhere else is a "canonical" name that realpath never produced
    n_w = 0
    for g in repo.all_functions():
        for x in g.body_nodes(helpers=False):
            tgt = None
            if isinstance(x, ast.Subscript) and isinstance(x.ctx, (ast.Store, ast.Del)) and u(x.value).endswith("._path_cache"):
                tgt = x
            elif isinstance(x, ast.Call) and isinstance(x.func, ast.Attribute) and u(x.func.value).endswith("._path_cache") and x.func.attr in ("update", "setdefault", "pop", "clear", "popitem", "__setitem__"):
                tgt = x
            elif isinstance(x, (ast.Assign, ast.AugAssign)) and any(u(t).endswith("._path_cache") for t in (x.targets if isinstance(x, ast.Assign) else [x.target])) and not (g.name == "__init__" and g.cls is ps):
                tgt = x
            if tgt is None:
                continue
            n_w += 1
            ok_w = g.cls is ps and g.name == "_get_realpath"
            ctx.check(ok_w, f"{g.key}:writes:_path_cache:{u(tgt)[:50]}", f"`{u(tgt)[:70]}` writes the canonical-name memo from outside ParserState._get_realpath: the names it records were not produced by realpath (a symlink recorded as its own canonical name gets a tree of its own)", g.loc(tgt))
    if not n_w:
        raise AnalysisError("no write to ParserState._path_cache found at all (positive control: _get_realpath must fill it)")
    # FileParser opens the canonical path it was given
    ins = ps.find_method("insert_file")
    fp = [c for c in ins.calls() if (dotted(c.func) or "").endswith("FileParser")]
    ctx.soft(len(fp) == 1 and u(fp[0].args[0]) == ins.params[1], "finder:ParserState.insert_file:parses-canonical", "the file parsed must be the canonical path used as table key", ins.loc())
    ctx.floor(7 + 3)


@rule("C15.R2", "membership is decided on the resolved path (= C09.R1)")
def r2(ctx):
    from .c09 import r1 as c09r1

    c09r1(ctx)


@rule("C15.R3", "symlinks whose target is in the code base add nothing to any total (= C06.R5, C06.R6)")
def r3(ctx):
    from .c06 import r5 as c06r5, r6 as c06r6

    c06r6(ctx)
    c06r5(ctx)


@rule("C15.R4", "#pragma once identifies a header by its canonical path (= C04.R5)")
def r4(ctx):
    from .c04 import r5 as c04r5

    c04r5(ctx)
