"""Rules shared between properties: a mechanism whose failure falsifies several
property statements is decided once and registered under each of them (the
obligations are re-evaluated under the aliasing property's id)."""

from __future__ import annotations

from ..run import REGISTRY, Rule
from . import c01, c02, c03, c04, c05, c06, c08, c09, c10, c11, c13, c17

ALIASES = [
    # (new id, source rule function, why this property depends on it)
    ("C01.R9", c02.r2, "which branch is selected depends on how the controlling expression is parsed (= C02.R2)"),
    ("C01.R14", c02.r12, "an operator that a whole expression never reaches (`?:` below the starting precedence) silently changes which branch is selected (= C02.R12)"),
    ("C01.R10", c02.r7, "`defined X` / `defined(X)` in controlling expressions (= C02.R7)"),
    ("C02.R9", c01.r2, "an #elif after a taken branch is neither evaluated nor able to change the chain's state: the complete visitor table (= C01.R2)"),
    ("C02.R10", c01.r5, "the truth value used for #if/#elif is the evaluator's result (= C01.R5)"),
    ("C02.R11", c01.r6, "the controlling expression reaches the evaluator complete and macro-expanded (= C01.R6)"),
    ("C04.R8", c08.r3, "the include directories and forced includes of one pass / command are not shared with another (= C08.R3)"),
    ("C04.R9", c11.r4, "forced includes reach the resolver exactly as given on the command line (= C11.R4)"),
    ("C06.R7", c09.r1, "what is counted is decided by code-base membership of the resolved path (= C09.R1)"),
    ("C06.R8", c10.r3, "all front ends build the code base from the same exclude list (= C10.R3)"),
    ("C06.R9", c08.r1, "every compile command of a platform is analysed (no command is skipped or merged) (= C08.R1)"),
    ("C09.R4", c10.r3, "exclude patterns reach the CodeBase in the order given (gitignore semantics are order dependent) (= C10.R3)"),
    ("C12.R7", c13.r7, "the compiler is recognised by the base name of argv[0] (= C13.R7)"),
    ("C12.R8", c08.r1, "every pass of every command is analysed on its own fresh state (= C08.R1)"),
    ("C13.R8", c04.r2, "include resolution of one entry is not answered from another entry's directories (= C04.R2)"),
    ("C14.R2", c17.r3, "the language of a file does not depend on which of its names is seen first (= C17.R3)"),
    ("C14.R3", c08.r3, "platform order cannot leak through the compiler cache (= C08.R3)"),
    ("C14.R4", c04.r2, "platform order cannot leak through the include memo (= C04.R2)"),
    ("C16.R4", c10.r3, "excluded twins are excluded for the duplicates report too: one exclude list (= C10.R3)"),
    ("C16.R5", c09.r1, "candidates are the code-base members (= C09.R1)"),
    ("C16.R6", c09.r2, "candidates are enumerated through membership (= C09.R2)"),
    ("C17.R5", c04.r3, "every found include is inserted with the including file's language (= C04.R3)"),
    ("C18.R6", c08.r3, "per-occurrence warnings: the compiler table is not updated while parsing (= C08.R3)"),
    ("C18.R7", c04.r6, "the quote/angle form reported in a warning is the directive's form (= C04.R6)"),
    ("C09.R5", c13.r9, "membership and the reported names are relative to one canonical root per front end (= C13.R9)"),
    ("C10.R4", c13.r9, "compiled files are resolved and analysed against the code base's own root (= C13.R9)"),
    ("C15.R5", c13.r9, "the root itself is canonical, however it was spelled (= C13.R9)"),
    ("C05.R6", c17.r4_dups, "no extension is claimed by two languages (= part of C17.R4)"),
    ("C03.R11", c04.r4, "every -D string of a command is parsed like a #define and defined on the command's platform under the macro's own name (= C04.R4)"),
    ("C08.R6", c04.r4, "every database entry is analysed on one fresh Platform of its own, named after its platform (= C04.R4)"),
    ("C18.R8", c04.r4, "a forced include that cannot be found is reported once, naming the requested and the compiled file (= C04.R4)"),
    ("C11.R9", c04.r4, "the extracted -I / -D / -include lists reach the platform complete and in order (= C04.R4)"),
    ("C08.R7", c13.r7, "every compile command listed in the database reaches the analysis: entries are neither merged nor de-duplicated (= C13.R7)"),
    ("C04.R10", c13.r2, "the include directories of an entry reach the platform in command-line order, resolved against the entry's directory (= C13.R2)"),
    ("C11.R10", c13.r2, "the extracted lists of an entry are not reordered or modified after extraction (= C13.R2)"),
    ("C06.R10", c13.r2, "what is analysed does not depend on the logging level: the entry lists are not touched by the debug dump (= C13.R2)"),
    ("C13.R10", c09.r3, "which entries are skipped as 'not a source file' is decided on the last suffix, as FileLanguage does (= C09.R3)"),
    ("C18.R9", c09.r3, "no spurious 'unsupported command' warnings: the source-file predicate agrees with language detection (= C09.R3)"),
    ("C06.R11", c09.r3, "a file does not silently leave the counted code base because of a second dot in its name (= C09.R3)"),
    ("C01.R12", c05.r0, "a logical line is a directive iff the space-normalised buffer starts with '#' (= C05.R0)"),
    ("C01.R13", c04.r1, "macros become visible from the header the compiler would have found (= C04.R1)"),
    ("C02.R12", c03.r7, "-D definitions evaluate like the corresponding #define (= C03.R7)"),
    ("C17.R6", c02.r2, "preprocessor conditionals in Fortran files use the same expression grammar (= C02.R2)"),
    ("C17.R7", c04.r1, "includes in Fortran files resolve as in C files (= C04.R1)"),
    ("C17.R8", c05.r0, "the first (C) pass classifies directive lines through the same buffer (= C05.R0)"),
    ("C18.R10", c05.r0, "a directive that is not recognised as one cannot be reported (= C05.R0)"),
    ("C14.R5", c08.r5, "which platforms are loaded does not depend on their order in the analysis file (= C08.R5)"),
    ("C14.R6", c08.r4, "the order in which platforms are analysed cannot leak through the shared tokens / macros / tree nodes (= C08.R4)"),
    ("C05.R5", c17.r3, "a file is scanned with the line source of its (inherited) language (= C17.R3)"),
]

for rid, fn, why in ALIASES:
    REGISTRY.append(Rule(rid, rid.split(".")[0], why, fn))

from . import c12 as _c12  # noqa: E402

REGISTRY.append(Rule("C11.R7", "C11", "a legal user configuration is never dropped by the schema (= C12.R9)", _c12.r9))
REGISTRY.append(Rule("C11.R8", "C11", "built-in compiler definitions: list destinations are only appended to (= C12.R3)", _c12.r3))
REGISTRY.append(Rule("C11.R11", "C11", "values collected by a compiler's custom options are appended after what is already there, in command-line order (= C12.R13)", _c12.r13))
REGISTRY.append(Rule("C18.R11", "C18", "every selected pass is analysed (and so reports its own warnings): repeated architecture flags extend the pass list (= C12.R13)", _c12.r13))
REGISTRY.append(Rule("C04.R11", "C04", "include directories given through a compiler's custom options are searched after the earlier ones (= C12.R13)", _c12.r13))
