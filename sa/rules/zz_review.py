"""Rule RX of every property: the functions behind the property skip work only
under reviewed conditions, drop no elements through new comprehension filters,
and use no new module-level mutable state (see sa/review.py)."""

from __future__ import annotations

from ..model import AnalysisError
from ..review import new_module_state, new_skip_conditions, refinement_findings
from ..run import REGISTRY, Rule

ALL = "*"

# property -> [(module, qualname | ALL | prefix*)]
SETS = {
    "C01": [("finder", "ParserState.*"), ("finder", "find"), ("preprocessor", "Node.*"), ("preprocessor", "*Node.*"), ("preprocessor", "SourceTree.*"),
            ("preprocessor", "DirectiveParser.*"), ("preprocessor", "Parser.*"), ("preprocessor", "make_macro"), ("preprocessor", "macro_from_definition_string"),
            ("platform", "Platform.define"), ("platform", "Platform.undefine"), ("platform", "Platform.is_defined"), ("platform", "Platform.get_macro"),
            ("file_parser", ALL), ("preprocessor", "MacroExpander.expand"), ("preprocessor", "MacroExpander.defined"), ("file_source", "c_file_source")],
    "C02": [("preprocessor", "ExpressionEvaluator.*"), ("preprocessor", "Lexer.*"), ("preprocessor", "Parser.*"), ("preprocessor", "IfNode.*"), ("preprocessor", "ElIfNode.*"),
            ("preprocessor", "MacroExpander.defined"), ("preprocessor", "MacroExpander.expand"), ("finder", "ParserState.associate*")],
    "C03": [("preprocessor", "Macro.*"), ("preprocessor", "MacroFunction.*"), ("preprocessor", "MacroExpander.*"), ("preprocessor", "ExpanderHelper.*"),
            ("preprocessor", "make_macro"), ("preprocessor", "macro_from_definition_string"), ("preprocessor", "DirectiveParser.macro_definition"),
            ("preprocessor", "DirectiveParser.define"), ("preprocessor", "DirectiveParser.__arg*"), ("preprocessor", "DefineNode.*"), ("preprocessor", "Lexer.stringify"),
            ("preprocessor", "StringConstant.*")],
    "C04": [("platform", ALL), ("preprocessor", "IncludeNode.*"), ("preprocessor", "PragmaNode.*"), ("preprocessor", "IncludePath.*"), ("preprocessor", "DirectiveParser.include*"),
            ("preprocessor", "DirectiveParser.__path"), ("finder", "find"), ("finder", "ParserState.*"), ("util", "valid_path")],
    "C05": [("file_source", "c_*"), ("file_source", "one_space_line.*"), ("file_source", "iter_keep1.*"), ("file_source", "line_info.*"), ("file_source", "get_file_source"),
            ("file_source", "asm_*"), ("file_parser", ALL)],
    "C06": [("finder", "ParserState.get_setmap"), ("finder", "ParserState.get_tree"), ("finder", "ParserState.get_map"), ("finder", "find"), ("report", "files"),
            ("report", "FileTree.*"), ("report", "summary"), ("report", "extract_platforms"), ("coverage.__main__", "_compute"), ("tree", "_tree"), ("__main__", "_main")],
    "C07": [("report", "coverage"), ("report", "average_coverage"), ("report", "distance"), ("report", "divergence"), ("report", "extract_platforms"), ("report", "clustering"),
            ("report", "summary"), ("util", "safe_open_write_binary"), ("util", "ensure_ext")],  # clustering() writes its plot through these before it prints the matrix
    "C08": [("finder", ALL), ("platform", ALL), ("config", "ArgumentParser.*"), ("config", "load_database"), ("config", "_*Action.*"), ("__main__", "_main"), ("tree", "_tree"),
            ("preprocessor", "*Node.evaluate_for_platform")],
    "C09": [("__init__", "CodeBase.*"), ("source", ALL)],
    "C10": [("finder", ALL), ("preprocessor", "IncludeNode.*"), ("platform", "Platform.process_include"), ("platform", "Platform.find_include_file"), ("config", "load_database"),
            ("__main__", "_main"), ("tree", "_tree"), ("coverage.__main__", "_compute"), ("report", "files"), ("__init__", "CodeBase.*")],
    "C11": [("config", "ArgumentParser.parse_args"), ("config", "_*Action.*"), ("config", "PreprocessorConfiguration.*"), ("config", "load_database"),
            ("__init__", "CompileCommand.*"), ("__init__", "CompilationDatabase.*")],
    "C12": [("config", ALL), ("finder", "find")],
    "C13": [("config", "load_database"), ("__init__", "CompileCommand.*"), ("__init__", "CompilationDatabase.*"), ("util", "_validate_json"), ("util", "_load_json"),
            ("source", ALL), ("finder", "find")],
    "C14": [("report", ALL), ("__init__", "CodeBase.__iter__"), ("finder", "find"), ("finder", "ParserState.get_setmap"), ("finder", "ParserState.insert_file"),
            ("coverage.__main__", "_compute"), ("platform", "Platform.find_include_file"), ("config", "ArgumentParser.parse_args")],
    "C15": [("finder", "ParserState.*"), ("__init__", "CodeBase.*"), ("report", "FileTree.insert"), ("report", "find_duplicates"), ("report", "files"), ("coverage.__main__", "_compute")],
    "C16": [("report", "find_duplicates"), ("report", "duplicates"), ("__init__", "CodeBase.*")],
    "C17": [("file_source", ALL), ("language", ALL), ("finder", "ParserState.insert_file"), ("preprocessor", "IncludeNode.*"), ("file_parser", ALL)],
    "C18": [("preprocessor", "IncludeNode.*"), ("file_parser", "FileParser.insert_directive_node"), ("config", "load_database"), ("config", "ArgumentParser.*"),
            ("_detail.logging", ALL), ("__main__", "_main"), ("coverage.__main__", "cli"), ("finder", "find"), ("platform", "Platform.find_include_file")],
}

# Semantic dependence between the properties (a property whose statement is phrased in terms of what a conforming
# preprocessor / compiler does is falsified by a defect in any mechanism upstream of it):
#   C02 (#if value)            <- macro expansion (C03)
#   C01 (branch selection)     <- #if value (C02), macro expansion (C03), what an #include makes visible (C04), which
#                                 physical lines form a directive (C05)
#   C17 (Fortran: "select lines exactly as they do in C files")  <- C01 and everything C01 depends on
#   C13 ("include directories ... as a compiler would")          <- the resolver (C04: platform)
_BASE = {k: list(v) for k, v in SETS.items()}
SETS["C02"] = _BASE["C02"] + _BASE["C03"]
SETS["C01"] = _BASE["C01"] + _BASE["C02"] + _BASE["C03"] + [x for x in _BASE["C04"] if x[0] in ("platform", "preprocessor")] + [("file_source", "c_*"), ("file_source", "one_space_line.*"), ("file_source", "line_info.*")]
SETS["C01"] = SETS["C01"] + [("language", ALL)]
SETS["C05"] = _BASE["C05"] + [("language", ALL)]
SETS["C18"] = _BASE["C18"] + [("language", ALL), ("source", ALL)]
SETS["C17"] = _BASE["C17"] + SETS["C01"]
SETS["C13"] = _BASE["C13"] + [("platform", "Platform.find_include_file"), ("platform", "Platform.add_include_path"), ("preprocessor", "IncludeNode.*")]
for _k in SETS:
    SETS[_k] = list(dict.fromkeys(SETS[_k]))


def _expand(repo, spec):
    out = []
    for short, pat in spec:
        try:
            m = repo.mod(short)
        except AnalysisError:
            continue
        for q in m.functions:
            if _match(q, pat):
                out.append((short, q))
    return sorted(set(out))


def _match(q, pat):
    import fnmatch

    if pat == ALL:
        return True
    return fnmatch.fnmatchcase(q, pat) or fnmatch.fnmatchcase(q, pat + ".*")


def _make(prop):
    def rx(ctx):
        repo = ctx.repo
        funcs = _expand(repo, SETS[prop])
        n = 0
        for short, q in funcs:
            res = new_skip_conditions(repo, short, q)
            if res is None:
                continue
            res = list(res) + refinement_findings(repo, short, q)
            n += 1
            f = repo.func(short, q)
            if not res:
                ctx.ok(f"{f.key}:reviewed-conditions")
                continue
            for kind, text, node, why in res:
                ctx.violation(f"{f.key}:new-{kind}:{text[:90]}", why, f.loc(node) if node is not None else f.loc())
        ctx.stats["functions_reviewed"] = n
        mods = sorted({s for s, _ in SETS[prop]})
        for short, g, f, node in new_module_state(repo, mods):
            ctx.violation(f"{short}:module-state:{g}", f"`{g}` is module-level mutable state that {f.key} changes at run time: what one call (command, platform, table, run) records is visible to every later one", f.loc(node))
        ctx.ok(f"module-state:{','.join(mods)}")
        from ..review import removed_table_entries

        for short, name, what, line in removed_table_entries(repo, mods):
            ctx.violation(f"{short}:{name}:table-entry-removed:{what[:80]}", f"the constant table `{name}` no longer has the reviewed entry `{what}` (moved, renamed or dropped): every input that relied on it is now classified / handled differently", f"codebasin/{short.replace('.', '/')}.py:{line}")
        ctx.ok(f"constant-tables:{','.join(mods)}")
        ctx.floor(max(3, len(funcs) // 2))

    rx.__name__ = f"rx_{prop}"
    return rx


for _p in sorted(SETS):
    REGISTRY.append(Rule(f"{_p}.RX", _p, "the functions behind the property skip work only under reviewed conditions; no new element filters; no new module-level mutable state", _make(_p)))
