"""C07 - coverage, average coverage, distance and divergence equal their definitions.

Decided: guard-before-divide, the accumulate-if predicates (by truth table), symmetry,
which collection a mean divides by, the layout of the distance matrix.  The numbers
themselves are not computed."""

from __future__ import annotations

import ast
import re
import itertools

from ..cfg import cfg_of
from ..decision import NOTHING, Evaluator, Hooks, Sym, vtext
from ..flow import provenance, stmt_of
from ..model import AnalysisError, callee, dotted, u, walk_no_nested
from ..run import rule

METRICS = ["coverage", "average_coverage", "distance", "divergence", "summary"]


def _is_nan_return(stmts):
    return any(isinstance(s, ast.Return) and u(s.value) in ("float('nan')", "math.nan", "float('NaN')", "np.nan") for s in stmts)


def _zero_guard(f, div: ast.BinOp):
    """Is `div` (a true division) dominated by a test that its denominator is
    non-zero, whose failing branch yields NaN?"""
    den = div.right
    den_names = {u(den)}
    if isinstance(den, ast.Call) and u(den.func) == "float" and den.args:
        den_names.add(u(den.args[0]))
    cfg = cfg_of(f)
    st = stmt_of(f, div)
    nid = cfg.node_of(st)
    for test, pol in cfg.path_conditions(nid):
        t = u(test)
        for d in den_names:
            # denominators are non-negative counts / lengths
            zero_forms = {f"{d} == 0", f"0 == {d}", f"not {d}", f"{d} <= 0", f"{d} < 1"}
            nonzero_forms = {f"{d} != 0", f"{d} > 0", d, f"{d} >= 1"}
            if (t in zero_forms and pol is False) or (t in nonzero_forms and pol is True):
                return True, test
    # conditional expression:  x / d if d else nan
    for n in walk_no_nested(f.node):
        if isinstance(n, ast.IfExp) and any(x is div for x in ast.walk(n.body)):
            t = u(n.test)
            for d in den_names:
                if t in (d, f"{d} != 0", f"{d} > 0"):
                    return True, n.test
    return False, None


def _div_operands(text):
    """(numerator, denominator) texts of every `(A Div B)` / FloorDiv / Mod in a value text"""
    out = []
    for op in (" Div ", " FloorDiv ", " Mod "):
        start = 0
        while True:
            i = text.find(op, start)
            if i < 0:
                break
            # left operand: back to the matching "("
            depth, j = 0, i - 1
            while j >= 0:
                if text[j] == ")":
                    depth += 1
                elif text[j] == "(":
                    if depth == 0:
                        break
                    depth -= 1
                j -= 1
            depth, k = 0, i + len(op)
            while k < len(text):
                if text[k] == "(":
                    depth += 1
                elif text[k] == ")":
                    if depth == 0:
                        break
                    depth -= 1
                k += 1
            out.append((text[j + 1 : i], text[i + len(op) : k]))
            start = i + len(op)
    return out


def _nonzero_on_path(den, atoms):
    """is `den != 0` established by the atoms of the path?  (den is the denominator's value text)"""
    d = den.strip()
    forms = [d]
    m = re.fullmatch(r"float\((.*)\)", d)
    if m:
        forms.append(m.group(1))
    for x in list(forms):
        m = re.fullmatch(r"len\((.*)\)", x)
        if m:
            forms.append("NONEMPTY:" + m.group(1))
    for x in forms:
        if x.startswith("NONEMPTY:"):
            if atoms.get(x[9:]) is True:
                return True
            continue
        if atoms.get(x) is True:
            return True
        for z in ("0", "0.0"):
            for k in (f"{z} Eq {x}", f"{x} Eq {z}"):
                if atoms.get(k) is False:
                    return True
            for k in (f"{x} Gt {z}", f"{z} Lt {x}"):
                if atoms.get(k) is True:
                    return True
    return False


@rule("C07.R1", "every division in the metrics is guarded by a zero test of its denominator that yields NaN")
def r1(ctx):
    """Decided on the decision tables: on every path whose result contains a division, the atoms of the path establish
    that the denominator is non-zero; and the paths on which it is zero return float('nan')."""
    from ..spec import tab, vt

    repo = ctx.repo
    n = 0
    for name in METRICS:
        f = repo.func("report", name)
        dens = set()
        nan_paths = 0
        for p in tab(f):
            res = vt(p.result[1]) if p.result[0] == "return" and p.result[1] is not None else ""
            at = {vt(k): v for k, v in p.atoms.items()}
            if res == "float('nan')":
                nan_paths += 1
            texts = [res] + [vt(x[1]) if isinstance(x, tuple) and len(x) == 2 and isinstance(x[0], str) else vt(x) for e in p.effects if e[0] in ("call", "store", "aug", "yield") for x in e[1:] if not isinstance(x, str) or " Div " in x]
            for num, den in [nd for t in texts for nd in _div_operands(t)]:
                n += 1
                dens.add(den)
                key = f"report:{name}:division:{den[:50]}"
                ctx.check(_nonzero_on_path(den, at), key, f"`{num[:40]} / {den[:60]}` is returned on a path that does not establish `{den[:60]}` != 0: ZeroDivisionError when the table has no lines / platforms (must be NaN)", f.loc())
        if dens and name != "summary":
            ctx.check(nan_paths >= 1, f"report:{name}:nan-when-undefined", "a metric with a division must return NaN where it is undefined", f.loc())
    ctx.floor(3)


# ----------------------------------------------------------------------
class AccHooks(Hooks):
    """One iteration of an accumulate-if loop over setmap.items() with
    membership atoms decided concretely."""

    def __init__(self, member, names):
        self.member = member  # dict: atom text -> bool
        self.names = names

    def resolve(self, expr, st):
        if isinstance(expr, ast.Compare) and len(expr.ops) == 1 and isinstance(expr.ops[0], (ast.In, ast.NotIn)):
            k = f"{u(expr.left)} in {u(expr.comparators[0])}"
            if k in self.member:
                v = self.member[k]
                return v if isinstance(expr.ops[0], ast.In) else not v
        if isinstance(expr, ast.BinOp) and isinstance(expr.op, (ast.BitXor, ast.BitOr, ast.BitAnd)):
            return NOTHING
        return NOTHING


def _bool_binop_eval(ev, expr, st):
    return NOTHING


@rule("C07.R2", "accumulate-if predicates equal the definitions (distance: XOR over OR; coverage: used-by-a-selected-platform over all)")
def r2(ctx):
    repo = ctx.repo
    # ---- distance
    f = repo.func("report", "distance")
    sm, p1, p2 = f.params
    loops = [n for n in f.node.body if isinstance(n, ast.For) and u(n.iter) == f"{sm}.items()"]
    ctx.require(len(loops) >= 1, "distance: loop over setmap.items() not found")
    tgt = loops[0].target
    ctx.require(isinstance(tgt, ast.Tuple) and len(tgt.elts) == 2, "distance: loop target is not (pset, count)")
    ps, cnt = [u(e) for e in tgt.elts]
    num = den = None
    rets = [n.value for n in walk_no_nested(f.node) if isinstance(n, ast.Return) and "nan" not in u(n.value)]
    if len(rets) == 1 and isinstance(rets[0], ast.BinOp) and isinstance(rets[0].op, ast.Div):
        num = u(rets[0].left)
        den = u(rets[0].right.args[0]) if isinstance(rets[0].right, ast.Call) and u(rets[0].right.func) == "float" else u(rets[0].right)
    ctx.soft(num is not None, "report:distance:returns-ratio", f"distance must return <differing lines> / <lines used by either platform>: {[u(r) for r in rets]}", f.loc())
    table = {}
    for a, b in itertools.product((False, True), repeat=2):
        member = {f"{p1} in {ps}": a, f"{p2} in {ps}": b}
        incs = {}
        for lp in loops:
            for p in _run_iteration(lp, member):
                for e in p.effects:
                    if e[0] == "aug" and e[2] == "Add":
                        incs[e[1]] = incs.get(e[1], [])
                        incs[e[1]].append(vtext(e[3]))
                extra = [k for k in p.atoms]
                if extra:
                    ctx.violation(f"report:distance:row:p1={int(a)},p2={int(b)}", f"accumulation depends on {extra}", f.loc(lp))
        table[(a, b)] = incs
        if num is None:
            continue
        key = f"report:distance:row:p1_in={int(a)},p2_in={int(b)}"
        got_num = incs.get(num, [])
        got_den = incs.get(den, [])
        want_num = [cnt] if (a != b) else []
        want_den = [cnt] if (a or b) else []
        ctx.check(got_num == want_num and got_den == want_den, key, f"a row used by p1={a}, p2={b} adds {got_num} to the numerator and {got_den} to the denominator; Jaccard distance requires {want_num} (symmetric difference) and {want_den} (union)", f.loc())
    # R3 symmetry
    sym = all(table[(a, b)] == table[(b, a)] for a, b in itertools.product((False, True), repeat=2))
    ctx.check(sym, "report:distance:symmetric", "distance(p1, p2) and distance(p2, p1) accumulate different rows", f.loc())
    # ---- coverage
    g = repo.func("report", "coverage")
    smc, plc = g.params
    loops = [n for n in g.node.body if isinstance(n, ast.For) and u(n.iter) == f"{smc}.items()"]
    ctx.require(len(loops) == 1, "coverage: loop over setmap.items() not found")
    lp = loops[0]
    sub, sloc = [u(e) for e in lp.target.elts]
    rets = [n.value for n in walk_no_nested(g.node) if isinstance(n, ast.Return) and "nan" not in u(n.value)]
    ok = len(rets) == 1 and u(rets[0]) in ("used / total * 100.0", "used / total * 100", "100.0 * used / total", "100 * used / total", "100.0 * (used / total)")
    ctx.soft(ok, "report:coverage:returns-percentage", f"coverage must return used / total * 100: {[u(r) for r in rets]}", g.loc())

    class CH(Hooks):
        def __init__(self, empty, anyp):
            self.empty, self.anyp = empty, anyp

        def resolve(self, expr, st):
            t = u(expr)
            if t in (f"{sub} == frozenset()", f"{sub} == frozenset([])", f"not {sub}", f"len({sub}) == 0"):
                return self.empty
            if t in (f"{sub} != frozenset()", f"len({sub}) > 0"):
                return not self.empty
            if t == sub:
                return Sym("NONEMPTY") if False else NOTHING
            return NOTHING

        def on_call(self, call, ftext, args, kwargs, st):
            if ftext == "any" and len(call.args) == 1:
                a = call.args[0]
                if isinstance(a, (ast.ListComp, ast.GeneratorExp)) and len(a.generators) == 1 and not a.generators[0].ifs:
                    g_ = a.generators[0]
                    if u(g_.iter) == sub and u(a.elt) == f"{u(g_.target)} in {plc}":
                        return False if self.empty else self.anyp
            if ftext.endswith(".isdisjoint") and len(args) == 1:
                return True if self.empty else (not self.anyp)
            return NOTHING

    for empty, anyp in ((True, False), (False, False), (False, True)):
        wrapper = ast.parse("def _f():\n    for _i in [0]:\n        pass").body[0]
        wrapper.body[0].body = lp.body
        paths = Evaluator(CH(empty, anyp)).paths(wrapper)
        key = f"report:coverage:row:empty={int(empty)},used_by_selected={int(anyp)}"
        if len(paths) != 1:
            ctx.violation(key, f"accumulation depends on {[list(p.atoms) for p in paths]} beyond (row is the empty set, some platform of the row is selected)", g.loc(lp))
            continue
        incs = {e[1]: vtext(e[3]) for e in paths[0].effects if e[0] == "aug" and e[2] == "Add"}
        want = {"total": sloc}
        if anyp:
            want["used"] = sloc
        ctx.check(incs == want, key, f"adds {incs}; coverage requires every row in the total and exactly the rows used by at least one selected platform in `used` ({want})", g.loc(lp))
    # every row of the table is visited: no break / return inside the accumulation loops
    for fn_ in (f, g):
        for lp_ in [n for n in fn_.node.body if isinstance(n, ast.For)]:
            bad = [x for x in ast.walk(lp_) if isinstance(x, (ast.Break, ast.Return))]
            ctx.check(not bad, f"report:{fn_.name}:loop-visits-every-row", f"the accumulation loop `for {u(lp_.target)} in {u(lp_.iter)}` can stop early ({u(bad[0]) if bad else ''}): rows after that point are left out of the sums, so the metric depends on the order of the table", fn_.loc(lp_))
    # default platform set = all platforms of the table
    dflt = [s for s in g.node.body if isinstance(s, ast.If) and u(s.test) == f"not {plc}"]
    ok = len(dflt) == 1 and u(dflt[0].body[0]) == f"{plc} = set().union(*{smc}.keys())"
    ctx.soft(ok, "report:coverage:default-platforms", "without `platforms`, all platforms of the table must be selected", g.loc())
    ctx.floor(4 + 1 + 3 + 2)


def _run_iteration(loop, member):
    wrapper = ast.parse("def _f():\n    for _i in [0]:\n        pass").body[0]
    wrapper.body[0].body = loop.body

    class H(AccHooks):
        def resolve(self, expr, st):
            r = AccHooks.resolve(self, expr, st)
            if r is not NOTHING:
                return r
            if isinstance(expr, ast.BinOp) and isinstance(expr.op, (ast.BitXor, ast.BitOr, ast.BitAnd)):
                l = self.resolve(expr.left, st)
                r_ = self.resolve(expr.right, st)
                if isinstance(l, bool) and isinstance(r_, bool):
                    return {ast.BitXor: l ^ r_, ast.BitOr: l | r_, ast.BitAnd: l & r_}[type(expr.op)]
            if isinstance(expr, ast.BoolOp):
                vals = [self.resolve(v, st) for v in expr.values]
                if all(isinstance(v, bool) for v in vals):
                    return all(vals) if isinstance(expr.op, ast.And) else any(vals)
            if isinstance(expr, ast.UnaryOp) and isinstance(expr.op, ast.Not):
                v = self.resolve(expr.operand, st)
                if isinstance(v, bool):
                    return not v
            if isinstance(expr, ast.Compare) and len(expr.ops) == 1 and isinstance(expr.ops[0], (ast.NotEq, ast.Eq)):
                l = self.resolve(expr.left, st)
                r_ = self.resolve(expr.comparators[0], st)
                if isinstance(l, bool) and isinstance(r_, bool):
                    return (l != r_) if isinstance(expr.ops[0], ast.NotEq) else (l == r_)
            return NOTHING

    return Evaluator(H(member, None)).paths(wrapper)


@rule("C07.R4", "means divide by the size of the collection they sum over; divergence averages over all unordered platform pairs")
def r4(ctx):
    repo = ctx.repo
    # ---- average_coverage
    f = repo.func("report", "average_coverage")
    sm, pl = f.params
    key = "report:average_coverage:mean"
    # decision table: P = platforms, or every platform of the table when none are given;
    #   no platforms -> NaN; otherwise sum(coverage(setmap, [p]) for p in P) / len(P)
    from ..spec import call_args, n_iter, split_top, tab, vt
    import re

    n_mean = 0
    for p in tab(f):
        at = {vt(k): v for k, v in p.atoms.items()}
        given = at.get(pl)
        res = vt(p.result[1]) if p.result[0] == "return" else ""
        if given is None:
            raise AnalysisError(f"average_coverage: the test whether platforms were given is not recognised: {p.describe()[:160]}")
        P = pl if given else f"set().union(*{sm}.keys())"
        if not given:
            nonempty = at.get(P)
            ctx.check(nonempty is not None, "report:average_coverage:default-platforms", f"without `platforms`, all platforms of the table (`{P}`) must be averaged: {p.describe()[:200]}", f.loc())
            if nonempty is None:
                continue
            if not nonempty:
                ctx.check(res == "float('nan')", key + ":nan", f"no platforms: the average is undefined (NaN), got {res}", f.loc())
                continue
        m = re.fullmatch(r"\((.+) Div len\((.+)\)\)", res)
        if not m:
            ctx.violation(key, f"average coverage must be sum(coverage of each platform) / len(platforms): returns `{res[:160]}`", f.loc())
            continue
        n_mean += 1
        ctx.check(m.group(2) == P, key + ":over-platforms", f"the sum must be divided by the size of the collection it runs over (`{P}`), not `{m.group(2)}`", f.loc())
        summed = None
        for fn in ("math.fsum", "sum"):
            ca = call_args(m.group(1), fn)
            if ca and len(ca[0]) == 1:
                summed = ca[0][0]
        if summed is None:
            raise AnalysisError(f"average_coverage: summation not recognised: {m.group(1)[:120]}")
        cm = re.fullmatch(r"(?:comp:)?[\[(]coverage\((.+), (.+)\) for (\w+) in (.+)[\])]", summed)
        if cm:
            terms = [(cm.group(1), cm.group(2).replace(cm.group(3), "@"))]
            over = cm.group(4)
        elif summed.startswith("[") and summed.endswith("]"):
            items = split_top(summed[1:-1])
            terms, over = [], P
            for i, it_ in enumerate(items):
                ca = call_args(it_, "coverage")
                if not ca or len(ca[0]) != 2:
                    raise AnalysisError(f"average_coverage: term not recognised: {it_[:80]}")
                terms.append((ca[0][0], ca[0][1].replace(f"{P}[{i}]", "@")))
            if len(items) != n_iter(p, P):
                ctx.violation(key + ":over-platforms", f"{len(items)} terms are summed for {n_iter(p, P)} platforms visited", f.loc())
        else:
            raise AnalysisError(f"average_coverage: summed collection not recognised: {summed[:120]}")
        ctx.check(over == P, key + ":over-platforms", f"must sum over exactly the collection whose length divides the sum (`{P}`): iterates `{over}`", f.loc())
        for a0, a1 in terms:
            ok = a0 == sm and a1 in ("[@]", "{@}", "(@,)", "set([@])", "frozenset([@])", "set:{@}")
            ctx.check(ok, key + ":single-platform-coverage", f"each term must be the coverage of ONE platform, passed as a one-element collection (`coverage({sm}, [p])`): `coverage({a0}, {a1.replace('@', 'p')})` - a bare string turns the membership test `p in platforms` into a substring test", f.loc())
    if not n_mean:
        raise AnalysisError("average_coverage: no path returns a mean")
    # ---- divergence
    d = repo.func("report", "divergence")
    smd = d.params[0]
    key = "report:divergence"
    # the platform list comes from the UNFILTERED table
    ep = [c for c in d.calls() if callee(c) == "extract_platforms"]
    ok = len(ep) == 1
    if ok:
        leaves = provenance(d, ep[0].args[0], stmt_of(d, ep[0]))
        ok = all(u(l) == smd and c == ["<param>"] for l, c in leaves)
    ctx.check(ok, key + ":platforms-of-whole-table", f"platform pairs must be drawn from all platforms of the table passed in (`extract_platforms({smd})` on the unmodified parameter): a platform that only occurs in zero-count rows still is a platform", d.loc())
    rebound = [s for s in walk_no_nested(d.node) if isinstance(s, ast.Assign) and u(s.targets[0]) == smd]
    ctx.check(not rebound, key + ":table-not-rebound", f"`{smd}` is replaced inside divergence: {[u(s)[:60] for s in rebound]}", d.loc())
    pairs = [c for c in d.calls() if u(c.func) in ("it.combinations", "itertools.combinations", "it.permutations", "itertools.permutations", "combinations", "permutations")]
    ok = len(pairs) == 1 and len(pairs[0].args) == 2 and u(pairs[0].args[1]) == "2"
    if ok:
        leaves = provenance(d, pairs[0].args[0], stmt_of(d, pairs[0]))
        ok = any(u(l).startswith("extract_platforms(") or u(l) == smd for l, c in leaves)
    ctx.soft(ok, key + ":all-pairs", "distances must be taken over all 2-element combinations (or permutations) of the platform list", d.loc())
    # each pair contributes distance(setmap, p1, p2) once and is counted once
    dc = [c for c in d.calls() if callee(c) == "distance"]
    ok = len(dc) == 1 and u(dc[0].args[0]) == smd
    ctx.soft(ok, key + ":distance-of-pair", "each pair must contribute distance(setmap, p1, p2)", d.loc())
    rets = [n.value for n in walk_no_nested(d.node) if isinstance(n, ast.Return) and "nan" not in u(n.value)]
    ok = len(rets) == 1 and isinstance(rets[0], ast.BinOp) and isinstance(rets[0].op, ast.Div)
    if ok:
        den = rets[0].right
        den = den.args[0] if isinstance(den, ast.Call) and u(den.func) == "float" else den
        num = rets[0].left
        # denominator = number of accumulated distances
        dl = provenance(d, den, stmt_of(d, rets[0]))
        nl = provenance(d, num, stmt_of(d, rets[0]))
        nchains = sum((c for _, c in nl), [])
        dchains = sum((c for _, c in dl), [])
        sums = any(c in ("math.fsum", "sum", "<aug>") for c in nchains)
        ok = "distance" in nchains and sums and ("len" in dchains and "distance" in dchains or "<aug>" in dchains)
    ctx.soft(ok, key + ":mean", f"divergence must be (sum of pair distances) / (number of pairs): {[u(r) for r in rets]}", d.loc())
    # extract_platforms: union of all keys
    e = repo.func("report", "extract_platforms")
    rets = [u(n.value) for n in walk_no_nested(e.node) if isinstance(n, ast.Return)]
    env = {u(s.targets[0]): u(s.value) for s in e.node.body if isinstance(s, ast.Assign)}
    ok = len(rets) == 1 and rets[0] in ("list(unique_platforms)", "sorted(unique_platforms)") and env.get("unique_platforms") == f"set(it.chain.from_iterable({e.params[0]}.keys()))"
    ctx.soft(ok, "report:extract_platforms:union-of-keys", f"must return the union of all platform sets: {rets} {env}", e.loc())
    ctx.floor(9)


@rule("C07.R5", "clustering: matrix[i][j] = distance(setmap, platforms[i], platforms[j]) over one sorted platform list used for rows, columns and labels")
def r5(ctx):
    repo = ctx.repo
    f = repo.func("report", "clustering")
    sm = f.params[1]
    env = {}
    for s in walk_no_nested(f.node):
        if isinstance(s, ast.Assign) and isinstance(s.targets[0], ast.Name):
            env[s.targets[0].id] = s.value
    pl = env.get("platforms")
    ctx.soft(pl is not None and u(pl) == f"sorted(extract_platforms({sm}))", "report:clustering:platforms-sorted", f"platform list must be sorted(extract_platforms({sm})): {u(pl) if pl is not None else None}", f.loc())
    m = env.get("matrix")
    key = "report:clustering:matrix-layout"
    if m is None:
        ctx.violation(key, "`matrix` not found", f.loc())
    elif isinstance(m, ast.ListComp) and isinstance(m.elt, ast.ListComp):
        outer, inner = m.generators[0], m.elt.generators[0]
        el = m.elt.elt
        ok = (
            len(m.generators) == 1 and len(m.elt.generators) == 1 and u(outer.iter) == "platforms" and u(inner.iter) == "platforms"
            and not outer.ifs and not inner.ifs and isinstance(el, ast.Call) and u(el.func) == "distance"
            and [u(a) for a in el.args] in ([sm, u(outer.target), u(inner.target)], [sm, u(inner.target), u(outer.target)])
        )
        ctx.check(ok, key, f"matrix must be [[distance({sm}, p1, p2) for p2 in platforms] for p1 in platforms]: {u(m)[:120]}", f.loc(m))
    elif isinstance(m, ast.Call) and u(m.func).endswith("squareform"):
        # condensed form: scipy expects row-major upper triangle: for i in range(n) for j in range(i+1, n)
        c = m.args[0]
        c = env.get(c.id, c) if isinstance(c, ast.Name) else c
        ok = False
        why = u(c)[:120]
        if isinstance(c, ast.ListComp) and len(c.generators) == 2:
            g1, g2 = c.generators
            a, b = u(g1.target), u(g2.target)
            el = c.elt
            args = [u(x) for x in el.args] if isinstance(el, ast.Call) and u(el.func) == "distance" else []
            row_major = u(g1.iter) == "range(len(platforms))" and u(g2.iter) in (f"range({a} + 1, len(platforms))",)
            pair = args[1:] in ([f"platforms[{a}]", f"platforms[{b}]"], [f"platforms[{b}]", f"platforms[{a}]"])
            ok = row_major and pair and args[:1] == [sm]
            if not row_major:
                why = f"condensed distances are generated by `for {a} in {u(g1.iter)} for {b} in {u(g2.iter)}`; squareform() expects the row-major upper triangle (for i in range(n) for j in range(i+1, n)): cells of the printed matrix are permuted for 4 or more platforms"
        ctx.check(ok, key, why, f.loc(m))
    else:
        raise AnalysisError(f"clustering: matrix construction not understood: {u(m)[:100]}")
    # labels
    lm = env.get("labelled_matrix")
    ok = lm is not None and "enumerate(platforms)" in u(lm) and "matrix[row]" in u(lm)
    ctx.soft(ok, "report:clustering:row-labels", "row i of the printed table must be labelled platforms[i] and show matrix[i]", f.loc())
    tab = [c for c in f.calls() if callee(c) == "tabulate"]
    ok = len(tab) == 1 and u(tab[0].args[0]) == "labelled_matrix" and {k.arg: u(k.value) for k in tab[0].keywords}.get("headers") == "platforms"
    ctx.soft(ok, "report:clustering:column-labels", "columns must be headed by the same platform list", f.loc())
    dg = [c for c in f.calls() if u(c.func).endswith("dendrogram")]
    ok = len(dg) == 1 and {k.arg: u(k.value) for k in dg[0].keywords}.get("labels") == "platforms"
    ctx.soft(ok, "report:clustering:dendrogram-labels", "dendrogram leaves must be labelled with the same platform list", f.loc())
    ctx.floor(5)


@rule("C07.R7", "the summary prints the metrics exactly as computed (no masking of NaN, no re-computation from other data)")
def r7(ctx):
    repo = ctx.repo
    f = repo.func("report", "summary")
    sm = f.params[0]
    want = {"Code Divergence": f"divergence({sm})", "Coverage (%)": f"coverage({sm})", "Avg. Coverage (%)": f"average_coverage({sm})"}
    found = 0
    for n in walk_no_nested(f.node):
        if isinstance(n, ast.JoinedStr):
            label = "".join(v.value for v in n.values if isinstance(v, ast.Constant)).split(":")[0]
            if label in want:
                found += 1
                fv = [v for v in n.values if isinstance(v, ast.FormattedValue)]
                ok = len(fv) == 1
                srcs = set()
                if ok:
                    leaves = provenance(f, fv[0].value, stmt_of(f, n))
                    chains = [c for _, c in leaves]
                    # the printed value must be the metric call itself: the only reaching definition is the call
                    from ..flow import Reaching
                    from ..cfg import cfg_of as _cfg

                    if isinstance(fv[0].value, ast.Name):
                        cfg = _cfg(f)
                        rd = Reaching(cfg, f.params)
                        defs = rd.defs_of(fv[0].value.id, cfg.node_of(stmt_of(f, n)))
                        srcs = {u(cfg.nodes[d].ast.value) for d in defs if isinstance(cfg.nodes[d].ast, ast.Assign)}
                        ok = srcs == {want[label]} and len(defs) == 1
                    else:
                        ok = u(fv[0].value) == want[label]
                ctx.check(ok, f"report:summary:prints:{label}", f"`{label}` must print {want[label]} as returned (NaN when undefined); the printed value has definitions {sorted(srcs)}", f.loc(n))
    ctx.soft(found == 3, "report:summary:three-metrics", f"expected the three metric lines, found {found}", f.loc())
    # the metric functions reference no module-level mutable state and keep nothing between calls
    mod = repo.mod("report")
    for name in ("coverage", "average_coverage", "distance", "divergence", "extract_platforms"):
        g = repo.func("report", name)
        free = set()
        for x in g.body_nodes():
            if isinstance(x, ast.Name) and isinstance(x.ctx, ast.Load) and x.id in mod.globals and x.id not in ("log",):
                free.add(x.id)
            if isinstance(x, ast.Global):
                free.update(x.names)
        ctx.check(not free, f"report:{name}:pure", f"reads module-level state {sorted(free)}: a metric must be a function of its arguments only (no cache keyed by object identity, no remembered tables)", g.loc())
    ctx.floor(8)
