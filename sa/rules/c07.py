"""C07 - coverage, average coverage, distance and divergence equal their definitions.

Decided: guard-before-divide, the accumulate-if predicates (by truth table), symmetry,
which collection a mean divides by, the layout of the distance matrix.  The numbers
themselves are not computed."""

from __future__ import annotations

import ast
import re
import itertools

from ..cfg import cfg_of
from ..decision import NOTHING, Evaluator, Hooks, Sym, vtext
from ..flow import provenance, stmt_of
from ..model import AnalysisError, callee, dotted, u, walk_no_nested
from ..run import rule

METRICS = ["coverage", "average_coverage", "distance", "divergence", "summary"]


def _is_nan_return(stmts):
    return any(isinstance(s, ast.Return) and u(s.value) in ("float('nan')", "math.nan", "float('NaN')", "np.nan") for s in stmts)


def _zero_guard(f, div: ast.BinOp):
    """Is `div` (a true division) dominated by a test that its denominator is
    non-zero, whose failing branch yields NaN?"""
    den = div.right
    den_names = {u(den)}
    if isinstance(den, ast.Call) and u(den.func) == "float" and den.args:
        den_names.add(u(den.args[0]))
    cfg = cfg_of(f)
    st = stmt_of(f, div)
    nid = cfg.node_of(st)
    for test, pol in cfg.path_conditions(nid):
        t = u(test)
        for d in den_names:
            # denominators are non-negative counts / lengths
            zero_forms = {f"{d} == 0", f"0 == {d}", f"not {d}", f"{d} <= 0", f"{d} < 1"}
            nonzero_forms = {f"{d} != 0", f"{d} > 0", d, f"{d} >= 1"}
            if (t in zero_forms and pol is False) or (t in nonzero_forms and pol is True):
                return True, test
    # conditional expression:  x / d if d else nan
    for n in walk_no_nested(f.node):
        if isinstance(n, ast.IfExp) and any(x is div for x in ast.walk(n.body)):
            t = u(n.test)
            for d in den_names:
                if t in (d, f"{d} != 0", f"{d} > 0"):
                    return True, n.test
    return False, None


def _div_operands(text):
    """(numerator, denominator) texts of every `(A Div B)` / FloorDiv / Mod in a value text"""
    out = []
    for op in (" Div ", " FloorDiv ", " Mod "):
        start = 0
        while True:
            i = text.find(op, start)
            if i < 0:
                break
            # left operand: back to the matching "("
            depth, j = 0, i - 1
            while j >= 0:
                if text[j] == ")":
                    depth += 1
                elif text[j] == "(":
                    if depth == 0:
                        break
                    depth -= 1
                j -= 1
            depth, k = 0, i + len(op)
            while k < len(text):
                if text[k] == "(":
                    depth += 1
                elif text[k] == ")":
                    if depth == 0:
                        break
                    depth -= 1
                k += 1
            out.append((text[j + 1 : i], text[i + len(op) : k]))
            start = i + len(op)
    return out


def _nonzero_on_path(den, atoms):
    """is `den != 0` established by the atoms of the path?  (den is the denominator's value text)"""
    d = den.strip()
    forms = [d]
    m = re.fullmatch(r"float\((.*)\)", d)
    if m:
        forms.append(m.group(1))
    for x in list(forms):
        m = re.fullmatch(r"len\((.*)\)", x)
        if m:
            forms.append("NONEMPTY:" + m.group(1))
    for x in forms:
        if x.startswith("NONEMPTY:"):
            if atoms.get(x[9:]) is True:
                return True
            continue
        if atoms.get(x) is True:
            return True
        for z in ("0", "0.0"):
            for k in (f"{z} Eq {x}", f"{x} Eq {z}"):
                if atoms.get(k) is False:
                    return True
            for k in (f"{x} Gt {z}", f"{z} Lt {x}"):
                if atoms.get(k) is True:
                    return True
    return False


@rule("C07.R1", "every division in the metrics is guarded by a zero test of its denominator that yields NaN")
def r1(ctx):
    """Decided on the decision tables: on every path whose result contains a division, the atoms of the path establish
    that the denominator is non-zero; and the paths on which it is zero return float('nan')."""
    from ..spec import tab, vt

    repo = ctx.repo
    n = 0
    for name in METRICS:
        f = repo.func("report", name)
        dens = set()
        nan_paths = 0
        for p in tab(f):
            res = vt(p.result[1]) if p.result[0] == "return" and p.result[1] is not None else ""
            at = {vt(k): v for k, v in p.atoms.items()}
            if res == "float('nan')":
                nan_paths += 1
            texts = [res] + [vt(x[1]) if isinstance(x, tuple) and len(x) == 2 and isinstance(x[0], str) else vt(x) for e in p.effects if e[0] in ("call", "store", "aug", "yield") for x in e[1:] if not isinstance(x, str) or " Div " in x]
            for num, den in [nd for t in texts for nd in _div_operands(t)]:
                n += 1
                dens.add(den)
                key = f"report:{name}:division:{den[:50]}"
                ctx.check(_nonzero_on_path(den, at), key, f"`{num[:40]} / {den[:60]}` is returned on a path that does not establish `{den[:60]}` != 0: ZeroDivisionError when the table has no lines / platforms (must be NaN)", f.loc())
        if dens and name != "summary":
            ctx.check(nan_paths >= 1, f"report:{name}:nan-when-undefined", "a metric with a division must return NaN where it is undefined", f.loc())
    ctx.floor(3)


# ----------------------------------------------------------------------
class AccHooks(Hooks):
    """One iteration of an accumulate-if loop over setmap.items() with
    membership atoms decided concretely."""

    def __init__(self, member, names):
        self.member = member  # dict: atom text -> bool
        self.names = names

    def resolve(self, expr, st):
        if isinstance(expr, ast.Compare) and len(expr.ops) == 1 and isinstance(expr.ops[0], (ast.In, ast.NotIn)):
            k = f"{u(expr.left)} in {u(expr.comparators[0])}"
            if k in self.member:
                v = self.member[k]
                return v if isinstance(expr.ops[0], ast.In) else not v
        if isinstance(expr, ast.BinOp) and isinstance(expr.op, (ast.BitXor, ast.BitOr, ast.BitAnd)):
            return NOTHING
        return NOTHING


def _bool_binop_eval(ev, expr, st):
    return NOTHING


def _sum_terms(text):
    """terms of a sum value text (zero literals dropped, float() transparent), sorted"""
    from ..spec import _strip_parens, _top_binop

    out = []

    def walk(t):
        t = _strip_parens(t)
        m = re.fullmatch(r"float\((.*)\)", t)
        if m and _strip_parens("(" + m.group(1) + ")") == m.group(1).strip():
            t = _strip_parens(m.group(1))
        hit = _top_binop(t, ("Add",))
        if hit is None:
            if not re.fullmatch(r"0(\.0*)?", t):
                out.append(t)
            return
        walk(hit[0])
        walk(hit[2])

    walk(text)
    return sorted(out)


def _rows(p, sm):
    """(ITER, n) for the accumulation loop over the rows of the table taken on this path"""
    from ..spec import vt

    its = {}
    for k, v in p.atoms.items():
        m = re.match(r"more\((.+)#L\d+,(\d+)\)$", vt(k))
        if m and v:
            its[m.group(1)] = max(its.get(m.group(1), 0), int(m.group(2)) + 1)
    return its


def _ratio_spec(ctx, f, p, key, res, want_num, want_den, scale, what):
    """the value returned on path `p` must be NaN (only when the expected denominator is 0) or scale * num / den"""
    from ..spec import atoms, product_form

    at = atoms(p)
    if "nan" in res.lower():
        zero = any(v and re.fullmatch(r"(.+) Eq 0|0 Eq (.+)", k) and _sum_terms((re.fullmatch(r"(.+) Eq 0|0 Eq (.+)", k).group(1) or re.fullmatch(r"(.+) Eq 0|0 Eq (.+)", k).group(2))) == want_den for k, v in at.items())
        zero = zero or any((not v) and _sum_terms(k) == want_den for k, v in at.items() if " " not in k.strip("()") or " Add " in k)
        ctx.check(not want_den or zero, key, f"{what}: NaN is returned although the denominator ({' + '.join(want_den) or 0}) is not known to be 0 on this path", f.loc())
        return
    num, den = product_form(res)
    consts = [x for x in num if re.fullmatch(r"-?\d+(\.\d*)?", x)]
    num = [x for x in num if x not in consts]
    got_scale = 1.0
    for c in consts:
        got_scale *= float(c)
    # a zero numerator (`0 / total`) has no symbolic factor
    zero_num = any(re.fullmatch(r"0(\.0*)?", x) for x in consts)
    if zero_num:
        got_scale = scale
    if len(num) > 1 or len(den) != 1:
        raise AnalysisError(f"{f.key}: returned value `{res[:100]}` is not a ratio of two sums")
    got_num = _sum_terms(num[0]) if num else []
    got_den = _sum_terms(den[0])
    ctx.check(got_num == want_num and got_den == want_den and got_scale == scale, key, f"{what}: returns ({' + '.join(got_num) or 0}) / ({' + '.join(got_den) or 0}) * {got_scale:g}; the definition requires ({' + '.join(want_num) or 0}) / ({' + '.join(want_den) or 0}) * {scale:g}", f.loc())


@rule("C07.R2", "accumulate-if predicates equal the definitions (distance: XOR over OR; coverage: used-by-a-selected-platform over all)")
def r2(ctx):
    """table specification over the decision tables of distance() and coverage() for tables of one and two rows
    (S_i, C_i): distance = sum(C_i | exactly one of p1, p2 in S_i) / sum(C_i | p1 or p2 in S_i); coverage = 100 *
    sum(C_i | S_i non-empty and some selected platform in S_i) / sum(C_i); NaN exactly when the denominator is 0.
    A membership the path never examined is tried both ways: the result must be right for both."""
    from ..spec import atoms, tab, vt

    repo = ctx.repo
    f = repo.func("report", "distance")
    sm, p1, p2 = f.params
    n_paths = 0
    for p in tab(f, unroll=2):
        its = _rows(p, sm)
        if p.result[0] != "return":
            ctx.violation(f"report:distance:returns", f"distance does not return a value on {p.describe()[:160]}", f.loc())
            continue
        if not its:
            ctx.check("nan" in vt(p.result[1]).lower(), "report:distance:empty-table", "an empty table has no distance (NaN)", f.loc())
            continue
        if len(its) != 1 or not any(sm in i for i in its):
            raise AnalysisError(f"distance: accumulation loops not recognised: {sorted(its)}")
        ITER, n = next(iter(its.items()))
        if not ITER.startswith(f"{sm}.items()"):
            raise AnalysisError(f"distance: rows are not taken from {sm}.items(): {ITER}")
        at = atoms(p)
        other = [k for k in at if not any(f"{ITER}[{i}]" in k for i in range(n)) and not re.search(r" Eq 0|0 Eq |^\(?[\w. ()]*Add", k) and k not in (p1, p2)]
        memb = []
        for i in range(n):
            S = f"{ITER}[{i}][0]"
            memb.append((at.get(f"{p1} In {S}"), at.get(f"{p2} In {S}")))
            other += [k for k in at if f"{ITER}[{i}]" in k and k not in (f"{p1} In {S}", f"{p2} In {S}") and not re.search(r" Eq 0|0 Eq ", k)]
        if other:
            ctx.violation("report:distance:depends-only-on-membership", f"the accumulation depends on {other[:2]} beyond (p1 in row, p2 in row)", f.loc())
            continue
        n_paths += 1
        res = vt(p.result[1])
        unknown = [(i, j) for i in range(n) for j in (0, 1) if memb[i][j] is None]
        for combo in itertools.product((False, True), repeat=len(unknown)):
            mm = [list(x) for x in memb]
            for (i, j), v in zip(unknown, combo):
                mm[i][j] = v
            want_num = sorted(f"{ITER}[{i}][1]" for i in range(n) if mm[i][0] != mm[i][1])
            want_den = sorted(f"{ITER}[{i}][1]" for i in range(n) if mm[i][0] or mm[i][1])
            key = "report:distance:row:" + ";".join(f"p1_in={int(a)},p2_in={int(b)}" for a, b in mm)
            _ratio_spec(ctx, f, p, key, res, want_num, want_den, 1.0, f"rows used by (p1, p2) = {[(a, b) for a, b in mm]}: Jaccard distance is <lines used by exactly one> / <lines used by either>")
    if n_paths < 4:
        raise AnalysisError(f"distance: only {n_paths} row paths understood")
    # ---- coverage
    g = repo.func("report", "coverage")
    smc, plc = g.params
    n_cov = 0
    for p in tab(g, unroll=2):
        its = _rows(p, smc)
        if p.result[0] != "return":
            ctx.violation("report:coverage:returns", f"coverage does not return a value on {p.describe()[:160]}", g.loc())
            continue
        if not its:
            ctx.check("nan" in vt(p.result[1]).lower(), "report:coverage:empty-table", "an empty table has no coverage (NaN)", g.loc())
            continue
        if len(its) != 1:
            raise AnalysisError(f"coverage: accumulation loops not recognised: {sorted(its)}")
        ITER, n = next(iter(its.items()))
        if not ITER.startswith(f"{smc}.items()"):
            raise AnalysisError(f"coverage: rows are not taken from {smc}.items(): {ITER}")
        at = atoms(p)
        dflt = at.get(plc)
        if dflt is None:
            dflt = next((not v for k, v in at.items() if k in (f"None Eq {plc}", f"{plc} Eq None", f"0 Eq len({plc})", f"len({plc}) Eq 0")), None)
        SEL = [plc] if dflt in (True, None) else [f"set().union(*{smc}.keys())", f"extract_platforms({smc})", f"set().union(*{smc})"]
        rows = []
        bad = None
        for i in range(n):
            S = f"{ITER}[{i}][0]"
            empty = used = None
            for k, v in at.items():
                if S not in k:
                    continue
                if k in (f"frozenset() Eq {S}", f"{S} Eq frozenset()", f"len({S}) Eq 0", f"0 Eq len({S})", f"frozenset([]) Eq {S}", f"{S} Eq frozenset([])"):
                    empty = v
                elif k in (S, f"len({S}) Gt 0", f"0 Lt len({S})", f"frozenset() NotEq {S}", f"{S} NotEq frozenset()"):
                    empty = not v
                elif any(k in (f"any(comp:[_c0 in {P} for _c0 in {S}])", f"{S} BitAnd {P}", f"{P} BitAnd {S}", f"{S}.intersection({P})", f"{P}.intersection({S})", f"set({S}) BitAnd set({P})") for P in SEL):
                    used = v
                elif any(k in (f"{S}.isdisjoint({P})", f"{P}.isdisjoint({S})") for P in SEL):
                    used = not v
                elif not re.search(r" Eq 0|0 Eq ", k):
                    bad = k
            rows.append((empty, used))
        if bad:
            ctx.violation("report:coverage:depends-only-on-selection", f"the accumulation depends on `{bad[:100]}`: a row counts as used iff it is non-empty and one of the SELECTED platforms ({SEL[0]}) is in it (without a selection: all platforms of the table)", g.loc())
            continue
        n_cov += 1
        res = vt(p.result[1])
        unknown = [(i, j) for i in range(n) for j in (0, 1) if rows[i][j] is None]
        for combo in itertools.product((False, True), repeat=len(unknown)):
            mm = [list(x) for x in rows]
            for (i, j), v in zip(unknown, combo):
                mm[i][j] = v
            if any(e and u_ for e, u_ in mm):
                continue  # an empty row contains no platform at all
            want_num = sorted(f"{ITER}[{i}][1]" for i in range(n) if not mm[i][0] and mm[i][1])
            want_den = sorted(f"{ITER}[{i}][1]" for i in range(n))
            key = "report:coverage:row:" + ";".join(f"empty={int(e)},used_by_selected={int(u_)}" for e, u_ in mm)
            _ratio_spec(ctx, g, p, key, res, want_num, want_den, 100.0, f"rows (empty, used by a selected platform) = {[(e, u_) for e, u_ in mm]}: coverage is 100 * <lines used by a selected platform> / <all lines>")
    if n_cov < 4:
        raise AnalysisError(f"coverage: only {n_cov} row paths understood")
    # every row of the table is visited: no break / return inside the accumulation loops
    for fn_ in (f, g):
        for lp_ in [n for n in fn_.body_nodes() if isinstance(n, ast.For)]:
            bad = [x for x in ast.walk(lp_) if isinstance(x, (ast.Break, ast.Return))]
            ctx.check(not bad, f"report:{fn_.name}:loop-visits-every-row", f"the accumulation loop `for {u(lp_.target)} in {u(lp_.iter)}` can stop early ({u(bad[0]) if bad else ''}): rows after that point are left out of the sums, so the metric depends on the order of the table", fn_.loc(lp_))
    ctx.floor(10)


def _run_iteration(loop, member):
    wrapper = ast.parse("def _f():\n    for _i in [0]:\n        pass").body[0]
    wrapper.body[0].body = loop.body

    class H(AccHooks):
        def resolve(self, expr, st):
            r = AccHooks.resolve(self, expr, st)
            if r is not NOTHING:
                return r
            if isinstance(expr, ast.BinOp) and isinstance(expr.op, (ast.BitXor, ast.BitOr, ast.BitAnd)):
                l = self.resolve(expr.left, st)
                r_ = self.resolve(expr.right, st)
                if isinstance(l, bool) and isinstance(r_, bool):
                    return {ast.BitXor: l ^ r_, ast.BitOr: l | r_, ast.BitAnd: l & r_}[type(expr.op)]
            if isinstance(expr, ast.BoolOp):
                vals = [self.resolve(v, st) for v in expr.values]
                if all(isinstance(v, bool) for v in vals):
                    return all(vals) if isinstance(expr.op, ast.And) else any(vals)
            if isinstance(expr, ast.UnaryOp) and isinstance(expr.op, ast.Not):
                v = self.resolve(expr.operand, st)
                if isinstance(v, bool):
                    return not v
            if isinstance(expr, ast.Compare) and len(expr.ops) == 1 and isinstance(expr.ops[0], (ast.NotEq, ast.Eq)):
                l = self.resolve(expr.left, st)
                r_ = self.resolve(expr.comparators[0], st)
                if isinstance(l, bool) and isinstance(r_, bool):
                    return (l != r_) if isinstance(expr.ops[0], ast.NotEq) else (l == r_)
            return NOTHING

    return Evaluator(H(member, None)).paths(wrapper)


@rule("C07.R4", "means divide by the size of the collection they sum over; divergence averages over all unordered platform pairs")
def r4(ctx):
    repo = ctx.repo
    # ---- average_coverage
    f = repo.func("report", "average_coverage")
    sm, pl = f.params
    key = "report:average_coverage:mean"
    # decision table: P = platforms, or every platform of the table when none are given;
    #   no platforms -> NaN; otherwise sum(coverage(setmap, [p]) for p in P) / len(P)
    from ..spec import call_args, n_iter, split_top, tab, vt
    import re

    n_mean = 0
    for p in tab(f):
        at = {vt(k): v for k, v in p.atoms.items()}
        given = at.get(pl)
        res = vt(p.result[1]) if p.result[0] == "return" else ""
        if given is None:
            raise AnalysisError(f"average_coverage: the test whether platforms were given is not recognised: {p.describe()[:160]}")
        P = pl if given else f"set().union(*{sm}.keys())"
        if not given:
            nonempty = at.get(P)
            ctx.check(nonempty is not None, "report:average_coverage:default-platforms", f"without `platforms`, all platforms of the table (`{P}`) must be averaged: {p.describe()[:200]}", f.loc())
            if nonempty is None:
                continue
            if not nonempty:
                ctx.check(res == "float('nan')", key + ":nan", f"no platforms: the average is undefined (NaN), got {res}", f.loc())
                continue
        m = re.fullmatch(r"\((.+) Div len\((.+)\)\)", res)
        if not m:
            ctx.violation(key, f"average coverage must be sum(coverage of each platform) / len(platforms): returns `{res[:160]}`", f.loc())
            continue
        n_mean += 1
        ctx.check(m.group(2) == P, key + ":over-platforms", f"the sum must be divided by the size of the collection it runs over (`{P}`), not `{m.group(2)}`", f.loc())
        summed = None
        for fn in ("math.fsum", "sum"):
            ca = call_args(m.group(1), fn)
            if ca and len(ca[0]) == 1:
                summed = ca[0][0]
        if summed is None:
            raise AnalysisError(f"average_coverage: summation not recognised: {m.group(1)[:120]}")
        cm = re.fullmatch(r"(?:comp:)?[\[(]coverage\((.+), (.+)\) for (\w+) in (.+)[\])]", summed)
        if cm:
            terms = [(cm.group(1), cm.group(2).replace(cm.group(3), "@"))]
            over = cm.group(4)
        elif summed.startswith("[") and summed.endswith("]"):
            items = split_top(summed[1:-1])
            terms, over = [], P
            for i, it_ in enumerate(items):
                ca = call_args(it_, "coverage")
                if not ca or len(ca[0]) != 2:
                    raise AnalysisError(f"average_coverage: term not recognised: {it_[:80]}")
                terms.append((ca[0][0], ca[0][1].replace(f"{P}[{i}]", "@")))
            if len(items) != n_iter(p, P):
                ctx.violation(key + ":over-platforms", f"{len(items)} terms are summed for {n_iter(p, P)} platforms visited", f.loc())
        else:
            raise AnalysisError(f"average_coverage: summed collection not recognised: {summed[:120]}")
        ctx.check(over == P, key + ":over-platforms", f"must sum over exactly the collection whose length divides the sum (`{P}`): iterates `{over}`", f.loc())
        for a0, a1 in terms:
            ok = a0 == sm and a1 in ("[@]", "{@}", "(@,)", "set([@])", "frozenset([@])", "set:{@}")
            ctx.check(ok, key + ":single-platform-coverage", f"each term must be the coverage of ONE platform, passed as a one-element collection (`coverage({sm}, [p])`): `coverage({a0}, {a1.replace('@', 'p')})` - a bare string turns the membership test `p in platforms` into a substring test", f.loc())
    if not n_mean:
        raise AnalysisError("average_coverage: no path returns a mean")
    # ---- divergence
    d = repo.func("report", "divergence")
    smd = d.params[0]
    key = "report:divergence"
    # the platform list comes from the UNFILTERED table
    ep = [c for c in d.calls() if callee(c) == "extract_platforms"]
    ok = len(ep) == 1
    if ok:
        leaves = provenance(d, ep[0].args[0], stmt_of(d, ep[0]))
        ok = all(u(l) == smd and c == ["<param>"] for l, c in leaves)
    ctx.check(ok, key + ":platforms-of-whole-table", f"platform pairs must be drawn from all platforms of the table passed in (`extract_platforms({smd})` on the unmodified parameter): a platform that only occurs in zero-count rows still is a platform", d.loc())
    rebound = [s for s in walk_no_nested(d.node) if isinstance(s, ast.Assign) and u(s.targets[0]) == smd]
    ctx.check(not rebound, key + ":table-not-rebound", f"`{smd}` is replaced inside divergence: {[u(s)[:60] for s in rebound]}", d.loc())
    # table specification of the mean: on the path that returns a number, the value is
    #   sum(distance(setmap, a, b) for (a, b) in PAIRS) / |PAIRS|,  PAIRS = the pairs of DISTINCT platforms of the table
    # (combinations, permutations, or two loops over the platform list with a filter a != b / a < b)
    from ..spec import _strip_parens, product_form, tab, vt

    n_mean = 0
    for p in tab(d, unroll=1):
        if p.result[0] != "return":
            continue
        res = vt(p.result[1])
        if "nan" in res.lower() and "distance(" not in res:
            continue
        num, den = product_form(res)
        num = [x for x in num if not re.fullmatch(r"-?\d+(\.\d*)?", x)]
        # a mean of pair distances divides by the NUMBER of pairs, a function of how many platforms there are; a divisor
        # built from line counts (rows' values) is a ratio of pooled sums, not a mean of ratios
        cnt = re.compile(re.escape(smd) + r"(\.items\(\)\[\d+\]\[1\]|\.values\(\)|\[[^\]]*\](?!\[0\]))")
        if den and any(cnt.search(x) for x in den) and "distance(" not in res:
            ctx.violation(key + ":mean", f"divergence divides by `{den[0][:100]}`, which depends on the line counts of the table: the definition is the MEAN of the pair distances (sum of distance(a, b) over the pairs, divided by the number of pairs); a ratio of pooled sums weights every pair by its size", d.loc())
            n_mean += 1
            continue
        if len(num) != 1 or "distance(" not in num[0]:
            raise AnalysisError(f"divergence: returned value not recognised as a mean of distances: {res[:120]}")
        i = num[0].find("comp:")
        if i < 0:
            raise AnalysisError(f"divergence: the summed distances are not a comprehension: {num[0][:120]}")
        j, depth = i + 5, 0
        for j in range(i + 5, len(num[0])):
            depth += num[0][j] in "[("
            depth -= num[0][j] in "])"
            if depth == 0:
                break
        comp_text = num[0][i + 5 : j + 1]
        try:
            comp = ast.parse(comp_text, mode="eval").body
        except SyntaxError:
            raise AnalysisError(f"divergence: comprehension text does not parse: {comp_text[:100]}")
        gens, node = [], comp
        while isinstance(node, (ast.ListComp, ast.GeneratorExp, ast.SetComp)):
            gens = list(node.generators) + gens if False else gens + list(node.generators)
            node = node.elt
        # nested comprehension [[.. for b in P] for a in P]: the outer generators come first in `gens`
        if not (isinstance(node, ast.Call) and u(node.func) == "distance" and len(node.args) == 3):
            raise AnalysisError(f"divergence: summed element is not distance(setmap, a, b): {u(node)[:80]}")
        n_mean += 1
        a0, a1, a2 = [u(x) for x in node.args]
        P_OK = lambda t: re.fullmatch(r"(sorted|list|tuple)?\(?extract_platforms\(" + re.escape(smd) + r"\)\)?", t) is not None
        targets = []
        distinct = False
        dom = None
        for g_ in gens:
            it_ = g_.iter
            if isinstance(it_, ast.Call) and u(it_.func) in ("it.combinations", "itertools.combinations", "it.permutations", "itertools.permutations", "combinations", "permutations") and len(it_.args) == 2 and u(it_.args[1]) == "2" and isinstance(g_.target, ast.Tuple):
                targets += [u(e) for e in g_.target.elts]
                distinct = True
                dom = u(it_.args[0])
            else:
                targets.append(u(g_.target))
                dom = u(it_) if dom in (None, u(it_)) else "<different lists>"
            for c_ in g_.ifs:
                if isinstance(c_, ast.Compare) and len(c_.ops) == 1 and isinstance(c_.ops[0], (ast.NotEq, ast.Lt, ast.Gt)) and {u(c_.left), u(c_.comparators[0])} == set(targets[-2:]):
                    distinct = True
                else:
                    ctx.violation(key + ":all-pairs", f"pairs are filtered by `{u(c_)[:60]}`: every pair of distinct platforms must contribute", d.loc())
        if len(targets) != 2:
            raise AnalysisError(f"divergence: pair domain not recognised: {comp_text[:120]}")
        ctx.check(distinct, key + ":all-pairs", f"distances are summed over ALL (a, b) in platforms x platforms, including a platform paired with itself: distance(p, p) is NaN for a platform that uses no line (0/0) and is 0 otherwise, so the mean over the pairs of distinct platforms is lost", d.loc())
        ctx.check(dom is not None and P_OK(dom), key + ":all-pairs", f"pairs must be drawn from the platform list of the table (`extract_platforms({smd})`): drawn from `{dom}`", d.loc())
        ctx.check(a0 == smd and {a1, a2} == set(targets), key + ":distance-of-pair", f"each pair must contribute distance({smd}, a, b): contributes distance({a0}, {a1}, {a2})", d.loc())
        if dom is not None and sorted(den) == sorted([f"len({dom})", f"len({dom}) Sub 1"]):
            den = [f"len({dom}) Mult (len({dom}) Sub 1)"]
        if len(den) != 1:
            raise AnalysisError(f"divergence: divisor not recognised: {den}")
        dt = _strip_parens(den[0])
        m = re.fullmatch(r"len\(comp:(.*)\)", dt)
        if m:
            ctx.check(m.group(1) == comp_text, key + ":mean", f"the sum of the distances in `{comp_text[:60]}` is divided by the length of a different collection `{m.group(1)[:60]}`", d.loc())
        elif distinct and dom is not None and dt in (f"len({dom}) Mult (len({dom}) Sub 1)", f"(len({dom}) Sub 1) Mult len({dom})"):
            ok_n = not any(isinstance(g_.iter, ast.Call) and "combinations" in u(g_.iter.func) for g_ in gens) and not any(isinstance(c_.ops[0], (ast.Lt, ast.Gt)) for g_ in gens for c_ in g_.ifs if isinstance(c_, ast.Compare))
            ctx.check(ok_n, key + ":mean", "n*(n-1) is the number of ORDERED pairs; the sum runs over unordered ones", d.loc())
        else:
            ctx.violation(key + ":mean", f"divergence must be (sum of pair distances) / (number of pairs summed): divides by `{dt[:80]}`", d.loc())
    if not n_mean:
        raise AnalysisError("divergence: no path returns a mean of distances")
    # extract_platforms: union of all keys
    e = repo.func("report", "extract_platforms")
    rets = [u(n.value) for n in walk_no_nested(e.node) if isinstance(n, ast.Return)]
    env = {u(s.targets[0]): u(s.value) for s in e.node.body if isinstance(s, ast.Assign)}
    ok = len(rets) == 1 and rets[0] in ("list(unique_platforms)", "sorted(unique_platforms)") and env.get("unique_platforms") == f"set(it.chain.from_iterable({e.params[0]}.keys()))"
    ctx.soft(ok, "report:extract_platforms:union-of-keys", f"must return the union of all platform sets: {rets} {env}", e.loc())
    ctx.floor(9)


@rule("C07.R5", "clustering: matrix[i][j] = distance(setmap, platforms[i], platforms[j]) over one sorted platform list used for rows, columns and labels")
def r5(ctx):
    """table specification over what clustering() prints and plots: with P = sorted(extract_platforms(setmap)) and
    M = [[distance(setmap, a, b) for b in P] for a in P]: the table's rows are (P[i], M[i]) for i over P, its headers are
    P, the dendrogram is built from squareform(M) and labelled with P.  Locals, helpers and statement order are free."""
    from ..spec import call_args, split_top, tab, vt

    repo = ctx.repo
    f = repo.func("report", "clustering")
    sm = f.params[1]
    P = f"sorted(extract_platforms({sm}))"

    def find_call(text, name):
        i = text.find(name + "(")
        if i < 0:
            return None
        depth = 0
        for j in range(i + len(name), len(text)):
            depth += text[j] in "([{"
            depth -= text[j] in ")]}"
            if depth == 0:
                return text[i : j + 1]
        return None

    def matrix_ok(mtext):
        """M as a nested comprehension over P x P of distance(sm, a, b)"""
        try:
            m = ast.parse(mtext.replace("comp:", ""), mode="eval").body
        except SyntaxError:
            return None
        if not (isinstance(m, ast.ListComp) and isinstance(m.elt, ast.ListComp) and len(m.generators) == 1 and len(m.elt.generators) == 1):
            return None
        outer, inner, el = m.generators[0], m.elt.generators[0], m.elt.elt
        return (
            u(outer.iter) == P and u(inner.iter) == P and not outer.ifs and not inner.ifs and isinstance(el, ast.Call) and u(el.func) == "distance"
            and [u(a) for a in el.args] in ([sm, u(outer.target), u(inner.target)], [sm, u(inner.target), u(outer.target)])
        )

    n = 0
    for p in tab(f, unroll=1):
        texts = [vt(x) for e in p.effects if e[0] in ("call", "aug", "store") for x in e[1:] if not isinstance(x, tuple)] + [vt(x[1]) for e in p.effects if e[0] == "call" for x in e[2:] if isinstance(x, tuple) and len(x) == 2]
        whole = "\n".join(texts)
        tb = find_call(whole, "tabulate")
        if tb is None:
            continue
        n += 1
        ca = call_args(tb, "tabulate")
        if not ca or not ca[0]:
            raise AnalysisError(f"clustering: tabulate(...) call not understood: {tb[:100]}")
        rows, kw = ca[0][0], ca[1]
        ctx.check(kw.get("headers") == P, "report:clustering:column-labels", f"the columns must be headed by the sorted platform list `{P}`: headers={kw.get('headers', '')[:80]}", f.loc())
        # rows: [[label] + [fmt(x) for x in M[i]] for i, label in enumerate(P)]
        try:
            r = ast.parse(rows.replace("comp:", ""), mode="eval").body
        except SyntaxError:
            raise AnalysisError(f"clustering: rows of the distance table do not parse: {rows[:100]}")
        if not (isinstance(r, ast.ListComp) and len(r.generators) == 1):
            raise AnalysisError(f"clustering: rows of the distance table not recognised: {rows[:100]}")
        g = r.generators[0]
        it = u(g.iter)
        subs = [x for x in ast.walk(r.elt) if isinstance(x, ast.Subscript) and isinstance(x.value, (ast.ListComp,))]
        if it == f"enumerate({P})" and isinstance(g.target, ast.Tuple) and len(g.target.elts) == 2 and len(subs) == 1:
            idx, lab = u(g.target.elts[0]), u(g.target.elts[1])
            label_ok = isinstance(r.elt, ast.BinOp) and isinstance(r.elt.left, ast.List) and [u(x) for x in r.elt.left.elts] == [lab]
            ctx.check(label_ok and u(subs[0].slice) == idx, "report:clustering:row-labels", f"row i of the printed table must be labelled P[i] and show M[i]: `{u(r.elt)[:100]}`", f.loc())
            mo = matrix_ok(u(subs[0].value))
        elif it in (f"zip({P}, {x})" for x in [u(s_.value) for s_ in subs] + [u(a) for a in getattr(g.iter, 'args', [])[1:]]):
            mo = matrix_ok(u(g.iter.args[1]))
            ctx.ok("report:clustering:row-labels")
        else:
            raise AnalysisError(f"clustering: row labelling not recognised: for {u(g.target)} in {it[:80]}")
        if mo is None:
            raise AnalysisError("clustering: matrix construction not understood")
        ctx.check(mo, "report:clustering:matrix-layout", f"the matrix must be [[distance({sm}, a, b) for b in P] for a in P] with P = `{P}` (one list for rows and columns)", f.loc())
        ctx.check(P in rows and "extract_platforms" in rows, "report:clustering:platforms-sorted", f"the platform list must be `{P}`", f.loc())
        dg = next((e for e in p.effects if e[0] == "call" and str(e[1]).endswith("dendrogram")), None)
        if dg is None:
            raise AnalysisError("clustering: dendrogram call not found")
        lab = next((vt(x[1]) for x in dg[2:] if isinstance(x, tuple) and x[0] == "labels"), None)
        ctx.check(lab == P, "report:clustering:dendrogram-labels", f"the dendrogram leaves must be labelled with the same sorted platform list: labels={str(lab)[:80]}", f.loc())
        sq = find_call(vt(dg[2]), "squareform")
        if sq is None:
            raise AnalysisError(f"clustering: squareform(...) not found in the linkage argument: {vt(dg[2])[:100]}")
        sqa = call_args(sq, "squareform")
        mo2 = matrix_ok(sqa[0][0]) if sqa and sqa[0] else None
        if mo2 is None:
            raise AnalysisError(f"clustering: condensed distances not understood: {sq[:120]}")
        ctx.check(mo2, "report:clustering:matrix-layout", "the dendrogram must be built from the same distance matrix as the table", f.loc())
    if not n:
        raise AnalysisError("clustering: no path prints the distance table")
    ctx.floor(5)


@rule("C07.R7", "the summary prints the metrics exactly as computed (no masking of NaN, no re-computation from other data)")
def r7(ctx):
    repo = ctx.repo
    f = repo.func("report", "summary")
    sm = f.params[0]
    want = {"Code Divergence": f"divergence({sm})", "Coverage (%)": f"coverage({sm})", "Avg. Coverage (%)": f"average_coverage({sm})"}
    found = 0
    for n in walk_no_nested(f.node):
        if isinstance(n, ast.JoinedStr):
            label = "".join(v.value for v in n.values if isinstance(v, ast.Constant)).split(":")[0]
            if label in want:
                found += 1
                fv = [v for v in n.values if isinstance(v, ast.FormattedValue)]
                ok = len(fv) == 1
                srcs = set()
                if ok:
                    leaves = provenance(f, fv[0].value, stmt_of(f, n))
                    chains = [c for _, c in leaves]
                    # the printed value must be the metric call itself: the only reaching definition is the call
                    from ..flow import Reaching
                    from ..cfg import cfg_of as _cfg

                    if isinstance(fv[0].value, ast.Name):
                        cfg = _cfg(f)
                        rd = Reaching(cfg, f.params)
                        defs = rd.defs_of(fv[0].value.id, cfg.node_of(stmt_of(f, n)))
                        srcs = {u(cfg.nodes[d].ast.value) for d in defs if isinstance(cfg.nodes[d].ast, ast.Assign)}
                        ok = srcs == {want[label]} and len(defs) == 1
                    else:
                        ok = u(fv[0].value) == want[label]
                ctx.check(ok, f"report:summary:prints:{label}", f"`{label}` must print {want[label]} as returned (NaN when undefined); the printed value has definitions {sorted(srcs)}", f.loc(n))
    ctx.soft(found == 3, "report:summary:three-metrics", f"expected the three metric lines, found {found}", f.loc())
    # the metric functions reference no module-level mutable state and keep nothing between calls
    mod = repo.mod("report")
    for name in ("coverage", "average_coverage", "distance", "divergence", "extract_platforms"):
        g = repo.func("report", name)
        free = set()
        for x in g.body_nodes():
            if isinstance(x, ast.Name) and isinstance(x.ctx, ast.Load) and x.id in mod.globals and x.id not in ("log",):
                free.add(x.id)
            if isinstance(x, ast.Global):
                free.update(x.names)
        ctx.check(not free, f"report:{name}:pure", f"reads module-level state {sorted(free)}: a metric must be a function of its arguments only (no cache keyed by object identity, no remembered tables)", g.loc())
    ctx.floor(8)
