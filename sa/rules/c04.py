"""C04 - #include resolution: search order, memo soundness, same translation
unit, forced includes first, once-protocol key agreement, form detection."""

from __future__ import annotations

import ast
import re

from ..decision import NOTHING, Evaluator, Hooks, Sym
from ..decision import vtext as _vtext


def vtext(v):
    """value text without memory-version suffixes"""
    return re.sub(r"@\d+", "", _vtext(v))

from ..flow import provenance, stmt_of
from ..model import AnalysisError, callee, dotted, u, walk_no_nested
from ..run import rule
from ..tables import add_argument_calls


def _fif(repo):
    f = repo.cls("platform", "Platform").find_method("find_include_file")
    if f is None:
        raise AnalysisError("anchor vanished: Platform.find_include_file")
    return f


def _memo_attr(paths):
    """attribute used as memo: stored with the returned value"""
    for p in paths:
        for e in p.effects:
            if e[0] == "store" and e[1].startswith("self.") and "[" in e[1]:
                return e[1].split("[")[0]
    return None


@rule("C04.R1", "search order: includer's directory first unless <>, then include paths in order, first existing file wins")
def r1(ctx):
    repo = ctx.repo
    f = _fif(repo)
    name_p, this_p, sys_p = f.params[1], f.params[2], f.params[3]
    paths = Evaluator(Hooks()).paths(f.node)
    memo = _memo_attr(paths)
    ctx.note(f"{f.key}: {len(paths)} paths, memo={memo}")
    # attribute holding the include paths: the starred tail of the candidate list
    n = 0
    for p in paths:
        tests = []  # (candidate text, result)
        sysv = None
        other = []
        more = []
        for k, v in p.atoms.items():
            m = re.match(r"os\.path\.isfile\((.*)\)$", k)
            if m:
                inner = m.group(1)
                m2 = re.search(r"os\.path\.join\((.*), " + re.escape(name_p) + r"\)", inner)
                tests.append((m2.group(1) if m2 else "?" + inner, v, inner))
            elif k == sys_p:
                sysv = v
            elif k.startswith("more("):
                more.append((k, v))
            elif k.startswith("raises(") and memo and memo in k:
                pass
            elif memo and memo in k:
                pass
            else:
                other.append(k)
        is_memo_hit = p.result[0] == "return" and memo is not None and vtext(p.result[1]).startswith(memo + "[") and not tests
        if is_memo_hit:
            continue
        n += 1
        key = f"platform:Platform.find_include_file:system={'?' if sysv is None else int(sysv)}:" + ",".join(f"{c}={int(v)}" for c, v, _ in tests)
        if other:
            ctx.violation(key, f"resolution depends on {other}; it may only depend on the include form, the includer's directory, the include paths and the file system  [{p.describe()[:300]}]", f.loc())
            continue
        if sysv is None:
            ctx.violation(key, f"search does not distinguish <> from \"\" includes: {p.describe()[:300]}", f.loc())
            continue
        cands = [c for c, _, _ in tests]
        ipaths = [c for c in cands if c != this_p]
        attr = None
        for c in ipaths:
            m = re.match(r"(self\.\w+)\[(\d+)\]$", c)
            if not m:
                ctx.violation(key, f"unexpected search candidate {c}", f.loc())
                break
            attr = m.group(1)
        else:
            idx = [int(re.match(r".*\[(\d+)\]$", c).group(1)) for c in ipaths]
            exp = ([] if sysv else [this_p]) + [f"{attr}[{i}]" for i in range(len(idx))]
            hits = [v for _, v, _ in tests]
            ok = cands == exp and all(not h for h in hits[:-1])
            if not ok:
                ctx.violation(key, f"candidates are tested in order {cands}; expected {exp} ({'<> form: include paths only' if sysv else 'quote form: directory of the including file first'}), stopping at the first existing file", f.loc())
                continue
            if hits and hits[-1]:
                rv = vtext(p.result[1]) if p.result[0] == "return" else None
                ctx.check(rv == tests[-1][2], key, f"first existing candidate is {tests[-1][2]} but {rv} is returned", f.loc())
            else:
                exhausted = any(e[0] == "loop-bound" for e in p.effects) or not more or not more[-1][1]
                rv = p.result[1] if p.result[0] == "return" else None
                ctx.check(p.result[0] in ("return", "fall") and rv is None, key, f"no candidate exists but {vtext(rv)} is returned", f.loc())
    # include paths are only appended, in command-line order
    plat = repo.cls("platform", "Platform")
    writers = []
    for fn in repo.all_functions():
        for nd in fn.body_nodes():
            if isinstance(nd, ast.Call) and isinstance(nd.func, ast.Attribute) and (dotted(nd.func.value) or "").endswith("._include_paths"):
                if nd.func.attr not in ("copy", "index", "count", "__len__"):
                    writers.append((fn, nd))
            if isinstance(nd, (ast.Attribute,)) and isinstance(nd.ctx, ast.Store) and nd.attr == "_include_paths":
                writers.append((fn, nd))
    for fn, nd in writers:
        ok = (fn.key == "platform:Platform.__init__") or (fn.key == "platform:Platform.add_include_path" and isinstance(nd, ast.Call) and nd.func.attr == "append")
        ctx.check(ok, f"{fn.key}:writes:_include_paths:{u(nd)[:50]}", "the include path list may only be created empty and appended to (order = command-line order)", fn.loc(nd))
    ctx.floor(8 + 2)


@rule("C04.R2", "include memo: the key contains everything the resolution depends on")
def r2(ctx):
    repo = ctx.repo
    f = _fif(repo)
    paths = Evaluator(Hooks()).paths(f.node)
    memo = _memo_attr(paths)
    if memo is None:
        ctx.ok("platform:Platform.find_include_file:no-memo", "resolution is not memoised")
        return
    deps = [f.params[1], f.params[2], f.params[3]]
    keys = set()
    for p in paths:
        for e in p.effects:
            if e[0] == "store" and e[1].startswith(memo + "["):
                keys.add(e[1][len(memo) + 1 : -1])
        if p.result[0] == "return" and vtext(p.result[1]).startswith(memo + "["):
            keys.add(vtext(p.result[1])[len(memo) + 1 : -1])
    for k in sorted(keys):
        names = set(re.findall(r"[A-Za-z_]\w*", k))
        missing = [d for d in deps if d not in names]
        ctx.check(
            not missing,
            f"platform:Platform.find_include_file:memo-key:{k}",
            f"memo `{memo}` is keyed by ({k}) but the result also depends on {missing}: a later include of the same spelling from another directory / in the other form is answered with the wrong file",
            f.loc(),
        )
    # the memo lives on the Platform instance, created empty per platform object
    init = repo.cls("platform", "Platform").find_method("__init__")
    attr = memo.split(".", 1)[1]
    fresh = any(isinstance(s, ast.Assign) and u(s.targets[0]) == memo and isinstance(s.value, ast.Dict) and not s.value.keys for s in init.node.body)
    ctx.check(fresh, f"platform:Platform.__init__:{attr}-fresh", f"memo {memo} must be created empty for every Platform object", init.loc())
    # nobody else binds or reads the memo
    for fn in repo.all_functions():
        if fn.key in ("platform:Platform.__init__", "platform:Platform.find_include_file"):
            continue
        for nd in fn.body_nodes():
            if isinstance(nd, ast.Attribute) and nd.attr == attr:
                ctx.violation(f"{fn.key}:touches:{attr}", f"`{u(nd)}`: the include memo is private to one Platform object (one compile command); sharing or re-binding it makes resolutions of one command visible to another", fn.loc(nd))
    ctx.floor(2)


# ----------------------------------------------------------------------
class IncHooks(Hooks):
    def on_call(self, call, ftext, args, kwargs, st):
        if ftext == "isinstance":
            return Sym("ISLITERAL") if vtext(args[0]) == "self.value" and "IncludePath" in vtext(args[1]) else NOTHING
        if ftext.endswith(".find_include_file"):
            st.effect("FIND", ftext, *args, *[(k, v) for k, v in kwargs.items()])
            return Sym("FOUND")
        if ftext in ("os.path.realpath",) and args and vtext(args[0]) == "FOUND":
            st.effect("CANON")
            return Sym("FOUND")
        if ftext.endswith(".process_include"):
            st.effect("ONCE?", ftext, *args)
            return Sym("PROCESS")
        if ftext.startswith("log."):
            st.effect("WARN", ftext, *args)
            return None
        if ftext == "MacroExpander":
            return Sym("EXPANDER(" + vtext(args[0]) + ")")
        if ftext == "DirectiveParser":
            return Sym("DP(" + vtext(args[0]) + ")")
        return NOTHING


def include_paths_table(repo):
    f = repo.cls("preprocessor", "IncludeNode").find_method("evaluate_for_platform")
    if f is None:
        raise AnalysisError("anchor vanished: IncludeNode.evaluate_for_platform")
    return f, Evaluator(IncHooks()).paths(f.node)


@rule("C04.R3", "an included file is inserted and associated with the same platform and state, when found and not skipped by #pragma once")
def r3(ctx):
    f, paths = include_paths_table(ctx.repo)
    for p in paths:
        found = p.atoms.get("FOUND")
        proc = p.atoms.get("PROCESS")
        key = "preprocessor:IncludeNode.evaluate_for_platform:" + ",".join(f"{k}={int(v)}" for k, v in p.atoms.items())
        extra = [k for k in p.atoms if k not in ("FOUND", "PROCESS", "ISLITERAL")]
        ins = [e for e in p.effects if e[0] == "call" and e[1].endswith(".insert_file")]
        asc = [e for e in p.effects if e[0] == "call" and e[1].endswith(".associate")]
        if found and proc:
            ok = (
                len(ins) == 1 and len(asc) == 1 and ins[0][1] == "kwargs['state'].insert_file" and asc[0][1] == "kwargs['state'].associate"
                and vtext(ins[0][2]) == "FOUND" and vtext(asc[0][2]) == "FOUND" and vtext(asc[0][3]) == "kwargs['platform']"
                and p.effects.index(ins[0]) < p.effects.index(asc[0])
            )
            ctx.check(ok, key, f"a found, not-yet-skipped include must be inserted and then associated with the same platform object and state (macros it defines stay visible, lines attributed to this platform): {p.describe()[:300]}", f.loc())
            if ok:
                lang = vtext(ins[0][3]) if len(ins[0]) > 3 else None
                ctx.check(lang == "kwargs['state'].langs[kwargs['filename']]", key + ":language", f"included file must inherit the language of the including file, got {lang}", f.loc())
        else:
            ctx.check(not ins and not asc, key, f"include is processed although it was not found / is marked include-once: {p.describe()[:300]}", f.loc())
    ctx.floor(4)


def find_entry_table(repo):
    """Decision table of finder.find with the per-entry events made explicit (NEW_PLATFORM, FIND, WARN).
    Evaluated on the whole function, so the shape of its loops (and helpers it was split into) is immaterial.
    Returns (find, paths, E) where E denotes the first entry of the first platform of `configuration`."""
    find = repo.func("finder", "find")
    conf = find.params[2]

    class H(Hooks):
        unroll = 1

        def on_call(self, call, ftext, args, kwargs, st):
            if ftext.split(".")[-1] == "Platform":
                st.counter += 1
                st.effect("NEW_PLATFORM", *args)
                return Sym(f"PLAT{sum(1 for e in st.effects if e[0] == 'NEW_PLATFORM')}")
            if ftext.startswith("log."):
                st.effect("WARN", ftext, *args)
                return None
            if ftext.endswith(".find_include_file"):
                st.effect("FIND", ftext, *args, *[(k, v) for k, v in kwargs.items()])
                return Sym("FOUND")
            if ftext.split(".")[-1] == "macro_from_definition_string":
                return Sym("MACRO(" + vtext(args[0]) + ")")
            if ftext == "isinstance" and len(args) == 2 and vtext(args[1]) == "Path":
                return False  # the str() conversion of rootdir is not at issue here
            return NOTHING

    paths = Evaluator(H(), max_paths=6000).paths(find.node)
    E = f"{conf}[{conf}[0]][0]"
    return find, paths, E


@rule("C04.R4", "in finder.find, per database entry: a fresh Platform named after the platform; every -I in order, every -D under the macro's own name, then every -include resolved from the file's directory and associated (or warned about), then the file itself - all on that Platform")
def r4(ctx):
    repo = ctx.repo
    find, paths, ev = find_entry_table(repo)
    conf = find.params[2]
    n = 0
    for p in paths:
        effs = p.effects
        newp = [e for e in effs if e[0] == "NEW_PLATFORM"]
        n_ent = sum(1 for k, v in p.atoms.items() if k.startswith(f"more({conf}[{conf}[0]]#") and v)
        n_plat = sum(1 for k, v in p.atoms.items() if re.match(r"more\(" + re.escape(conf) + r"#L\d+,\d+\)$", k) and v)
        key = "finder:find:per-entry:" + ",".join(f"{k.split('#')[0].replace(ev, 'E')[:40]}={int(v)}" for k, v in p.atoms.items() if ev in k or k == "FOUND")
        if not newp:
            continue
        n += 1
        # events of the first entry = everything from its NEW_PLATFORM on
        i0 = effs.index(newp[0])
        effs = [e for e in effs[i0:] if e[0] != "loop-bound"]
        if len(newp) != 1:
            ctx.violation(key, f"{len(newp)} Platform objects are created for one database entry", find.loc())
            continue
        ok_name = len(newp[0]) >= 3 and vtext(newp[0][1]) == f"{conf}[0]"
        ctx.check(ok_name, key + ":platform-name", f"the entry's Platform must be named after the platform being processed ({conf}'s key): Platform({', '.join(vtext(x) for x in newp[0][1:])})", find.loc())
        state = [e[1].rsplit(".", 1)[0] for e in effs if e[0] == "call" and e[1].endswith(".associate")]
        main = [e for e in effs if e[0] == "call" and e[1].endswith(".associate") and vtext(e[2]) == f"{ev}['file']"]
        if len(main) != 1 or vtext(main[0][3]) != "PLAT1" or effs.index(main[0]) != len(effs) - 1:
            ctx.violation(key, f"the entry's file must be associated exactly once, last, with this entry's Platform: {p.describe()[-300:]}", find.loc())
            continue
        ok = True
        why = ""
        n_inc = sum(1 for k, v in p.atoms.items() if k.startswith(f"more({ev}['include_files']") and v)
        n_def = sum(1 for k, v in p.atoms.items() if k.startswith(f"more({ev}['defines']") and v)
        n_ip = sum(1 for k, v in p.atoms.items() if k.startswith(f"more({ev}['include_paths']") and v)
        defs = [e for e in effs if e[0] == "call" and e[1] == "PLAT1.define"]
        ips = [e for e in effs if e[0] == "call" and e[1] == "PLAT1.add_include_path"]
        finds = [e for e in effs if e[0] == "FIND"]
        if len(defs) != n_def or len(ips) != n_ip or len(finds) != n_inc:
            ok, why = False, f"{len(defs)} defines / {len(ips)} include paths / {len(finds)} forced-include lookups for {n_def}/{n_ip}/{n_inc} list items"
        for i, e in enumerate(ips):
            if [vtext(x) for x in e[2:]] != [f"{ev}['include_paths'][{i}]"]:
                ok, why = False, f"include paths must be handed to the platform one by one, in list order, unchanged: add_include_path({', '.join(vtext(x) for x in e[2:])})"
        for i, e in enumerate(defs):
            m = f"MACRO({ev}['defines'][{i}])"
            if [vtext(x) for x in e[2:]] != [f"{m}.name", m]:
                ok, why = False, f"every -D string must be parsed by macro_from_definition_string and defined under the macro's own name: define({', '.join(vtext(x) for x in e[2:])})"
        for e in finds:
            if e[1] != "PLAT1.find_include_file" or vtext(e[2]) != f"{ev}['include_files'][{finds.index(e)}]" or vtext(e[3]) != f"os.path.dirname({ev}['file'])" or len(e) > 4 and e[4] not in (False, ("is_system_include", False)):
                ok, why = False, f"forced include must be looked up like a quote include from the directory of the compiled file on this entry's platform: {e}"
            if any(effs.index(d) > effs.index(e) for d in defs + ips):
                ok, why = False, "a -D / -I is applied after a forced include was looked up"
        found = [v for k, v in p.atoms.items() if k == "FOUND"]
        incasc = [e for e in effs if e[0] == "call" and e[1].endswith(".associate") and e not in main]
        incins = [e for e in effs if e[0] == "call" and e[1].endswith(".insert_file")]
        warns = [e for e in effs if e[0] == "WARN" and e[1] == "log.warning"]
        if finds and found and found[0]:
            if not (len(incasc) == len(finds) and len(incins) == len(finds) and all(vtext(a[2]) == "FOUND" and vtext(a[3]) == "PLAT1" for a in incasc)):
                ok, why = False, "a found forced include must be inserted and associated with this entry's platform before the file itself"
            if warns:
                ok, why = False, "a warning is issued although the forced include was found"
        elif incasc or incins:
            ok, why = False, "forced include processed although not found"
        elif finds:
            if len(warns) != len(finds):
                ok, why = False, f"{len(finds)} forced include(s) not found but {len(warns)} warning(s): every miss must be reported once"
            else:
                for i, w in enumerate(warns):
                    t = vtext(w[2]) if len(w) > 2 else ""
                    if "{" + f"{ev}['include_files'][{i}]" + "}" not in t or "{" + f"{ev}['file']" + "}" not in t:
                        ok, why = False, f"the warning about a missing forced include must name the requested file and the compiled file: {t[:120]}"
        ctx.check(ok, key, f"{why}: {p.describe()[-400:]}", find.loc())
    if n < 3:
        raise AnalysisError(f"finder.find: per-entry idiom not recognised ({n} paths construct a Platform)")
    ctx.floor(3)


@rule("C04.R5", "#pragma once: the path recorded and the path looked up are canonicalised the same way")
def r5(ctx):
    repo = ctx.repo
    # writer: PragmaNode -> add_include_to_skip(kwargs['filename']); kwargs['filename'] is bound at the
    # visitor's evaluate_for_platform call
    pn = repo.cls("preprocessor", "PragmaNode").find_method("evaluate_for_platform")
    wcalls = [c for c in pn.calls() if isinstance(c.func, ast.Attribute) and c.func.attr == "add_include_to_skip"]
    ctx.require(len(wcalls) == 1, "PragmaNode: add_include_to_skip call not found")
    wkey = u(wcalls[0].args[0])
    from .c01 import find_visitor

    assoc, cb, _ = find_visitor(repo)
    evc = [c for c in cb.calls() if isinstance(c.func, ast.Attribute) and c.func.attr == "evaluate_for_platform"]
    ctx.require(len(evc) == 1, "visitor: evaluate_for_platform call not found")
    fn_kw = next((k.value for k in evc[0].keywords if k.arg == "filename"), None)
    if isinstance(fn_kw, ast.Name):
        # a local of the enclosing function that names the canonical path (bound once to the memoised realpath call)
        from ..decision import _enclosing_bindings

        fn_kw = _enclosing_bindings(cb).get(fn_kw.id, fn_kw)
    writer_canon = wkey == "kwargs['filename']" and fn_kw is not None and _is_canon(u(fn_kw))
    ctx.note(f"writer key {wkey} <- filename={u(fn_kw) if fn_kw is not None else None}")
    # reader
    f, paths = include_paths_table(repo)
    n = 0
    for p in paths:
        once = [e for e in p.effects if e[0] == "ONCE?"]
        for e in once:
            n += 1
            canon_before = any(x[0] == "CANON" for x in p.effects[: p.effects.index(e)])
            key = "preprocessor:IncludeNode.evaluate_for_platform:process_include-key-canonical"
            ctx.check(
                canon_before == writer_canon and vtext(e[2]) == "FOUND",
                key,
                f"#pragma once records {'the canonical (realpath)' if writer_canon else 'a non-canonical'} path of the header, but process_include() is asked with {'a canonical' if canon_before else 'the abspath (non-canonical)'} one: a header reached through a symlinked directory is processed again",
                f.loc(),
            )
    ctx.check(n >= 1, "preprocessor:IncludeNode.evaluate_for_platform:consults-once-list", "process_include() is never consulted: #pragma once has no effect", f.loc())
    # Platform side: add_include_to_skip stores exactly its argument, process_include tests membership of its argument
    plat = repo.cls("platform", "Platform")
    a = plat.find_method("add_include_to_skip")
    pr = plat.find_method("process_include")
    ev = Evaluator(Hooks())
    okw = all(
        any(e[0] == "call" and e[1] == "self._skip_includes.append" and vtext(e[2]) == a.params[1] for e in p.effects) or p.atoms.get(f"{a.params[1]} In self._skip_includes")
        for p in ev.paths(a.node)
    )
    ctx.soft(okw, "platform:Platform.add_include_to_skip:stores-argument", "must record the given path", a.loc())
    rows = ev.paths(pr.node)
    okr = all(p.result[0] == "return" and p.result[1] is (not p.atoms.get(f"{pr.params[1]} In self._skip_includes")) and len(p.atoms) == 1 for p in rows)
    ctx.check(okr, "platform:Platform.process_include:membership", f"process_include(fn) must be exactly `fn not in skip list`: {[p.describe() for p in rows]}", pr.loc())
    ctx.floor(4)


def _is_canon(text):
    return "realpath" in text or "_get_realpath" in text


@rule("C04.R6", "form detection and argument provenance at the resolver call")
def r6(ctx):
    repo = ctx.repo
    f, paths = include_paths_table(repo)
    for p in paths:
        lit = p.atoms.get("ISLITERAL")
        finds = [e for e in p.effects if e[0] == "FIND"]
        key = f"preprocessor:IncludeNode.evaluate_for_platform:resolver-args:literal={lit}"
        if len(finds) != 1:
            ctx.violation(key, f"resolver called {len(finds)} times on path {p.describe()[:200]}", f.loc())
            continue
        e = finds[0]
        args = list(e[2:])
        # bind by position or keyword
        fif = _fif(repo)
        names = fif.params[1:]
        bound = {}
        pos = 0
        for a in args:
            if isinstance(a, tuple) and len(a) == 2 and isinstance(a[0], str) and a[0] in names:
                bound[a[0]] = a[1]
            else:
                bound[names[pos]] = a
                pos += 1
        if lit is None:
            ctx.violation(key, "literal and computed includes are not distinguished", f.loc())
            continue
        if lit:
            want = {"filename": "self.value.path", "this_path": "os.path.dirname(kwargs['filename'])", "is_system_include": "self.value.system"}
        else:
            dp = "DP(EXPANDER(kwargs['platform']).expand(self.value)).include_path()"
            want = {"filename": dp + ".path", "this_path": "os.path.dirname(kwargs['filename'])", "is_system_include": dp + ".system"}
        got = {k: vtext(v) for k, v in bound.items()}
        ok = e[1] == "kwargs['platform'].find_include_file" and all(got.get(k) == v for k, v in want.items())
        ctx.check(ok, key, f"find_include_file must receive (spelled path, directory of the INCLUDING file, <>-flag of this directive) on the visiting platform; got {got}", f.loc())
    # include_path(): <...> -> system=True, "..." -> system=False
    ip = repo.cls("preprocessor", "DirectiveParser").find_method("include_path")
    rets = [n.value for n in walk_no_nested(ip.node) if isinstance(n, ast.Return) and isinstance(n.value, ast.Call)]
    forms = {}
    for r in rets:
        sysarg = next((k.value for k in r.keywords if k.arg == "system"), r.args[1] if len(r.args) > 1 else None)
        # which try block?
        for t in [n for n in walk_no_nested(ip.node) if isinstance(n, ast.Try)]:
            if any(x is r for x in ast.walk(t)):
                txt = u(t)
                pcs = [c for c in ast.walk(t) if isinstance(c, ast.Call) and callee(c) == "self.__path"]
                pvals = [u(a) for c in pcs for a in c.args] + [u(k.value) for c in pcs for k in c.keywords]
                form = "angle" if ("Operator, '<', '>'" in txt or sorted(pvals) == sorted(["Operator", "'<'", "'>'"])) else "quote" if "StringConstant" in txt else "?"
                forms[form] = u(sysarg)
    ctx.check(forms == {"angle": "True", "quote": "False"}, "preprocessor:DirectiveParser.include_path:forms", f"<...> must give system=True and \"...\" system=False: {forms}", ip.loc())
    # find_include_file default and quote/system split is in R1
    ctx.floor(3)


@rule("C04.R7", "search classes: -I directories are searched before -isystem directories")
def r7(ctx):
    repo = ctx.repo
    pa = repo.cls("config", "ArgumentParser").find_method("parse_args")
    for c in add_argument_calls(pa.node):
        flags = [a.value for a in c.args if isinstance(a, ast.Constant)]
        if "-I" in flags and "-isystem" in flags:
            ctx.violation(
                "config:ArgumentParser.parse_args:-I,-isystem:one-list",
                "-I and -isystem feed one list in command-line order; a compiler searches every -I directory before any -isystem directory (`-isystem sys -I inc` with h.h in both: gcc takes inc/h.h, CBI sys/h.h)",
                pa.loc(c),
            )
            return
    ctx.ok("config:ArgumentParser.parse_args:-I,-isystem:separate")
