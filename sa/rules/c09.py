"""C09 - code-base membership: guard chain of CodeBase.__contains__, enumeration,
extension table.  gitignore semantics are delegated to pathspec.GitIgnoreSpec
(trusted)."""

from __future__ import annotations

import ast
import re

from ..decision import NOTHING, Evaluator, Hooks, Sym
from ..decision import vtext as _vtext
from ..model import AnalysisError, callee, dotted, u, walk_no_nested
from ..run import rule


def vtext(v):
    return re.sub(r"@\d+", "", _vtext(v))


class ContainsHooks(Hooks):
    unroll = 2

    def on_call(self, call, ftext, args, kwargs, st):
        if ftext == "Path" and len(args) == 1:
            return Sym(f"Path({vtext(args[0])})")
        return NOTHING


def contains_table(repo):
    cb = repo.cls("__init__", "CodeBase")
    f = cb.find_method("__contains__")
    if f is None:
        raise AnalysisError("anchor vanished: CodeBase.__contains__")
    return cb, f, Evaluator(ContainsHooks()).paths(f.node)


@rule("C09.R1", "membership = exists and not dir and source extension and under a code-base directory and not excluded, decided on the resolved path")
def r1(ctx):
    repo = ctx.repo
    cb, f, paths = contains_table(repo)
    p0 = f.params[1]
    R = f"Path({p0}).resolve()"
    A_EX, A_DIR = f"{R}.exists()", f"{R}.is_dir()"
    A_SRC = f"codebasin.source.is_source_file({R})"
    rel_re = re.compile(re.escape(R) + r"\.is_relative_to\(self\.directories\[(\d+)\]\)$")
    match_re = re.compile(r"pathspec\.GitIgnoreSpec\.from_lines\(self\.exclude_patterns\)\.match_file\(" + re.escape(R) + r"\.relative_to\(self\.directories\[(\d+)\]\)\)$")
    ctx.note(f"{f.key}: {len(paths)} paths")
    n = 0
    for p in paths:
        atoms = p.atoms
        key = "__init__:CodeBase.__contains__:" + ",".join(f"{_short(k, R)}={int(v)}" for k, v in atoms.items())
        ex = atoms.get(A_EX)
        isdir = atoms.get(A_DIR)
        src = atoms.get(A_SRC)
        rels = {}
        match = None
        unknown = []
        infeasible = False
        rootidx = None
        for k, v in atoms.items():
            if k in (A_EX, A_DIR, A_SRC):
                continue
            m = rel_re.match(k)
            if m:
                rels[int(m.group(1))] = v
                continue
            m = match_re.match(k)
            if m:
                match = v
                rootidx = int(m.group(1))
                continue
            if k.startswith("more("):
                continue
            if k.startswith("raises(") and "relative_to" in k:
                # path.relative_to(root) cannot raise once is_relative_to(root) held
                if v:
                    infeasible = True
                continue
            if k.startswith("None Eq self.directories["):
                # `root is None` after the search loop; root is a directory string, never None
                if v:
                    infeasible = True
                continue
            unknown.append(k)
        if infeasible:
            continue
        n += 1
        if unknown:
            ctx.violation(key, f"membership depends on {unknown}; expected only: resolve(), exists(), is_dir(), is_source_file(), is_relative_to(<code-base directory>), GitIgnoreSpec(exclude_patterns).match_file(<path relative to that directory>)", f.loc())
            continue
        res = p.result[1] if p.result[0] == "return" else None
        if not isinstance(res, bool):
            ctx.violation(key, f"does not return a bool: {p.describe()[:200]}", f.loc())
            continue
        first_rel = next((i for i in sorted(rels) if rels[i]), None)
        if res:
            ok = ex is True and isdir is False and src is True and first_rel is not None and match is False and rootidx == first_rel
            ctx.check(ok, key, f"path is accepted without all of: exists, not a directory, source extension, under a code-base directory, not matched by the exclude patterns relative to THAT directory  [{p.describe()[:300]}]", f.loc())
        else:
            falsified = (ex is False) or (isdir is True) or (src is False) or (first_rel is None and (not rels or all(not v for v in rels.values()))) or (match is True and rootidx == first_rel)
            if first_rel is None and rels and any(e[0] == "loop-bound" for e in p.effects):
                falsified = True
            ctx.check(bool(falsified), key, f"path is rejected although every membership condition examined holds  [{p.describe()[:300]}]", f.loc())
    ctx.floor(8)


def _short(k, R):
    return k.replace(R, "P").replace("pathspec.GitIgnoreSpec.from_lines(self.exclude_patterns)", "SPEC").replace("codebasin.source.", "")[:70]


@rule("C09.R2", "enumeration yields exactly the members: every directory walked recursively, every candidate filtered through __contains__")
def r2(ctx):
    repo = ctx.repo
    cb = repo.cls("__init__", "CodeBase")
    f = cb.find_method("__iter__")
    ctx.require(f is not None, "CodeBase.__iter__ missing")

    class H(Hooks):
        unroll = 1

        def on_call(self, call, ftext, args, kwargs, st):
            if ftext == "sorted" and len(args) == 1:
                return args[0]
            if ftext == "Path" and len(args) == 1:
                return Sym(f"Path({vtext(args[0])})")
            if ftext == "self.__contains__":
                return Sym(f"MEMBER({vtext(args[0])})")
            return NOTHING

        def resolve(self, expr, st):
            if isinstance(expr, ast.Compare) and len(expr.ops) == 1 and isinstance(expr.ops[0], ast.In) and u(expr.comparators[0]) == "self":
                return NOTHING
            return NOTHING

    paths = Evaluator(H()).paths(f.node)
    saw_yield = False
    for p in paths:
        key = "__init__:CodeBase.__iter__:" + ",".join(f"{k[:60]}={int(v)}" for k, v in p.atoms.items())
        ys = [e for e in p.effects if e[0] == "yield"]
        members = {k: v for k, v in p.atoms.items() if k.startswith("MEMBER(") or " In self" in k}
        others = [k for k in p.atoms if not k.startswith("more(") and k not in members]
        if others:
            ctx.violation(key, f"enumeration filters candidates by {others} instead of (only) by membership (`self.__contains__`): enumeration and membership can disagree (e.g. for symlinks, which membership resolves first)", f.loc())
            continue
        for e in ys:
            saw_yield = True
            yv = vtext(e[1])
            m = re.match(r"str\((.*)\)$", yv)
            cand = m.group(1) if m else yv
            is_member = members.get(f"MEMBER({cand})", members.get(f"{cand} In self"))
            ok = is_member is True and re.match(r"Path\(self\.directories\[\d+\]\)\.rglob\('\*'\)\[\d+\]$", cand) is not None
            ctx.check(ok, key + ":yield", f"yields {yv}: every yielded path must come from a recursive walk (rglob('*')) of a code-base directory and have passed __contains__", f.loc())
        n_cand = sum(1 for k, v in p.atoms.items() if k.startswith("more(Path(") and v)
        n_yes = sum(1 for v in members.values() if v)
        ctx.check(len(ys) == n_yes, key, f"{len(ys)} paths yielded for {n_yes} members among {n_cand} candidates", f.loc())
    ctx.check(saw_yield, "__init__:CodeBase.__iter__:yields", "no yield found on any path", f.loc())
    # directories are resolved at construction
    init = cb.find_method("__init__")
    # decision tables: the directories are stored resolved, and the property hands out exactly those (as text):
    # membership compares the RESOLVED candidate lexically against them
    from ..spec import tab as _tab, vt as _vt

    dirp = init.node.args.vararg.arg if init.node.args.vararg is not None else init.params[1]
    n_i = 0
    for p in _tab(init, unroll=1):
        st_ = {_vt(e[1]): _vt(e[2]) for e in p.effects if e[0] == "store"}
        if "self._directories" not in st_:
            continue
        n_i += 1
        got = st_["self._directories"]
        ok = re.fullmatch(r"comp:\[(pathlib\.)?Path\(_c0\)\.resolve\(\) for _c0 in " + re.escape(dirp) + r"\]", got) is not None or got in (f"comp:[Path(os.path.realpath(_c0)) for _c0 in {dirp}]",)
        ctx.check(ok, "__init__:CodeBase.__init__:directories-resolved", f"the code-base directories must be stored RESOLVED (symlinks and `..` removed), because membership resolves the candidate and compares lexically: stored as `{got[:100]}`", init.loc())
    if not n_i:
        raise AnalysisError("CodeBase.__init__: no path stores self._directories")
    d = cb.find_method("directories")
    if d is None:
        raise AnalysisError("CodeBase.directories missing")
    for p in _tab(d, unroll=1):
        res = _vt(p.result[1]) if p.result[0] == "return" else ""
        ok = res in ("comp:[str(_c0) for _c0 in self._directories]", "comp:[os.fspath(_c0) for _c0 in self._directories]", "list(map(str, self._directories))")
        ctx.check(ok, "__init__:CodeBase.directories", f"the directories property must hand out the stored (resolved) directories as text: returns `{res[:100]}`", d.loc())
    ctx.floor(4)


@rule("C09.R3", "is_source_file tests the path's suffix against the extension table")
def r3(ctx):
    repo = ctx.repo
    f = repo.func("source", "is_source_file")
    # decision table (helpers of codebasin.util interpreted in place): a name is a source file iff its LAST suffix
    # (Path(name).suffix / os.path.splitext(name)[1]) is in the extension table
    util = repo.mod("util")

    class H(Hooks):
        unroll = 1

        def inline(self, call, ftext, st):
            name = ftext.rsplit(".", 1)[-1]
            if ftext in (f"util.{name}", f"codebasin.util.{name}") and name in util.functions:
                return util.functions[name].node
            return None

    p0 = f.params[0]
    LAST = (f"Path({p0}).suffix", f"os.path.splitext({p0})[1]", f"os.path.splitext(str({p0}))[1]", f"pathlib.Path({p0}).suffix")
    n_t = n_f = 0
    for p in Evaluator(H()).paths(f.node):
        if p.result[0] == "raise" and "TypeError" in str(p.result[1]):
            continue
        tests = {k: v for k, v in p.atoms.items() if (" In " in k or " Eq " in k) and not k.startswith("raises(")}
        subj = set()
        for k in tests:
            k2 = k
            subj.add(k2.split(" In ", 1)[0] if " In " in k2 else next((x for x in k2.split(" Eq ") if not (x.startswith("'") or x.startswith('"'))), k2))
        key = "source:is_source_file:suffix-in-table:" + ",".join(f"{int(v)}" for v in tests.values())
        if not tests and p.result[0] == "return":
            rt_ = vtext(p.result[1])
            m_ = re.fullmatch(r"(.+)\.endswith\((.+)\)", rt_)
            if m_ and p0 in m_.group(1):
                ctx.violation("source:is_source_file:suffix-in-table:endswith", f"the name is tested with `{m_.group(1)[-40:]}.endswith(<extensions>)` instead of looking its last suffix up in the table: a file whose whole name is an extension (`.inc`, `.h`: hidden files, suffix '') becomes a source file, and FileLanguage - which goes by the suffix - knows no language for it", f.loc())
                n_t += 1
                n_f += 1
                continue
        if not tests:
            raise AnalysisError(f"is_source_file: no membership test on a path: {p.describe()[:160]}")
        bad = sorted(x for x in subj if x not in LAST)
        if bad:
            if any(p0 in x for x in bad):
                ctx.violation(key, f"membership is decided on `{bad[0][:80]}`, not on the last suffix of the name (`{LAST[0]}`): names with more than one dot (`msg.pb.cc`, `solver.cuda.cu`) or other spellings are classified differently from FileLanguage and from every compiler", f.loc())
                continue
            raise AnalysisError(f"is_source_file: test not recognised: {bad}")
        member = any(tests.values())
        res = p.result[1] if p.result[0] == "return" else None
        if isinstance(res, bool):
            ok = res is member
        else:
            ok = vtext(res) in list(tests)  # the membership test itself is returned
        n_t += member
        n_f += not member
        ctx.check(ok, key, f"must return whether the suffix is in the table: {p.describe()[:200]}", f.loc())
    if not (n_t and n_f):
        raise AnalysisError(f"is_source_file: idiom not recognised (member paths {n_t}, non-member paths {n_f})")
    from .c17 import language_tables

    exts, ext_lang, served = language_tables(repo)
    ctx.check(len(set(exts)) == len(exts), "source:is_source_file:table-unique", "duplicate extension in table", f.loc())
    for e in exts:
        ctx.check(e in ext_lang, f"source:is_source_file:{e}:has-language", f"extension {e} accepted as source but unknown to FileLanguage", f.loc())
    ctx.floor(20)
