"""C13 - compilation-database entries resolve to the right files and directories."""

from __future__ import annotations

import ast
import importlib
import inspect

from ..callgraph import CallGraph
from ..cfg import cfg_of
from ..flow import loop_carried, provenance, stmt_of
from ..model import AnalysisError, callee, dotted, u, walk_no_nested
from ..run import rule

STDLIB = {"os", "os.path", "shlex", "json", "re", "hashlib", "itertools", "string", "collections", "pkgutil", "tomllib", "logging", "filecmp", "pathlib", "copy", "math", "sys", "warnings", "importlib.metadata"}


def _entry_loop(repo):
    ld = repo.func("config", "load_database")
    loops = [n for n in walk_no_nested(ld.node) if isinstance(n, ast.For) and u(n.iter) == "db"]
    if len(loops) != 1:
        raise AnalysisError("load_database: `for command in db` loop not found")
    return ld, loops[0]


@rule("C13.R1", "calls of standard-library functions bind to their signatures (whole package)")
def r1(ctx):
    repo = ctx.repo
    n = 0
    for f in repo.all_functions():
        m = f.module
        for c in f.calls():
            d = dotted(c.func)
            if not d or "." not in d:
                continue
            head, _, rest = d.partition(".")
            if head not in m.imports:
                continue
            target = m.imports[head]
            modname = target
            attr_path = rest.split(".")
            # resolve longest importable stdlib module
            obj = None
            try:
                if target.split(".")[0] not in {s.split(".")[0] for s in STDLIB}:
                    continue
                obj = importlib.import_module(target)
                for a in attr_path:
                    obj = getattr(obj, a)
            except Exception:
                continue
            if not callable(obj) or inspect.isclass(obj):
                continue
            try:
                sig = inspect.signature(obj)
            except (TypeError, ValueError):
                continue
            if any(isinstance(a, ast.Starred) for a in c.args) or any(k.arg is None for k in c.keywords):
                continue
            n += 1
            try:
                sig.bind(*[None] * len(c.args), **{k.arg: None for k in c.keywords})
                ctx.ok(f"{f.key}:stdlib-call:{d}:{len(c.args)}+{len(c.keywords)}")
            except TypeError as e:
                ctx.violation(f"{f.key}:stdlib-call:{u(c)[:70]}", f"`{u(c)[:90]}` does not match the signature {d}{sig}: {e} (TypeError at run time)", f.loc(c))
    ctx.stats["stdlib_calls_checked"] = n
    ctx.floor(60)


@rule("C13.R2", "file and include directories are resolved against the entry's own directory, computed afresh for every entry")
def r2(ctx):
    repo = ctx.repo
    ld, loop = _entry_loop(repo)
    cmd = u(loop.target)
    root = ld.params[1]
    # nothing but the result list is carried from one entry to the next
    carried, cfg = loop_carried(ld, loop)
    for name, pairs in sorted(carried.items()):
        if name == "configuration":
            continue
        d, use = pairs[0]
        ctx.violation(
            f"config:load_database:loop-carried:{name}",
            f"`{name}` assigned at `{u(cfg.nodes[d].ast)[:60]}` for one entry is still in effect at `{u(cfg.nodes[use].ast)[:60]}` for a later entry: an entry without its own value inherits the previous entry's",
            ld.loc(cfg.nodes[use].ast),
        )
    ctx.ok("config:load_database:loop-carried:only-result-list")
    # the directory base
    joins = [c for c in ast.walk(loop) if isinstance(c, ast.Call) and callee(c) == "os.path.join"]
    file_join = [c for c in joins if any(f"{cmd}.filename" in u(a) for a in c.args)]
    inc_join = [c for c in joins if c not in file_join and not any(f"{cmd}.directory" in u(a) for a in c.args)]
    dir_join = [c for c in joins if any(f"{cmd}.directory" in u(a) for a in c.args)]
    ctx.check(len(file_join) == 1, "config:load_database:file-join", f"expected one os.path.join(<dir>, {cmd}.filename)", ld.loc(loop))
    allowed_leaves = {root, f"{cmd}.directory"}

    def base_ok(call, what):
        base = call.args[0]
        st = stmt_of(ld, call)
        leaves = provenance(ld, base, st)
        texts = {u(l) for l, c in leaves}
        chains = [c for _, c in leaves]
        bad = texts - allowed_leaves
        key = f"config:load_database:{what}-base"
        ctx.check(
            not bad and bool(texts),
            key,
            f"`{u(call)[:70]}`: the base directory is derived from {sorted(texts)}; it must be the entry's `directory` (absolute, or relative to the root) or the root when there is none - the directory a compiler started by this entry would run in",
            ld.loc(call),
        )
        return texts

    if file_join:
        base_ok(file_join[0], "file")
    ctx.check(len(inc_join) == 1, "config:load_database:include-join", "expected one os.path.join(<dir>, <include path>) for relative include directories", ld.loc(loop))
    if inc_join and file_join:
        base_ok(inc_join[0], "include-path")
        ctx.check(u(inc_join[0].args[0]) == u(file_join[0].args[0]), "config:load_database:same-base", f"relative include paths are joined to `{u(inc_join[0].args[0])}` but the file to `{u(file_join[0].args[0])}`: both are relative to the same working directory", ld.loc(inc_join[0]))
    # relative `directory` is joined to the root
    ctx.check(len(dir_join) == 1 and [u(a) for a in dir_join[0].args] == [root, f"{cmd}.directory"], "config:load_database:relative-directory", "a relative `directory` must be joined to the analysis root", ld.loc(loop))
    # absolute file names bypass the join
    iff = [s for s in loop.body if isinstance(s, ast.If) and u(s.test) == f"os.path.isabs({cmd}.filename)"]
    ok = len(iff) == 1 and u(iff[0].body[0]) == f"path = os.path.abspath({cmd}.filename)" and file_join and any(x is file_join[0] for x in ast.walk(iff[0]))
    ctx.check(ok, "config:load_database:absolute-file", "an absolute `file` must be used as is, a relative one joined to the entry's directory", ld.loc(loop))
    # entry["file"] = path ; include_paths rewritten from the parsed list
    st = [s for s in ast.walk(loop) if isinstance(s, ast.Assign) and u(s.targets[0]) == "entry['file']"]
    ctx.check(len(st) == 1 and u(st[0].value) == "path", "config:load_database:entry-file", "entry['file'] must be the resolved path", ld.loc(loop))
    st = [s for s in ast.walk(loop) if isinstance(s, ast.Assign) and u(s.targets[0]) == "entry['include_paths']"]
    ok = len(st) == 1 and isinstance(st[0].value, ast.ListComp) and u(st[0].value.generators[0].iter) == "entry['include_paths']" and not st[0].value.generators[0].ifs and u(st[0].value.elt).startswith("os.path.abspath(os.path.join(")
    ctx.check(ok, "config:load_database:entry-include-paths", "every parsed include path must be kept, in order, made absolute", ld.loc(loop))
    ctx.floor(9)


@rule("C13.R3", "every skipped database entry is reported with a warning")
def r3(ctx):
    repo = ctx.repo
    ld, loop = _entry_loop(repo)
    cfg = cfg_of(ld)
    header = cfg.node_of(loop)
    n = 0
    for s in ast.walk(loop):
        if isinstance(s, ast.Continue):
            nid = cfg.node_of(s)
            # only continues of the entry loop itself
            if cfg.nodes[nid].loops[-1:] != (header,):
                continue
            n += 1
            blk = _block_of(loop, s)
            i = blk.index(s)
            warned = any(isinstance(x, ast.Expr) and isinstance(x.value, ast.Call) and u(x.value.func) in ("log.warning", "log.error") for x in blk[:i])
            cond = _enclosing_test(loop, s)
            ctx.check(warned, f"config:load_database:skip:{cond}", f"an entry is skipped when `{cond}` without any warning: the user cannot tell that part of the database was ignored", ld.loc(s))
    ctx.floor(2)


def _block_of(root, stmt):
    for n in ast.walk(root):
        for fld in ("body", "orelse", "finalbody"):
            b = getattr(n, fld, None)
            if isinstance(b, list) and stmt in b:
                return b
    raise AnalysisError("statement block not found")


def _enclosing_test(root, stmt):
    for n in ast.walk(root):
        if isinstance(n, ast.If) and stmt in n.body:
            return u(n.test)
    return "?"


@rule("C13.R4", "supported = non-empty command and source extension; missing files are skipped before an entry is created; the database is schema-validated")
def r4(ctx):
    repo = ctx.repo
    from ..decision import Evaluator, Hooks, vtext

    cc = repo.cls("__init__", "CompileCommand")
    sup = cc.find_method("is_supported")
    paths = Evaluator(Hooks()).paths(sup.node)
    A1 = "(len(self.arguments) Gt 0)"
    for p in paths:
        key = "__init__:CompileCommand.is_supported:" + ",".join(f"{k[:50]}={int(v)}" for k, v in p.atoms.items())
        ne = src = None
        extra = []
        for k, v in p.atoms.items():
            if "len(self.arguments)" in k and (" Gt 0" in k or "0 Lt" in k):
                ne = v
            elif k == "self.arguments":
                ne = v
            elif k == "codebasin.source.is_source_file(self.filename)":
                src = v
            else:
                extra.append(k)
        res = p.result[1] if p.result[0] == "return" else None
        if extra or not isinstance(res, bool):
            ctx.violation(key, f"is_supported depends on {extra} / returns {res!r}: {p.describe()}", sup.loc())
            continue
        want = (ne is True) and (src is True)
        decided = (ne is False) or (src is False) or want
        ctx.check(decided and res is want, key, f"must be True iff the command is non-empty and the file has a source extension: {p.describe()}", sup.loc())
    ld, loop = _entry_loop(repo)
    cfg = cfg_of(ld)
    # exists test dominates entry creation
    ex = [s for s in loop.body if isinstance(s, ast.If) and u(s.test) == "not os.path.exists(path)"]
    ok = len(ex) == 1 and isinstance(ex[0].body[-1], ast.Continue)
    ctx.check(ok, "config:load_database:missing-file-skipped", "an entry whose file does not exist must be skipped", ld.loc(loop))
    if ok:
        ent = [s for s in ast.walk(loop) if isinstance(s, ast.AugAssign) and u(s.target) == "configuration"]
        dom = all(cfg.dominates(cfg.node_of(ex[0]), cfg.node_of(e)) for e in ent) and bool(ent)
        ctx.check(dom, "config:load_database:exists-dominates-entry", "the existence test must precede every entry creation", ld.loc(loop))
    first = loop.body[0]
    ok = isinstance(first, ast.If) and u(first.test) == f"not {u(loop.target)}.is_supported()" and isinstance(first.body[-1], ast.Continue)
    ctx.check(ok, "config:load_database:unsupported-skipped-first", "unsupported commands must be skipped before anything is resolved", ld.loc(first))
    # schema validation
    fj = cc.module.classes["CompilationDatabase"].find_method("from_json")
    ok = any(u(c.func) == "codebasin.util._validate_json" and u(c.args[1]) == "'compiledb'" for c in fj.calls())
    ctx.check(ok, "__init__:CompilationDatabase.from_json:validated", "the database must be validated against the compilation-database schema", fj.loc())
    ff = cc.module.classes["CompilationDatabase"].find_method("from_file")
    ok = any(u(c.func) == "codebasin.util._load_json" for c in ff.calls())
    ctx.check(ok, "__init__:CompilationDatabase.from_file:validated", "from_file must load through the validating loader", ff.loc())
    vj = repo.func("util", "_validate_json")
    ok = "jsonschema.validate(instance=json_object, schema=schema)" in u(vj.node) and "'compiledb': 'schema/compilation-database.schema'" in u(vj.node)
    ctx.check(ok, "util:_validate_json:validates", "_validate_json must validate against the named schema", vj.loc())
    ctx.floor(3 + 6)


@rule("C13.R5", "only files named by database entries, and what they include, are associated with a platform")
def r5(ctx):
    repo = ctx.repo
    cg = CallGraph(repo)
    sites = cg.callers_of("finder:ParserState.associate")
    allowed = {
        ("finder:find", "e['file']"): "the entry's file",
        ("finder:find", "include_file"): "a forced include resolved by find_include_file",
        ("preprocessor:IncludeNode.evaluate_for_platform", "include_file"): "an #include resolved by find_include_file",
    }
    for f, call in sites:
        a0 = u(call.args[0]) if call.args else "?"
        key = f"{f.key}:associate({a0})"
        if (f.key, a0) not in allowed:
            ctx.violation(key, f"`{u(call)[:70]}`: files may only be associated when a database entry names them or something reached from one includes them", f.loc(call))
            continue
        if a0 == "include_file":
            leaves = provenance(f, call.args[0], stmt_of(f, call))
            chains = [c for _, c in leaves]
            ok = any(any("find_include_file" in x for x in c) for c in chains)
            ctx.check(ok, key, "the included file must come from find_include_file", f.loc(call))
        else:
            ctx.ok(key)
    ctx.floor(3)


@rule("C13.R6", "an empty command (either form) is an unsupported entry, never an exception (= C11.R4)")
def r6(ctx):
    from .c11 import r4 as c11r4

    c11r4(ctx)


# ----------------------------------------------------------------------
ACCEPT = [
    [],
    [{"file": "a.c", "command": "gcc -c a.c"}],
    [{"file": "a.c", "command": ""}],
    [{"file": "a.c", "arguments": []}],
    [{"file": "a.c", "arguments": ["gcc", "-c", "a.c"]}],
    [{"file": "a.c", "directory": "build", "arguments": ["gcc", "-DGREETING=hello world", "-I", "third party/include", "-include", "my config.h", "", "-DX=\"q\""], "output": "a.o"}],
    [{"file": "sub dir/a b.c", "directory": "/abs/build dir", "command": "gcc -DX='a b' -c \"sub dir/a b.c\""}],
    [{"file": "a.c", "command": "gcc -c a.c", "arguments": ["gcc", "-c", "a.c"]}],
    [{"file": "a.c", "command": "x"}, {"file": "a.c", "command": "x"}],
]
REJECT = [
    {"file": "a.c"},
    [{"file": "a.c"}],
    [{"file": 1, "command": "x"}],
    [{"file": "a.c", "arguments": "gcc -c a.c"}],
    [{"file": "a.c", "arguments": [1, 2]}],
    [{"file": "a.c", "command": ["gcc"]}],
    ["gcc -c a.c"],
]


@rule("C13.R7", "the compilation-database schema accepts every legal entry form (both command forms, empty commands, arguments with spaces) and rejects malformed ones")
def r7(ctx):
    import json as _json

    repo = ctx.repo
    schema = repo.json("schema/compilation-database.schema")
    try:
        import jsonschema
    except Exception as e:  # pragma: no cover
        raise AnalysisError(f"jsonschema unavailable: {e}")
    loc = "codebasin/schema/compilation-database.schema"
    try:
        jsonschema.Draft202012Validator.check_schema(schema)
    except Exception as e:
        ctx.violation("schema:compilation-database:well-formed", f"not a valid JSON schema: {e}", loc)
        return
    for inst in ACCEPT:
        key = "schema:compilation-database:accepts:" + _json.dumps(inst)[:70]
        try:
            jsonschema.validate(instance=inst, schema=schema)
            ctx.ok(key)
        except jsonschema.exceptions.ValidationError as e:
            ctx.violation(key, f"a legal compilation database is rejected ({e.message[:100]}): loading raises ValueError and the whole analysis aborts instead of the entry being used / skipped with a warning", loc)
    for inst in REJECT:
        key = "schema:compilation-database:rejects:" + _json.dumps(inst)[:70]
        try:
            jsonschema.validate(instance=inst, schema=schema)
            ctx.violation(key, "a malformed compilation database passes validation", loc)
        except jsonschema.exceptions.ValidationError:
            ctx.ok(key)
    # one CompileCommand per JSON entry, in order
    fj = repo.cls("__init__", "CompilationDatabase").find_method("from_json")
    t = u(fj.node)
    ok = "commands = [CompileCommand.from_json(c) for c in instance]" in t and "return cls(commands)" in t
    ctx.check(ok, "__init__:CompilationDatabase.from_json:one-command-per-entry", "every entry of the database must become a CompileCommand, in order (no merging, no de-duplication)", fj.loc())
    it = repo.cls("__init__", "CompilationDatabase").find_method("__iter__")
    ctx.check("yield from self.commands" in u(it.node), "__init__:CompilationDatabase.__iter__", "iteration must yield every command", it.loc())
    cj = repo.cls("__init__", "CompileCommand").find_method("from_json")
    t = u(cj.node)
    ok = all(x in t for x in ("instance['file']", "instance.get('directory', None)", "instance.get('arguments', None)", "instance.get('command', None)"))
    ctx.check(ok, "__init__:CompileCommand.from_json:fields", "file / directory / arguments / command must be taken from the entry unchanged", cj.loc())
    # compiler identified by argv[0] only
    ld = repo.func("config", "load_database")
    ap = [c for c in ld.calls() if callee(c) == "ArgumentParser"]
    ok = len(ap) == 1
    if ok:
        leaves = provenance(ld, ap[0].args[0], stmt_of(ld, ap[0]))
        chains = [c for _, c in leaves]
        texts = {u(l) for l, _ in leaves}
        ok = texts == {"command.arguments[0]", "command.arguments"} or texts == {"command.arguments[0]"} or ("command.arguments[0]" in texts and all(set(c) <= {"os.path.basename", "<subscript>"} for c in chains))
        ok = ok and all(set(c) <= {"os.path.basename", "<subscript>"} for c in chains)
    ctx.check(ok, "config:load_database:compiler-from-argv0", "the compiler must be looked up by argv[0] (its base name) exactly - stripping suffixes or otherwise rewriting the name loses aliases and definitions of compilers such as gcc-12.2", ld.loc())
    ctx.floor(len(ACCEPT) + len(REJECT) + 3)
