"""C13 - compilation-database entries resolve to the right files and directories."""

from __future__ import annotations

import ast
import re
import importlib
import inspect

from ..callgraph import CallGraph
from ..cfg import cfg_of
from ..flow import loop_carried, provenance, stmt_of
from ..model import AnalysisError, callee, dotted, u, walk_no_nested
from ..run import rule

STDLIB = {"os", "os.path", "shlex", "json", "re", "hashlib", "itertools", "string", "collections", "pkgutil", "tomllib", "logging", "filecmp", "pathlib", "copy", "math", "sys", "warnings", "importlib.metadata"}


def _entry_loop(repo):
    ld = repo.func("config", "load_database")
    loops = [n for n in walk_no_nested(ld.node) if isinstance(n, ast.For) and u(n.iter) == "db"]
    if len(loops) != 1:
        raise AnalysisError("load_database: `for command in db` loop not found")
    return ld, loops[0]


@rule("C13.R1", "calls of standard-library functions bind to their signatures (whole package)")
def r1(ctx):
    repo = ctx.repo
    n = 0
    for f in repo.all_functions():
        m = f.module
        for c in f.calls():
            d = dotted(c.func)
            if not d or "." not in d:
                continue
            head, _, rest = d.partition(".")
            if head not in m.imports:
                continue
            target = m.imports[head]
            modname = target
            attr_path = rest.split(".")
            # resolve longest importable stdlib module
            obj = None
            try:
                if target.split(".")[0] not in {s.split(".")[0] for s in STDLIB}:
                    continue
                obj = importlib.import_module(target)
                for a in attr_path:
                    obj = getattr(obj, a)
            except Exception:
                continue
            if not callable(obj) or inspect.isclass(obj):
                continue
            try:
                sig = inspect.signature(obj)
            except (TypeError, ValueError):
                continue
            if any(isinstance(a, ast.Starred) for a in c.args) or any(k.arg is None for k in c.keywords):
                continue
            n += 1
            try:
                sig.bind(*[None] * len(c.args), **{k.arg: None for k in c.keywords})
                ctx.ok(f"{f.key}:stdlib-call:{d}:{len(c.args)}+{len(c.keywords)}")
            except TypeError as e:
                ctx.violation(f"{f.key}:stdlib-call:{u(c)[:70]}", f"`{u(c)[:90]}` does not match the signature {d}{sig}: {e} (TypeError at run time)", f.loc(c))
    ctx.stats["stdlib_calls_checked"] = n
    ctx.floor(60)


@rule("C13.R2", "file and include directories are resolved against the entry's own directory, computed afresh for every entry")
def r2(ctx):
    repo = ctx.repo
    ld, loop = _entry_loop(repo)
    cmd = u(loop.target)
    root = ld.params[1]
    # nothing but the result list is carried from one entry to the next
    carried, cfg = loop_carried(ld, loop)
    for name, pairs in sorted(carried.items()):
        if name == "configuration":
            continue
        d, use = pairs[0]
        ctx.violation(
            f"config:load_database:loop-carried:{name}",
            f"`{name}` assigned at `{u(cfg.nodes[d].ast)[:60]}` for one entry is still in effect at `{u(cfg.nodes[use].ast)[:60]}` for a later entry: an entry without its own value inherits the previous entry's",
            ld.loc(cfg.nodes[use].ast),
        )
    ctx.ok("config:load_database:loop-carried:only-result-list")
    # ... and nothing but the result list from one compiler pass of an entry to the next
    for inner in [n for n in ast.walk(loop) if isinstance(n, ast.For) and n is not loop and any(isinstance(x, ast.Name) and x.id == "configuration" for x in ast.walk(n))]:
        carried_in, cfg_in = loop_carried(ld, inner)
        for name, pairs in sorted(carried_in.items()):
            if name == "configuration":
                continue
            d, use = pairs[0]
            ctx.violation(
                f"config:load_database:pass-loop-carried:{name}",
                f"`{name}` assigned at `{u(cfg_in.nodes[d].ast)[:60]}` for one compiler pass is still in effect at `{u(cfg_in.nodes[use].ast)[:60]}` for the next pass of the same entry",
                ld.loc(cfg_in.nodes[use].ast),
            )
        ctx.ok(f"config:load_database:pass-loop-carried:only-result-list@{u(inner.target)}")
    # the directory base
    joins = [c for c in ast.walk(loop) if isinstance(c, ast.Call) and callee(c) == "os.path.join"]
    file_join = [c for c in joins if any(f"{cmd}.filename" in u(a) for a in c.args)]
    def _is_dir_join(c):
        for a in c.args[1:]:
            if f"{cmd}.directory" in u(a):
                return True
            if isinstance(a, ast.Name) and {u(l) for l, _ in provenance(ld, a, stmt_of(ld, c))} == {f"{cmd}.directory"}:
                return True
        return False

    dir_join = [c for c in joins if _is_dir_join(c)]
    inc_join = [c for c in joins if c not in file_join and c not in dir_join]
    allowed_leaves = {root, f"{cmd}.directory"}

    def base_ok(call, what):
        base = call.args[0]
        st = stmt_of(ld, call)
        leaves = provenance(ld, base, st)
        texts = {u(l) for l, c in leaves}
        chains = [c for _, c in leaves]
        bad = texts - allowed_leaves
        key = f"config:load_database:{what}-base"
        ctx.check(
            not bad and bool(texts),
            key,
            f"`{u(call)[:70]}`: the base directory is derived from {sorted(texts)}; it must be the entry's `directory` (absolute, or relative to the root) or the root when there is none - the directory a compiler started by this entry would run in",
            ld.loc(call),
        )
        return texts

    if file_join:
        base_ok(file_join[0], "file")
    if len(inc_join) == 1 and len(file_join) == 1:
        base_ok(inc_join[0], "include-path")
        ctx.check(u(inc_join[0].args[0]) == u(file_join[0].args[0]), "config:load_database:same-base", f"relative include paths are joined to `{u(inc_join[0].args[0])}` but the file to `{u(file_join[0].args[0])}`: both are relative to the same working directory", ld.loc(inc_join[0]))
    _entry_spec(ctx, repo, ld)
    ctx.floor(9)


def _entry_spec(ctx, repo, ld):
    """What load_database does with one database entry E, stated over its decision table:

        D = rootdir                                    if E.directory is None
            E.directory                                if it is absolute
            abspath(join(rootdir, E.directory))        otherwise
        P = abspath(E.filename)                        if E.filename is absolute
            abspath(join(D, E.filename))               otherwise
        unsupported E, or P missing  ->  nothing is added
        otherwise, for every pass X of the parsed arguments:  X['file'] = P,
            X['include_paths'] = [abspath(join(D, i)) for i in X['include_paths']],  configuration += [X]

    A path of the table that leaves one of the three tests undecided must satisfy the statement
    for every way of deciding it."""
    from ..spec import appended, tab, vt
    import itertools
    import re

    paths = tab(ld, unroll=1)
    dbp, root = ld.params[0], ld.params[1]
    n_add = n_skip = 0
    for p in paths:
        at = {vt(k): v for k, v in p.atoms.items()}
        dbs = [re.match(r"more\((.+)#L\d+,0\)$", k).group(1) for k, v in p.atoms.items() if re.match(r"more\((.+)#L\d+,0\)$", k) and v]
        if not dbs:
            continue
        DB = dbs[0]
        E = f"{DB}[0]"
        ctx.check(DB == f"CompilationDatabase.from_file({dbp})", "config:load_database:entries-from-validated-loader", f"entries are taken from `{DB}`; they must come from CompilationDatabase.from_file(<the database path>), which validates the file against the schema", ld.loc())
        sup = at.get(f"{E}.is_supported()")
        effs = [e for e in p.effects if e[0] in ("store", "aug", "call") and not (e[0] == "call" and re.match(r"(log|logging)\.", str(e[1])))]
        adds = appended(p, "configuration")
        case = ",".join(f"{k.replace(E, 'E')[:40]}={int(v)}" for k, v in at.items() if E in k and "asdict(" not in k and not k.startswith("more("))[:150]
        key = f"config:load_database:entry[{case}]"
        if sup is None:
            ctx.violation(key, "an entry is processed without asking CompileCommand.is_supported()", ld.loc())
            continue
        if not sup:
            n_skip += 1
            ctx.check(not adds and not [e for e in effs if e[0] == "store"], key, "an unsupported command must be skipped before anything is resolved or added", ld.loc())
            continue
        a_none = next((at[k] for k in (f"{E}.directory Eq None", f"None Eq {E}.directory", f"{E}.directory Is None", f"None Is {E}.directory") if k in at), None)
        a_dabs = at.get(f"os.path.isabs({E}.directory)")
        a_fabs = at.get(f"os.path.isabs({E}.filename)")
        exists = {k: v for k, v in at.items() if k.startswith("os.path.exists(") or k.startswith("os.path.isfile(")}
        if f"{E}.directory" in at:
            raise AnalysisError("load_database: `directory` is tested for truth, not for None: form not recognised")
        ok, why = True, ""
        for none, dabs, fabs in itertools.product(*[[v] if v is not None else [True, False] for v in (a_none, a_dabs, a_fabs)]):
            if none and a_dabs is None and dabs:
                continue
            D = root if none else (f"{E}.directory" if dabs else f"os.path.abspath(os.path.join({root}, {E}.directory))")
            P = f"os.path.abspath({E}.filename)" if fabs else f"os.path.abspath(os.path.join({D}, {E}.filename))"
            ex = exists.get(f"os.path.exists({P})")
            sit = f"[directory {'absent' if none else 'absolute' if dabs else 'relative'}, file {'absolute' if fabs else 'relative'}]"
            if ex is None:
                ok, why = False, f"{sit}: the existence test is made on {sorted(exists) or 'nothing'}; the entry's file is `{P}`"
                break
            if not ex:
                if adds:
                    ok, why = False, f"{sit}: an entry is added although its file does not exist"
                    break
                continue
            npass = sum(1 for k, v in p.atoms.items() if re.match(r"more\(ArgumentParser\(", k) and v)
            X = [f"asdict(ArgumentParser(os.path.basename({E}.arguments[0])).parse_args({E}.arguments[1:])[{j}])" for j in range(npass)]
            from ..flow import MUTATORS

            muts = [e for e in effs if e[0] == "call" and any(vt(e[1]).startswith(x + "[") or vt(e[1]).startswith(x + ".") for x in X) and vt(e[1]).rsplit(".", 1)[-1] in MUTATORS]
            if muts:
                ok, why = False, f"{sit}: the entry's own lists are modified after they were built (`{vt(muts[0][1])[-60:]}`): the order of -D / -I / -include given on the command line is what the compiler sees"
                break
            got_add = adds
            if got_add != X:
                ok, why = False, f"{sit}: {npass} pass(es) parsed (by the parser chosen from basename(arguments[0]) on arguments[1:]) but the entries added are {got_add}"
                break
            for x in X:
                st_file = [vt(e[2]) for e in effs if e[0] == "store" and vt(e[1]) == f"{x}['file']"]
                st_inc = [vt(e[2]) for e in effs if e[0] == "store" and vt(e[1]) == f"{x}['include_paths']"]
                if st_file != [P]:
                    ok, why = False, f"{sit}: entry['file'] is set to {st_file}; expected `{P}`"
                    break
                inc_re = r"comp:\[os\.path\.abspath\(os\.path\.join\(" + re.escape(D) + r", (\w+)\)\) for \1 in " + re.escape(x) + r"\['include_paths'\]\]"
                if len(st_inc) != 1 or not re.fullmatch(inc_re, st_inc[0]):
                    if len(st_inc) == 1 and not st_inc[0].startswith("comp:"):
                        raise AnalysisError(f"load_database: include-path rewrite is not a comprehension: {st_inc[0][:80]}")
                    ok, why = False, f"{sit}: entry['include_paths'] is set to {st_inc}; expected every parsed include path, in order, as abspath(join(`{D}`, path))"
                    break
            if not ok:
                break
            n_add += bool(X)
        ctx.check(ok, key, f"database entry handled against the wrong base / file / existence test: {why}", ld.loc())
    if not (n_add and n_skip):
        raise AnalysisError(f"load_database: entry idiom not recognised (adding paths {n_add}, skipping paths {n_skip})")


@rule("C13.R3", "every skipped database entry is reported with a warning")
def r3(ctx):
    repo = ctx.repo
    ld, loop = _entry_loop(repo)
    cfg = cfg_of(ld)
    header = cfg.node_of(loop)
    n = 0
    for s in ast.walk(loop):
        if isinstance(s, ast.Continue):
            nid = cfg.node_of(s)
            # only continues of the entry loop itself
            if cfg.nodes[nid].loops[-1:] != (header,):
                continue
            n += 1
            blk = _block_of(loop, s)
            i = blk.index(s)
            warned = any(isinstance(x, ast.Expr) and isinstance(x.value, ast.Call) and u(x.value.func) in ("log.warning", "log.error") for x in blk[:i])
            cond = _enclosing_test(loop, s)
            ctx.check(warned, f"config:load_database:skip:{cond}", f"an entry is skipped when `{cond}` without any warning: the user cannot tell that part of the database was ignored", ld.loc(s))
    ctx.floor(2)


def _block_of(root, stmt):
    for n in ast.walk(root):
        for fld in ("body", "orelse", "finalbody"):
            b = getattr(n, fld, None)
            if isinstance(b, list) and stmt in b:
                return b
    raise AnalysisError("statement block not found")


def _enclosing_test(root, stmt):
    for n in ast.walk(root):
        if isinstance(n, ast.If) and stmt in n.body:
            return u(n.test)
    return "?"


@rule("C13.R4", "supported = non-empty command and source extension; missing files are skipped before an entry is created; the database is schema-validated")
def r4(ctx):
    repo = ctx.repo
    from ..decision import Evaluator, Hooks, vtext

    cc = repo.cls("__init__", "CompileCommand")
    sup = cc.find_method("is_supported")
    paths = Evaluator(Hooks()).paths(sup.node)
    A1 = "(len(self.arguments) Gt 0)"
    for p in paths:
        key = "__init__:CompileCommand.is_supported:" + ",".join(f"{k[:50]}={int(v)}" for k, v in p.atoms.items())
        ne = src = None
        extra = []
        for k, v in p.atoms.items():
            kk = k.strip("()")
            if kk in ("len(self.arguments) Gt 0", "0 Lt len(self.arguments)", "len(self.arguments) Ne 0", "0 Ne len(self.arguments)", "len(self.arguments) GtE 1", "1 LtE len(self.arguments)"):
                ne = v
            elif kk in ("len(self.arguments) Eq 0", "0 Eq len(self.arguments)", "len(self.arguments) Lt 1", "1 Gt len(self.arguments)"):
                ne = not v
            elif k == "self.arguments":
                ne = v
            elif k == "codebasin.source.is_source_file(self.filename)":
                src = v
            else:
                extra.append(k)
        res = p.result[1] if p.result[0] == "return" else None
        # `return <test>`: the test is returned undecided - its value is the result
        if not isinstance(res, bool) and res is not None and not extra:
            rt = vtext(res)
            m = re.fullmatch(r"bool\((.*)\)", rt)
            if m:
                rt = m.group(1)
            if rt == "codebasin.source.is_source_file(self.filename)" and src is None and ne is True:
                ctx.ok(key + ":returns-source-test")
                continue
            if ("len(self.arguments)" in rt or rt == "self.arguments") and ne is None and src is True and ("Gt 0" in rt or "0 Lt" in rt or rt.startswith("bool(")):
                ctx.ok(key + ":returns-nonempty-test")
                continue
        if extra or not isinstance(res, bool):
            ctx.violation(key, f"is_supported depends on {extra} / returns {res!r}: {p.describe()}", sup.loc())
            continue
        want = (ne is True) and (src is True)
        decided = (ne is False) or (src is False) or want
        ctx.check(decided and res is want, key, f"must be True iff the command is non-empty and the file has a source extension: {p.describe()}", sup.loc())
    # schema validation
    ff = cc.module.classes["CompilationDatabase"].find_method("from_file")
    # table specifications: from_file loads through the validating loader; _validate_json validates the object it was
    # given against the schema file that belongs to the given name, and lets a validation error out as ValueError
    from ..spec import tab, vt

    for p in tab(ff):
        res = vt(p.result[1]) if p.result[0] == "return" else ""
        ok = "codebasin.util._load_json(" in res and "schema_name='compiledb'" in res.replace('"', "'") and ".from_json(" in res
        ctx.check(ok, "__init__:CompilationDatabase.from_file:validated", f"from_file must load through the validating loader (util._load_json(..., schema_name='compiledb')) and build the database with from_json: returns `{res[:120]}`", ff.loc())
    vj = repo.func("util", "_validate_json")
    SCHEMAS = {"analysis": "schema/analysis.schema", "compiledb": "schema/compilation-database.schema", "coverage": "schema/coverage.schema", "cbiconfig": "schema/cbiconfig.schema"}
    obj, sname = vj.params[0], vj.params[1]
    n_ok = 0
    for p in tab(vj, unroll=1):
        at = {vt(k): v for k, v in p.atoms.items()}
        named = [n for n in SCHEMAS if at.get(f"'{n}' Eq {sname}") is True]
        vals = [e for e in p.effects if e[0] == "call" and e[1] == "jsonschema.validate"]
        key = f"util:_validate_json:validates:{named[0] if named else 'unknown-name'}"
        if not named:
            if any(k.startswith("'") and k.endswith(f" Eq {sname}") for k in at):
                ctx.check(p.result[0] == "raise" and not vals, key, f"an unknown schema name must be refused: {p.describe()[:160]}", vj.loc())
                continue
            raise AnalysisError(f"_validate_json: schema selection not recognised: {p.describe()[:160]}")
        if p.result == ("return", True):
            n_ok += 1
            args = {x[0]: vt(x[1]) for e in vals for x in e[2:] if isinstance(x, tuple) and len(x) == 2}
            pos = [vt(x) for e in vals for x in e[2:] if not (isinstance(x, tuple) and len(x) == 2)]
            inst = args.get("instance", pos[0] if pos else None)
            sch = args.get("schema", pos[1] if len(pos) > 1 else None)
            ok = len(vals) == 1 and inst == obj and sch is not None and SCHEMAS[named[0]] in sch
            ctx.check(ok, key, f"`{named[0]}` must be validated against {SCHEMAS[named[0]]}: jsonschema.validate(instance={inst}, schema={str(sch)[:80]})", vj.loc())
        elif any(k.startswith("raises(jsonschema.validate") and "ValidationError" in k and v for k, v in at.items()):
            ctx.check(p.result[0] == "raise" and "ValueError" in str(p.result[1]), key + ":invalid", "an object that does not validate must be refused with ValueError (the loaders report it and drop the file)", vj.loc())
    if n_ok < 4:
        raise AnalysisError(f"_validate_json: only {n_ok} of the four schema names reach a successful validation")
    ctx.floor(4)


@rule("C13.R5", "only files named by database entries, and what they include, are associated with a platform")
def r5(ctx):
    repo = ctx.repo
    cg = CallGraph(repo)
    sites = cg.callers_of("finder:ParserState.associate")
    allowed = {
        ("finder:find", "e['file']"): "the entry's file",
        ("finder:find", "include_file"): "a forced include resolved by find_include_file",
        ("preprocessor:IncludeNode.evaluate_for_platform", "include_file"): "an #include resolved by find_include_file",
    }
    for f, call in sites:
        a0 = u(call.args[0]) if call.args else "?"
        key = f"{f.key}:associate({a0})"
        if (f.key, a0) not in allowed:
            ctx.violation(key, f"`{u(call)[:70]}`: files may only be associated when a database entry names them or something reached from one includes them", f.loc(call))
            continue
        if a0 == "include_file":
            leaves = provenance(f, call.args[0], stmt_of(f, call))
            chains = [c for _, c in leaves]
            ok = any(any("find_include_file" in x for x in c) for c in chains)
            ctx.check(ok, key, "the included file must come from find_include_file", f.loc(call))
        else:
            ctx.ok(key)
    ctx.floor(3)


@rule("C13.R6", "an empty command (either form) is an unsupported entry, never an exception (= C11.R4)")
def r6(ctx):
    from .c11 import r4 as c11r4

    c11r4(ctx)


# ----------------------------------------------------------------------
ACCEPT = [
    [],
    [{"file": "a.c", "command": "gcc -c a.c"}],
    [{"file": "a.c", "command": ""}],
    [{"file": "a.c", "arguments": []}],
    [{"file": "a.c", "arguments": ["gcc", "-c", "a.c"]}],
    [{"file": "a.c", "directory": "build", "arguments": ["gcc", "-DGREETING=hello world", "-I", "third party/include", "-include", "my config.h", "", "-DX=\"q\""], "output": "a.o"}],
    [{"file": "sub dir/a b.c", "directory": "/abs/build dir", "command": "gcc -DX='a b' -c \"sub dir/a b.c\""}],
    [{"file": "a.c", "command": "gcc -c a.c", "arguments": ["gcc", "-c", "a.c"]}],
    [{"file": "a.c", "command": "x"}, {"file": "a.c", "command": "x"}],
]
REJECT = [
    {"file": "a.c"},
    [{"file": "a.c"}],
    [{"file": 1, "command": "x"}],
    [{"file": "a.c", "arguments": "gcc -c a.c"}],
    [{"file": "a.c", "arguments": [1, 2]}],
    [{"file": "a.c", "command": ["gcc"]}],
    ["gcc -c a.c"],
]


@rule("C13.R7", "the compilation-database schema accepts every legal entry form (both command forms, empty commands, arguments with spaces) and rejects malformed ones")
def r7(ctx):
    import json as _json

    repo = ctx.repo
    schema = repo.json("schema/compilation-database.schema")
    try:
        import jsonschema
    except Exception as e:  # pragma: no cover
        raise AnalysisError(f"jsonschema unavailable: {e}")
    loc = "codebasin/schema/compilation-database.schema"
    try:
        jsonschema.Draft202012Validator.check_schema(schema)
    except Exception as e:
        ctx.violation("schema:compilation-database:well-formed", f"not a valid JSON schema: {e}", loc)
        return
    for inst in ACCEPT:
        key = "schema:compilation-database:accepts:" + _json.dumps(inst)[:70]
        try:
            jsonschema.validate(instance=inst, schema=schema)
            ctx.ok(key)
        except jsonschema.exceptions.ValidationError as e:
            ctx.violation(key, f"a legal compilation database is rejected ({e.message[:100]}): loading raises ValueError and the whole analysis aborts instead of the entry being used / skipped with a warning", loc)
    for inst in REJECT:
        key = "schema:compilation-database:rejects:" + _json.dumps(inst)[:70]
        try:
            jsonschema.validate(instance=inst, schema=schema)
            ctx.violation(key, "a malformed compilation database passes validation", loc)
        except jsonschema.exceptions.ValidationError:
            ctx.ok(key)
    # one CompileCommand per JSON entry, in order; fields taken over unchanged (decision tables)
    from ..spec import appended, n_iter, tab, vt

    cdb = repo.cls("__init__", "CompilationDatabase")
    fj = cdb.find_method("from_json")
    inst = fj.params[1]
    for p in tab(fj):
        key = "__init__:CompilationDatabase.from_json:one-command-per-entry"
        res = vt(p.result[1]) if p.result[0] == "return" else ""
        n = n_iter(p, inst)
        want_items = [f"CompileCommand.from_json({inst}[{i}])" for i in range(n)]
        keyed = [e for e in p.effects if e[0] in ("store", "del") and "[" in str(e[1])] + [k for k in p.atoms if " In " in k]
        ok = res == f"cls(comp:[CompileCommand.from_json(_c0) for _c0 in {inst}])"
        if not ok and n and not keyed:
            lists = {str(e[1]).rsplit(".", 1)[0] for e in p.effects if e[0] == "call" and str(e[1]).endswith(".append")} | {str(e[1]) for e in p.effects if e[0] == "aug"}
            ok = any(appended(p, nm) == want_items for nm in lists) and res.startswith("cls(")
        if not ok and not keyed and not any(e[0] == "loop-bound" for e in p.effects) and n == 0 and res.startswith("cls("):
            continue  # empty database
        if not ok and not keyed and not res.startswith("cls("):
            raise AnalysisError(f"CompilationDatabase.from_json: form not recognised: {p.describe()[:200]}")
        ctx.check(ok, key, f"every entry of the database must become a CompileCommand, in order (no merging, no de-duplication, no filtering): {p.describe()[:240]}", fj.loc())
        val = [e for e in p.effects if e[0] == "call" and str(e[1]).endswith("_validate_json")]
        ctx.check(len(val) == 1 and [vt(x).strip("'") for x in val[0][2:]] == [inst, "compiledb"], "__init__:CompilationDatabase.from_json:validated", "the database must be validated against the compilation-database schema before it is used", fj.loc())
    it = cdb.find_method("__iter__")
    for p in tab(it):
        ys = [e for e in p.effects if e[0] in ("yield", "yield_from")]
        n = n_iter(p, "self.commands")
        ok = [(e[0], vt(e[1])) for e in ys] in ([("yield_from", "self.commands")], [("yield", f"self.commands[{i}]") for i in range(n)]) and all(k.startswith("more(") for k in p.atoms)
        ctx.check(ok, "__init__:CompilationDatabase.__iter__", f"iteration must yield every command, in order: {p.describe()[:160]}", it.loc())
    cj = repo.cls("__init__", "CompileCommand").find_method("from_json")
    ci = cj.params[1]
    for p in tab(cj):
        res = p.result[1] if p.result[0] == "return" else None
        tag = getattr(res, "tag", None)
        key = "__init__:CompileCommand.from_json:fields:" + ",".join(f"{k.split(' ')[0]}={int(v)}" for k, v in p.atoms.items())
        if not tag or tag[0] != "call" or tag[1] != "cls":
            raise AnalysisError(f"CompileCommand.from_json: result is not cls(...): {p.describe()[:160]}")
        pos, kw = tag[2], tag[3]
        if any(vt(x).startswith("*") for x in pos) or any(k is None or str(k).startswith("*") for k in kw):
            raise AnalysisError("CompileCommand.from_json: cls(...) is called with unpacked arguments: not decided")
        fields = dict(kw)
        if pos:
            fields["filename"] = pos[0]
        ok = vt(fields.get("filename")) == f"{ci}['file']" if fields.get("filename") is not None else False
        why = "" if ok else f"filename={vt(fields.get('filename'))}"
        for fld in ("directory", "arguments", "command"):
            present = p.atoms.get(f"'{fld}' In {ci}")
            got = fields.get(fld, None)
            gt = None if got is None else vt(got)
            if present is None:
                good = gt == f"{ci}['{fld}']"
            else:
                good = gt == (f"{ci}['{fld}']" if present else None)
            if not good:
                ok = False
                why += f" {fld}={gt}"
        ctx.check(ok, key, f"file / directory / arguments / command must be taken from the entry unchanged (absent -> None): {why}", cj.loc())
    # compiler identified by argv[0] only
    ld = repo.func("config", "load_database")
    ap = [c for c in ld.calls() if callee(c) == "ArgumentParser"]
    ok = len(ap) == 1
    if ok:
        leaves = provenance(ld, ap[0].args[0], stmt_of(ld, ap[0]))
        chains = [c for _, c in leaves]
        texts = {u(l) for l, _ in leaves}
        ok = texts == {"command.arguments[0]", "command.arguments"} or texts == {"command.arguments[0]"} or ("command.arguments[0]" in texts and all(set(c) <= {"os.path.basename", "<subscript>"} for c in chains))
        ok = ok and all(set(c) <= {"os.path.basename", "<subscript>"} for c in chains)
    ctx.check(ok, "config:load_database:compiler-from-argv0", "the compiler must be looked up by argv[0] (its base name) exactly - stripping suffixes or otherwise rewriting the name loses aliases and definitions of compilers such as gcc-12.2", ld.loc())
    ctx.floor(len(ACCEPT) + len(REJECT) + 3)


@rule("C13.R9", "each front end resolves database entries, builds the code base and runs the analysis against ONE root directory, canonicalised the same way")
def r9(ctx):
    repo = ctx.repo
    for short, q, canon in (("__main__", "_main", "os.path.abspath(os.getcwd())"), ("tree", "_tree", "os.path.abspath(os.getcwd())"), ("coverage.__main__", "_compute", "os.path.realpath(args.source_dir)")):
        f = repo.func(short, q)
        ld = [c for c in f.calls() if callee(c) == "config.load_database"]
        cb = [c for c in f.calls() if (dotted(c.func) or "").split(".")[-1] == "CodeBase"]
        fd = [c for c in f.calls() if callee(c) == "finder.find"]
        key = f"{f.key}:one-root"
        if not (len(ld) == 1 and len(cb) == 1 and len(fd) == 1):
            ctx.violation(key, "load_database / CodeBase / finder.find calls not found exactly once", f.loc())
            continue
        roots = [u(ld[0].args[1]) if len(ld[0].args) > 1 else "?", u(cb[0].args[0]) if cb[0].args else "?", u(fd[0].args[0]) if fd[0].args else "?"]
        ctx.check(len(set(roots)) == 1, key, f"database entries are resolved against `{roots[0]}`, the code base is rooted at `{roots[1]}` and the analysis runs with `{roots[2]}`: relative `file`/`directory`/-I values resolve against a different directory than the one the code base lives in", f.loc(ld[0]))
        if len(set(roots)) == 1 and isinstance(ld[0].args[1], ast.Name):
            defs = [s.value for s in walk_no_nested(f.node) if isinstance(s, ast.Assign) and u(s.targets[0]) == roots[0]]
            ctx.check(len(defs) == 1 and u(defs[0]) == canon, key + ":canonical", f"the root must be `{canon}` (the CodeBase resolves its directories; file names are reported relative to this root): {[u(d) for d in defs]}", f.loc())
    ctx.floor(3)


SCHEMA_CASES = {
    # schema file -> [(instance, accepted?, what the consumer does with it)]
    "schema/analysis.schema": [
        ({"platform": {"cpu": {"commands": "cpu.json"}}}, True, "one platform with its compilation database"),
        ({"codebase": {"exclude": ["*.h"]}, "platform": {"cpu": {"commands": "a.json"}, "gpu": {"commands": "b.json"}}}, True, "exclude list and two platforms"),
        ({"platform": {"cpu": {"commands": ["a.json"]}}}, False, "`commands` is handed to load_database() as one path"),
        ({"platform": {"cpu": {"commands": "a.json", "command": "b.json"}}}, False, "a misspelt key in a platform table would be ignored silently"),
        ({"platform": {"cpu": "a.json"}}, False, "the front ends read analysis['platform'][name]['commands']"),
        ({"platforms": {"cpu": {"commands": "a.json"}}}, True, "(unknown top-level tables are admitted today - `additionalProperties` sits inside `properties`; no property of this study forbids it: recorded as it is)"),
        ({"codebase": {"excludes": ["*.h"]}}, True, "(the codebase table is open: recorded as it is today)"),
    ],
    "schema/compilation-database.schema": [
        ([{"directory": "/b", "file": "a.c", "command": "gcc -c a.c"}], True, "command form"),
        ([{"directory": "/b", "file": "a.c", "arguments": ["gcc", "-c", "a.c"]}], True, "arguments form"),
        ([{"directory": "/b", "file": "a.c", "arguments": "gcc -c a.c"}], False, "`arguments` is indexed as a list: a string would be read character by character"),
        ([{"directory": "/b", "file": "a.c", "command": ["gcc", "-c", "a.c"]}], False, "`command` is split with shlex"),
        ([{"directory": "/b", "command": "gcc -c a.c"}], True, "(an entry without `file` is admitted by the schema today and raises KeyError in CompileCommand.from_json - the compile-database format requires `file`, the properties of this study say nothing about entries without it: recorded as it is)"),
        ({"directory": "/b", "file": "a.c", "command": "gcc -c a.c"}, False, "the database is a list of entries"),
    ],
    "schema/coverage.schema": [
        ([{"file": "a.c", "id": "00", "used_lines": [1, 2], "unused_lines": []}], True, "one record"),
        ([{"file": "a.c", "id": "00", "used_lines": [1, 2]}], False, "every record states both line lists"),
        ([{"file": "a.c", "id": "00", "used_lines": ["1"], "unused_lines": []}], False, "line numbers are integers"),
        ([{"file": "a.c", "used_lines": [1], "unused_lines": []}], False, "every record carries the file's content id"),
    ],
    "schema/cbiconfig.schema": [
        ({"compiler": {"mycc": {"alias_of": "gcc"}}}, True, "an alias"),
        ({"compiler": {"mycc": {"options": ["-DX"], "parser": [{"flags": ["-fx"], "action": "append_const", "dest": "modes", "const": "x"}], "modes": [{"name": "x", "defines": ["X"]}]}}}, True, "a full definition"),
        ({"compiler": {"mycc": {"alias_of": "gcc", "options": ["-DX"]}}}, False, "an alias carries nothing else (its options would be dropped silently)"),
        ({"compiler": {"mycc": {"options": "-DX"}}}, False, "`options` is appended to argv as a list"),
        ({"compiler": {"mycc": {"modes": [{"defines": ["X"]}]}}}, False, "a mode without a name cannot be selected"),
        ({"compiler": {"mycc": {"parser": [{"flags": "-fx", "action": "append_const", "dest": "modes", "const": "x"}]}}}, False, "`flags` is splatted into add_argument(): a string would register one option per character"),
        ({"compiler": {"mycc": {"parser": [{"flags": ["-fx"], "actoin": "append_const"}]}}}, False, "a misspelt key in a parser rule would be ignored silently"),
        ({"compilers": {"mycc": {"alias_of": "gcc"}}}, True, "(unknown top-level tables are admitted today: recorded as it is)"),
    ],
}


@rule("C13.R11", "every schema admits exactly the shapes its loader consumes (acceptance set per schema file)")
def r11(ctx):
    """The loaders index what they have validated without further checks (`entry['file']`, `excludes += ...`,
    `add_argument(*flags)`): a schema that admits another shape turns a configuration error, which is reported and
    refused today, into a silently different analysis.  Each schema file is therefore run (jsonschema, as a library:
    no repository code) over a fixed set of instances whose verdict follows from what the consumer does."""
    import jsonschema

    repo = ctx.repo
    n = 0
    for fname, cases in SCHEMA_CASES.items():
        sch = repo.json(fname)
        for i, (inst, want, why) in enumerate(cases):
            n += 1
            try:
                jsonschema.validate(instance=inst, schema=sch)
                got = True
            except jsonschema.exceptions.ValidationError:
                got = False
            except jsonschema.exceptions.SchemaError as e:
                raise AnalysisError(f"{fname}: not a valid schema: {e.message[:80]}")
            ctx.check(got is want, f"{fname}:case{i}:{'accept' if want else 'reject'}", f"{fname} {'accepts' if got else 'rejects'} `{str(inst)[:90]}` - expected {'accepted' if want else 'rejected'}: {why}", f"codebasin/{fname}")
    ctx.floor(20)
