"""C16 - the duplicates report lists exactly the sets of byte-identical files."""

from __future__ import annotations

import ast

from ..model import AnalysisError, callee, dotted, u, walk_no_nested
from ..run import rule
from .c10 import codebase_names


@rule("C16.R1", "a report function writes everything to the stream it was given")
def r1(ctx):
    repo = ctx.repo
    n = 0
    for f in repo.mod("report").functions.values():
        if "stream" not in f.params:
            continue
        for c in f.calls():
            if callee(c) == "print":
                n += 1
                kw = {k.arg: u(k.value) for k in c.keywords}
                ctx.check(kw.get("file") == "stream", f"{f.key}:print:{u(c)[:50]}", f"`{u(c)[:60]}` goes to stdout although the caller passed a stream", f.loc(c))
    ctx.floor(8)


def _last_subscript(text):
    """`d[k]` -> `k` (matching brackets, from the end); None if the text does not end in a subscript"""
    if not text.endswith("]"):
        return None
    depth = 0
    for i in range(len(text) - 1, -1, -1):
        if text[i] == "]":
            depth += 1
        elif text[i] == "[":
            depth -= 1
            if depth == 0:
                return text[i + 1 : -1]
    return None


@rule("C16.R2", "find_duplicates: candidates from the code base minus symlinks; grouping reads content; groups of >= 2 emitted completely")
def r2(ctx):
    repo = ctx.repo
    f = repo.func("report", "find_duplicates")
    # phase 1 (bucketing), decided on the decision table: per code-base file
    from ..spec import tab, vt
    import re

    cb = f.params[0]
    F = f"{cb}[0]"
    n_link = n_file = 0
    cmpc = [c for c in f.calls() if callee(c) == "filecmp.cmp"]
    deep = bool(cmpc) and all({k.arg: u(k.value) for k in c.keywords}.get("shallow") == "False" for c in cmpc)
    seen_keys = set()
    for p in tab(f, unroll=1):
        if not any(k.startswith(f"more({cb}#L") and v for k, v in p.atoms.items()):
            continue
        link = next((v for k, v in p.atoms.items() if vt(k) in (f"Path({F}).is_symlink()", f"os.path.islink({F})", f"{F}.is_symlink()")), None)
        adds = [e for e in p.effects if e[0] == "call" and str(e[1]).endswith(".add") and len(e) > 2 and F in vt(e[2])]
        if link is None:
            ctx.violation("report:find_duplicates:symlinks-skipped", "symbolic links must be excepted (`if path.is_symlink(): continue`): a link and its target would otherwise be reported as duplicates, or - if files are de-duplicated by inode instead - hard-linked twins would never be reported and a link could be listed in place of the real file", f.loc())
            break
        if link:
            n_link += 1
            ctx.check(not adds, "report:find_duplicates:symlinks-skipped", "a symbolic link is entered into a bucket", f.loc())
            continue
        n_file += 1
        ok = len(adds) == 1 and vt(adds[0][2]) in (f"Path({F})", F)
        ctx.check(ok, "report:find_duplicates:every-file-bucketed", f"every regular code-base file must be entered into exactly one bucket: {[(e[1][:60], vt(e[2])) for e in adds]}", f.loc())
        if not ok:
            continue
        kexpr = _last_subscript(vt(adds[0][1])[: -len(".add")])
        if kexpr is None:
            raise AnalysisError(f"find_duplicates: bucket insertion `<dict>[key].add(path)` not recognised: {adds[0][1][:80]}")
        if kexpr in seen_keys:
            continue
        seen_keys.add(kexpr)
        content_digest = re.search(r"hashlib\.(file_digest|sha\d+|sha3_\d+|md5|blake2[bs])\(", kexpr) is not None and re.search(r"open\((Path\()?" + re.escape(F) + r"\)?, 'rb'\)", kexpr) is not None
        ctx.check(
            content_digest or deep,
            "report:find_duplicates:content-is-read",
            f"files are bucketed by `{kexpr[:80]}` and confirmed with {'filecmp.cmp(..., shallow=True): equal size and mtime count as equal' if cmpc else 'nothing'}: neither stage reads the bytes, so different files can be reported as duplicates",
            f.loc(),
        )
        ctx.check(F in kexpr, "report:find_duplicates:bucket-of-file", f"bucket key `{kexpr[:60]}` does not depend on the file", f.loc())
    if not (n_link and n_file):
        raise AnalysisError(f"find_duplicates: bucketing idiom not recognised (link paths {n_link}, file paths {n_file})")
    if cmpc:
        ctx.check(deep, "report:find_duplicates:confirmation", "byte-wise confirmation missing (filecmp.cmp must be called with shallow=False)", f.loc(cmpc[0]))
    # phase 2 on the same table: a set of files is reported iff it has at least two members; a bucket holding one file
    # reports nothing
    def _big(x, at):
        for k, want in ((f"len({x}) Gt 1", True), (f"1 Lt len({x})", True), (f"len({x}) Lt 2", False), (f"2 Gt len({x})", False), (f"1 Eq len({x})", False)):
            if k in at and k != f"1 Eq len({x})":
                return at[k] is want
        return None

    n_rep = n_small = 0
    for p in tab(f, unroll=1):
        from ..decision import vtext as _vtx

        at = dict(p.atoms)  # version marks kept: the pivot's set of the first and of the second round are different sets
        reported = [_vtx(e[2]) for e in p.effects if e[0] == "call" and re.fullmatch(r"\w+\.append", str(e[1])) and len(e) > 2 and (_vtx(e[2]).startswith("set:") or "matches" in _vtx(e[2]))]
        for x in reported:
            big = _big(x, at)
            n_rep += 1
            ctx.check(big is True, "report:find_duplicates:groups-of-two-or-more", f"a group is reported on a path that does not establish that it has at least two members (`len({x[:60]}) > 1`): a file with unique content would be listed as its own duplicate", f.loc())
        for k, v in at.items():
            m = re.fullmatch(r"len\((set:.+)\) Gt 1", k)
            if m and v is False:
                n_small += 1
                ctx.check(m.group(1) not in reported, "report:find_duplicates:groups-of-two-or-more", "a set with a single member is reported as a group of duplicates", f.loc())
        single = [k for k, v in at.items() if re.fullmatch(r"1 Eq len\(.+\)", k) and v]
        if single:
            ctx.check(not reported, "report:find_duplicates:singletons-skipped", "a bucket holding a single file must not report anything", f.loc())
    if not n_rep:
        raise AnalysisError("find_duplicates: no path reports a group: idiom not recognised")
    # duplicates(): prints what find_duplicates(<the code base it was given>) found: every member of every group once
    d = repo.func("report", "duplicates")
    FD = f"find_duplicates({d.params[0]})"
    n_mem = 0
    for p in tab(d, unroll=1):
        at = {vt(k): v for k, v in p.atoms.items()}
        prints = [" ".join(vt(x) for x in e[2:] if not isinstance(x, tuple)) for e in p.effects if e[0] == "call" and e[1] == "print"]
        groups = [m.group(1) for k, v in at.items() for m in [re.match(r"more\((.+)#L\d+,0\)$", k)] if m and v and FD in k]
        if not any(FD in k for k in p.atoms):
            ctx.violation("report:duplicates:uses-find_duplicates", f"the report must print what find_duplicates() found for the code base it was given (`{FD}`): {list(p.atoms)[:2]}", d.loc())
            continue
        members = [g for g in groups if re.search(r"\[0\]\[1\]|\[0\]\)?$", g) and g != groups[0]] if groups else []
        if len(groups) >= 2:
            member = f"{groups[1]}[0]"
            n_mem += 1
            hits = [t for t in prints if "{" + member + "}" in t or member in t]
            ctx.check(len(hits) == 1, "report:duplicates:every-member-printed", f"every member of every group must be printed once: member `{member[-60:]}` appears in {len(hits)} printed lines", d.loc())
    if not n_mem:
        raise AnalysisError("report.duplicates: no path visits a member of a group: idiom not recognised")
    ctx.floor(9)


@rule("C16.R3", "no collection is mutated inside a loop that iterates it (whole package)")
def r3(ctx):
    repo = ctx.repo
    n = 0
    MUT = {"remove", "pop", "append", "insert", "add", "discard", "clear", "extend", "update", "difference_update", "popitem"}
    for f in repo.all_functions():
        for lp in [x for x in f.body_nodes() if isinstance(x, ast.For)]:
            it = lp.iter
            names = set()
            if isinstance(it, ast.Name):
                names.add(it.id)
            elif isinstance(it, ast.Attribute):
                names.add(u(it))
            elif isinstance(it, ast.Call) and isinstance(it.func, ast.Attribute) and it.func.attr in ("items", "keys", "values") and not it.args:
                names.add(u(it.func.value))
            elif isinstance(it, ast.Call) and u(it.func) in ("enumerate", "reversed") and it.args and isinstance(it.args[0], (ast.Name, ast.Attribute)):
                names.add(u(it.args[0]))
            if not names:
                continue
            n += 1
            bad = []
            for x in ast.walk(ast.Module(body=lp.body, type_ignores=[])):
                if isinstance(x, ast.Call) and isinstance(x.func, ast.Attribute) and x.func.attr in MUT and u(x.func.value) in names:
                    # tolerated when the loop is left immediately afterwards
                    bad.append(x)
                if isinstance(x, ast.Delete):
                    for t in x.targets:
                        if isinstance(t, ast.Subscript) and u(t.value) in names:
                            bad.append(x)
            bad = [b for b in bad if not _followed_by_exit(lp, b)]
            ctx.check(not bad, f"{f.key}:loop-over:{sorted(names)[0]}", f"`{u(bad[0])[:60] if bad else ''}` changes `{sorted(names)[0]}` while it is being iterated: elements are skipped (lists) or RuntimeError is raised (sets/dicts)", f.loc(lp))
    ctx.floor(20)


def _followed_by_exit(loop, call):
    for n in ast.walk(loop):
        for fld in ("body", "orelse"):
            b = getattr(n, fld, None)
            if isinstance(b, list):
                for i, s in enumerate(b):
                    if isinstance(s, ast.Expr) and s.value is call:
                        return any(isinstance(t, (ast.Break, ast.Return)) for t in b[i + 1 : i + 2])
    return False
