"""C16 - the duplicates report lists exactly the sets of byte-identical files."""

from __future__ import annotations

import ast

from ..model import AnalysisError, callee, dotted, u, walk_no_nested
from ..run import rule
from .c10 import codebase_names


@rule("C16.R1", "a report function writes everything to the stream it was given")
def r1(ctx):
    repo = ctx.repo
    n = 0
    for f in repo.mod("report").functions.values():
        if "stream" not in f.params:
            continue
        for c in f.calls():
            if callee(c) == "print":
                n += 1
                kw = {k.arg: u(k.value) for k in c.keywords}
                ctx.check(kw.get("file") == "stream", f"{f.key}:print:{u(c)[:50]}", f"`{u(c)[:60]}` goes to stdout although the caller passed a stream", f.loc(c))
    ctx.floor(8)


def _last_subscript(text):
    """`d[k]` -> `k` (matching brackets, from the end); None if the text does not end in a subscript"""
    if not text.endswith("]"):
        return None
    depth = 0
    for i in range(len(text) - 1, -1, -1):
        if text[i] == "]":
            depth += 1
        elif text[i] == "[":
            depth -= 1
            if depth == 0:
                return text[i + 1 : -1]
    return None


@rule("C16.R2", "find_duplicates: candidates from the code base minus symlinks; grouping reads content; groups of >= 2 emitted completely")
def r2(ctx):
    repo = ctx.repo
    f = repo.func("report", "find_duplicates")
    # phase 1 (bucketing), decided on the decision table: per code-base file
    from ..spec import tab, vt
    import re

    cb = f.params[0]
    F = f"{cb}[0]"
    n_link = n_file = 0
    cmpc = [c for c in f.calls() if callee(c) == "filecmp.cmp"]
    deep = bool(cmpc) and all({k.arg: u(k.value) for k in c.keywords}.get("shallow") == "False" for c in cmpc)
    seen_keys = set()
    for p in tab(f, unroll=1):
        if not any(k.startswith(f"more({cb}#L") and v for k, v in p.atoms.items()):
            continue
        link = next((v for k, v in p.atoms.items() if vt(k) in (f"Path({F}).is_symlink()", f"os.path.islink({F})", f"{F}.is_symlink()")), None)
        adds = [e for e in p.effects if e[0] == "call" and str(e[1]).endswith(".add") and len(e) > 2 and F in vt(e[2])]
        if link is None:
            ctx.violation("report:find_duplicates:symlinks-skipped", "symbolic links must be excepted (`if path.is_symlink(): continue`): a link and its target would otherwise be reported as duplicates, or - if files are de-duplicated by inode instead - hard-linked twins would never be reported and a link could be listed in place of the real file", f.loc())
            break
        if link:
            n_link += 1
            ctx.check(not adds, "report:find_duplicates:symlinks-skipped", "a symbolic link is entered into a bucket", f.loc())
            continue
        n_file += 1
        ok = len(adds) == 1 and vt(adds[0][2]) in (f"Path({F})", F)
        ctx.check(ok, "report:find_duplicates:every-file-bucketed", f"every regular code-base file must be entered into exactly one bucket: {[(e[1][:60], vt(e[2])) for e in adds]}", f.loc())
        if not ok:
            continue
        kexpr = _last_subscript(vt(adds[0][1])[: -len(".add")])
        if kexpr is None:
            raise AnalysisError(f"find_duplicates: bucket insertion `<dict>[key].add(path)` not recognised: {adds[0][1][:80]}")
        if kexpr in seen_keys:
            continue
        seen_keys.add(kexpr)
        content_digest = re.search(r"hashlib\.(file_digest|sha\d+|sha3_\d+|md5|blake2[bs])\(", kexpr) is not None and re.search(r"open\((Path\()?" + re.escape(F) + r"\)?, 'rb'\)", kexpr) is not None
        ctx.check(
            content_digest or deep,
            "report:find_duplicates:content-is-read",
            f"files are bucketed by `{kexpr[:80]}` and confirmed with {'filecmp.cmp(..., shallow=True): equal size and mtime count as equal' if cmpc else 'nothing'}: neither stage reads the bytes, so different files can be reported as duplicates",
            f.loc(),
        )
        ctx.check(F in kexpr, "report:find_duplicates:bucket-of-file", f"bucket key `{kexpr[:60]}` does not depend on the file", f.loc())
    if not (n_link and n_file):
        raise AnalysisError(f"find_duplicates: bucketing idiom not recognised (link paths {n_link}, file paths {n_file})")
    if cmpc:
        ctx.check(deep, "report:find_duplicates:confirmation", "byte-wise confirmation missing (filecmp.cmp must be called with shallow=False)", f.loc(cmpc[0]))
    # singleton buckets skipped, groups of >= 2 kept
    conf = [n for n in f.node.body if isinstance(n, ast.For) and ".items()" in u(n.iter)]
    ctx.require(len(conf) == 1, "find_duplicates: confirmation loop over the buckets not found")
    cl = conf[0]
    skip = [s for s in cl.body if isinstance(s, ast.If) and isinstance(s.body[0], ast.Continue)]
    ok = len(skip) == 1 and u(skip[0].test) in ("len(path_set) == 1", "len(path_set) < 2", "len(path_set) <= 1")
    ctx.soft(ok, "report:find_duplicates:singletons-skipped", f"only buckets with a single file may be skipped: {[u(s.test) for s in skip]}", f.loc(cl))
    emit = [s for s in ast.walk(cl) if isinstance(s, ast.If) and any(isinstance(x, ast.Call) and u(x.func).endswith(".append") for x in ast.walk(s))]
    ok = len(emit) == 1 and u(emit[0].test) in ("len(matches) > 1", "len(matches) >= 2")
    ctx.check(ok, "report:find_duplicates:groups-of-two-or-more", f"a group must be reported iff it has at least two members: {[u(s.test) for s in emit]}", f.loc(cl))
    # partition loop: every remaining file is compared with the pivot; matched files are removed afterwards
    wl = [n for n in ast.walk(cl) if isinstance(n, ast.While)]
    ok = len(wl) == 1 and u(wl[0].test) in ("len(remaining) > 1", "len(remaining) >= 2")
    ctx.soft(ok, "report:find_duplicates:partition-loop", "the partition loop must run while at least two candidates remain", f.loc(cl))
    if ok:
        inner = [n for n in wl[0].body if isinstance(n, ast.For)]
        ok2 = len(inner) == 1 and u(inner[0].iter) == "remaining"
        ctx.soft(ok2, "report:find_duplicates:compare-with-every-remaining", "the pivot must be compared with every remaining file", f.loc(wl[0]))
        rem = [s for s in wl[0].body if isinstance(s, ast.Expr) and u(s.value) == "remaining.difference_update(matches)"]
        ctx.soft(len(rem) == 1, "report:find_duplicates:matched-removed-after-scan", "matched files must be removed from the candidates after the scan (`remaining.difference_update(matches)`)", f.loc(wl[0]))
    # duplicates(): every member printed
    d = repo.func("report", "duplicates")
    lp2 = [n for n in walk_no_nested(d.node) if isinstance(n, ast.For) and "enumerate(confirmed_matches)" in u(n.iter)]
    ok = len(lp2) == 1
    if ok:
        inner = [n for n in lp2[0].body if isinstance(n, ast.For)]
        ok = len(inner) == 1 and u(inner[0].iter) in ("sorted(matches)", "matches") and any(isinstance(x, ast.Call) and callee(x) == "print" and u(inner[0].target) in u(x) for x in ast.walk(inner[0]))
    ctx.soft(ok, "report:duplicates:every-member-printed", "every member of every group must be printed", d.loc())
    src = [s for s in d.node.body if isinstance(s, ast.Assign) and u(s.value) == f"find_duplicates({d.params[0]})"]
    ctx.soft(len(src) == 1, "report:duplicates:uses-find_duplicates", "the report must print what find_duplicates() found for the given code base", d.loc())
    ctx.floor(9)


@rule("C16.R3", "no collection is mutated inside a loop that iterates it (whole package)")
def r3(ctx):
    repo = ctx.repo
    n = 0
    MUT = {"remove", "pop", "append", "insert", "add", "discard", "clear", "extend", "update", "difference_update", "popitem"}
    for f in repo.all_functions():
        for lp in [x for x in f.body_nodes() if isinstance(x, ast.For)]:
            it = lp.iter
            names = set()
            if isinstance(it, ast.Name):
                names.add(it.id)
            elif isinstance(it, ast.Attribute):
                names.add(u(it))
            elif isinstance(it, ast.Call) and isinstance(it.func, ast.Attribute) and it.func.attr in ("items", "keys", "values") and not it.args:
                names.add(u(it.func.value))
            elif isinstance(it, ast.Call) and u(it.func) in ("enumerate", "reversed") and it.args and isinstance(it.args[0], (ast.Name, ast.Attribute)):
                names.add(u(it.args[0]))
            if not names:
                continue
            n += 1
            bad = []
            for x in ast.walk(ast.Module(body=lp.body, type_ignores=[])):
                if isinstance(x, ast.Call) and isinstance(x.func, ast.Attribute) and x.func.attr in MUT and u(x.func.value) in names:
                    # tolerated when the loop is left immediately afterwards
                    bad.append(x)
                if isinstance(x, ast.Delete):
                    for t in x.targets:
                        if isinstance(t, ast.Subscript) and u(t.value) in names:
                            bad.append(x)
            bad = [b for b in bad if not _followed_by_exit(lp, b)]
            ctx.check(not bad, f"{f.key}:loop-over:{sorted(names)[0]}", f"`{u(bad[0])[:60] if bad else ''}` changes `{sorted(names)[0]}` while it is being iterated: elements are skipped (lists) or RuntimeError is raised (sets/dicts)", f.loc(lp))
    ctx.floor(20)


def _followed_by_exit(loop, call):
    for n in ast.walk(loop):
        for fld in ("body", "orelse"):
            b = getattr(n, fld, None)
            if isinstance(b, list):
                for i, s in enumerate(b):
                    if isinstance(s, ast.Expr) and s.value is call:
                        return any(isinstance(t, (ast.Break, ast.Return)) for t in b[i + 1 : i + 2])
    return False
