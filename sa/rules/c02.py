"""C02 - #if arithmetic: precedence relation, climbing shape, operator coverage,
arm semantics, literal tables, residual identifiers.

Decided: which Python operator each C operator is mapped to, the precedence /
associativity relation and how the parser uses it, the literal prefix/suffix
tables.  Not decided: numeric results beyond operator identity and value kind.
"""

from __future__ import annotations

import ast
import re

from ..decision import NOTHING, Evaluator, Hooks, Sym, vtext
from ..model import AnalysisError, callee, const, dotted, strip_doc, u, walk_no_nested
from ..run import rule
from ..tables import dict_literal, if_chain_arms, str_list

# C grammar (ISO C 6.5, 6.6): binary operator levels from loosest to tightest
C_LEVELS = [
    ["?"], ["||"], ["&&"], ["|"], ["^"], ["&"], ["==", "!="],
    ["<", "<=", ">", ">="], ["<<", ">>"], ["+", "-"], ["*", "/", "%"],
]
C_UNARY = ["-", "+", "!", "~"]

# Python AST operator that has the C operator's meaning on two's-complement
# 64-bit operands (numpy int64/uint64 scalars)
C_BINARY_SEM = {
    "||": ("BoolOp", "Or"), "&&": ("BoolOp", "And"),
    "|": ("BinOp", "BitOr"), "^": ("BinOp", "BitXor"), "&": ("BinOp", "BitAnd"),
    "==": ("Compare", "Eq"), "!=": ("Compare", "NotEq"),
    "<": ("Compare", "Lt"), "<=": ("Compare", "LtE"), ">": ("Compare", "Gt"), ">=": ("Compare", "GtE"),
    "<<": ("BinOp", "LShift"), ">>": ("BinOp", "RShift"),
    "+": ("BinOp", "Add"), "-": ("BinOp", "Sub"), "*": ("BinOp", "Mult"),
    "/": ("C-trunc-div", None), "%": ("C-trunc-rem", None),
}
C_UNARY_SEM = {"-": "USub", "+": "UAdd", "!": "Not", "~": "Invert"}

# C integer-suffix spellings (6.4.4.1) - order of u and l/ll free, case of each free but ll/LL not mixed
C_SUFFIXES = sorted(
    {
        a + b for a in ("u", "U") for b in ("", "l", "L", "ll", "LL")
    }
    | {b + a for a in ("u", "U") for b in ("l", "L", "ll", "LL")}
    | {"l", "L", "ll", "LL"}
)


def op_tables(repo):
    ee = repo.cls("preprocessor", "ExpressionEvaluator")
    out = {}
    for name in ("BinaryOperators", "UnaryOperators"):
        if name not in ee.class_attrs:
            raise AnalysisError(f"anchor vanished: ExpressionEvaluator.{name}")
        d = dict_literal(ee.class_attrs[name])
        tab = {}
        for k, v in d.items():
            if not (isinstance(v, ast.Call) and len(v.args) == 2 and isinstance(v.args[0], ast.Constant) and isinstance(v.args[1], ast.Constant)):
                raise AnalysisError(f"ExpressionEvaluator.{name}[{k!r}] is not OpInfo(<int>, <str>): {u(v)}")
            tab[k] = (v.args[0].value, v.args[1].value)
        out[name] = tab
    return ee, out["BinaryOperators"], out["UnaryOperators"]


@rule("C02.R1", "precedence and associativity relation equals the C grammar's")
def r1(ctx):
    ee, binops, unops = op_tables(ctx.repo)
    loc = ee.loc(ee.class_attrs["BinaryOperators"])
    ctx.note(f"{ee.key}.BinaryOperators ({len(binops)}), UnaryOperators ({len(unops)})")
    flat = [o for lvl in C_LEVELS for o in lvl]
    for o in flat:
        ctx.check(o in binops, f"preprocessor:ExpressionEvaluator.BinaryOperators:{o}:present", f"binary operator {o!r} missing from the table", loc)
    for o in binops:
        ctx.check(o in flat, f"preprocessor:ExpressionEvaluator.BinaryOperators:{o}:known", f"{o!r} is not a C preprocessor binary operator", loc)
    lv = {o: i for i, lvl in enumerate(C_LEVELS) for o in lvl}
    ops = [o for o in flat if o in binops]
    # pairwise order relation (only the order matters, not the numbers)
    for i, a in enumerate(ops):
        for b in ops[i + 1:]:
            pa, pb = binops[a][0], binops[b][0]
            want = (lv[a] > lv[b]) - (lv[a] < lv[b])
            got = (pa > pb) - (pa < pb)
            if got != want:
                ctx.violation(
                    f"preprocessor:ExpressionEvaluator.BinaryOperators:order:{a} vs {b}",
                    f"{a!r} (prec {pa}) must bind {'tighter than' if want > 0 else 'looser than' if want < 0 else 'as tightly as'} {b!r} (prec {pb})",
                    loc,
                )
    ctx.ok("preprocessor:ExpressionEvaluator.BinaryOperators:order-relation", f"{len(ops)*(len(ops)-1)//2} pairs")
    for o in ops:
        want = "RIGHT" if o == "?" else "LEFT"
        ctx.check(binops[o][1] == want, f"preprocessor:ExpressionEvaluator.BinaryOperators:{o}:assoc", f"{o!r} must be {want}-associative, table says {binops[o][1]}", loc)
    uloc = ee.loc(ee.class_attrs["UnaryOperators"])
    for o in C_UNARY:
        if o not in unops:
            ctx.violation(f"preprocessor:ExpressionEvaluator.UnaryOperators:{o}", "unary operator missing", uloc)
            continue
        tight = all(unops[o][0] > p for p, _ in binops.values())
        ctx.check(tight and unops[o][1] == "RIGHT", f"preprocessor:ExpressionEvaluator.UnaryOperators:{o}", f"unary {o!r} must bind tighter than every binary operator and be RIGHT-associative: {unops[o]}", uloc)
    for o in unops:
        ctx.check(o in C_UNARY, f"preprocessor:ExpressionEvaluator.UnaryOperators:{o}:known", f"{o!r} is not a C unary operator", uloc)
    ctx.floor(19 + 19 + 19 + 4)


# ----------------------------------------------------------------------
class ClimbHooks(Hooks):
    """Interpret one iteration of the precedence-climbing loop for a concrete
    operator taken from the table."""

    def __init__(self, binops, unops, op, minprec=None):
        self.binops, self.unops, self.op, self.minprec = binops, unops, op, minprec
        self.n = 0

    def resolve(self, expr, st):
        t = u(expr)
        if isinstance(expr, ast.Attribute) and expr.attr == "token":
            base = u(expr.value)
            if base in ("self.cursor()", "operator") or (isinstance(st.env.get(base), Sym) and st.env[base].text == "OPTOK"):
                return self.op
        if isinstance(expr, ast.Subscript):
            b = u(expr.value)
            if b.endswith("BinaryOperators") or b.endswith("UnaryOperators"):
                tab = self.binops if b.endswith("BinaryOperators") else self.unops
                # index must evaluate to our operator
                return tuple(tab[self.op]) if self.op in tab else NOTHING
        if isinstance(expr, ast.Attribute) and expr.attr in ("prec", "assoc") and isinstance(expr.value, ast.Subscript):
            b = u(expr.value.value)
            if b.endswith("BinaryOperators") or b.endswith("UnaryOperators"):
                tab = self.binops if b.endswith("BinaryOperators") else self.unops
                if self.op in tab:
                    return tab[self.op][0 if expr.attr == "prec" else 1]
        if isinstance(expr, ast.Attribute) and expr.attr in ("prec", "assoc") and isinstance(expr.value, ast.Name):
            v = st.env.get(expr.value.id)
            if isinstance(v, tuple) and len(v) == 2:
                return v[0 if expr.attr == "prec" else 1]  # a table entry bound to a local
        if isinstance(expr, ast.Compare) and len(expr.ops) == 1 and isinstance(expr.ops[0], (ast.In, ast.NotIn)):
            r = u(expr.comparators[0])
            if r.endswith("BinaryOperators") or r.endswith("UnaryOperators"):
                tab = self.binops if r.endswith("BinaryOperators") else self.unops
                res = self.op in tab
                return res if isinstance(expr.ops[0], ast.In) else not res
        if t == "min_precedence" and self.minprec is not None:
            return self.minprec
        return NOTHING

    def on_call(self, call, ftext, args, kwargs, st):
        if ftext == "self.eol":
            return False
        if ftext == "self.expression":
            self.n += 1
            a = args[0] if args else kwargs.get("min_precedence", 0)
            st.effect("REC", a)
            return Sym(f"REC{len([e for e in st.effects if e[0]=='REC'])}")
        if ftext == "self.match_type":
            st.effect("MATCH_TYPE", *args)
            return Sym("OPTOK")
        if ftext == "self.match_value":
            st.effect("MATCH", *args)
            return Sym("TOK")
        if ftext.endswith("__apply_binary_op") or ftext.endswith("__apply_unary_op"):
            return Sym("APPLY(" + ", ".join(vtext(a) for a in args) + ")")
        return NOTHING


@rule("C02.R2", "precedence climbing uses the table: >= min, LEFT recurses with prec+1, RIGHT with prec; ternary shape")
def r2(ctx):
    repo = ctx.repo
    ee, binops, unops = op_tables(repo)
    expr_fn = ee.find_method("expression")
    prim = ee.find_method("primary")
    ctx.require(expr_fn is not None and prim is not None, "ExpressionEvaluator.expression/primary missing")
    loops = [n for n in expr_fn.node.body if isinstance(n, ast.While)]
    ctx.require(len(loops) == 1, "expression(): expected exactly one climbing loop")
    loop = loops[0]
    # what is `expr` bound to before the loop?
    pre = [n for n in expr_fn.node.body if isinstance(n, ast.Assign) and n.lineno < loop.lineno]
    ctx.check(
        any(u(n.value) == "self.primary()" for n in pre),
        "preprocessor:ExpressionEvaluator.expression:starts-with-primary",
        "expression() must start by parsing a primary",
        expr_fn.loc(),
    )
    lhs_name = next((u(n.targets[0]) for n in pre if u(n.value) == "self.primary()"), "expr")
    for op, (prec, assoc) in binops.items():
        # (a) loop entry condition
        for m in (prec - 1, prec, prec + 1):
            h = ClimbHooks(binops, unops, op, minprec=m)
            ev = Evaluator(h)
            wrapper = ast.parse("def _f():\n    return 1").body[0]
            wrapper.body = [ast.Return(value=loop.test)]
            paths = ev.paths(wrapper)
            vals = {p.result[1] for p in paths}
            key = f"preprocessor:ExpressionEvaluator.expression:loop-entry:{op}:min={'prec' if m == prec else 'prec-1' if m < prec else 'prec+1'}"
            want = prec >= m
            if len(paths) != 1 or vals != {want}:
                ctx.violation(key, f"with min_precedence={m} and operator {op!r} (prec {prec}) the loop {'must' if want else 'must not'} continue; condition evaluates to {sorted(map(str, vals))}", expr_fn.loc(loop))
            else:
                ctx.ok(key)
        # (b) loop body
        h = ClimbHooks(binops, unops, op)
        paths = Evaluator(h).paths(expr_fn.node, params={lhs_name: Sym("LHS"), "min_precedence": Sym("MIN")}, body=loop.body)
        for p in paths:
            key = f"preprocessor:ExpressionEvaluator.expression:body:{op}:" + ",".join(f"{k}={int(v)}" for k, v in p.atoms.items())
            recs = [e for e in p.effects if e[0] == "REC"]
            res = p.env.get(lhs_name)
            if p.result[0] == "raise":
                ctx.violation(key, f"operator {op!r} makes the parser raise {p.result[1]}", expr_fn.loc(loop))
                continue
            want_rhs = prec + 1 if assoc == "LEFT" else prec
            if op == "?":
                ok = (
                    len(recs) == 2 and recs[0][1] == 0 and recs[1][1] == want_rhs
                    and any(e[0] == "MATCH" and vtext(e[1]) == "Operator" and e[2] == ":" for e in p.effects)
                )
                cond = p.atoms.get("LHS")
                extra = [k for k in p.atoms if k != "LHS"]
                if ok and not extra and cond is not None:
                    ok = vtext(res) == ("REC1" if cond else "REC2")
                else:
                    ok = False
                ctx.check(ok, key, f"ternary: middle operand must restart at precedence 0, ':' is required, right operand parsed at {want_rhs}, result is the middle operand iff the LEFT operand is true.  got {p.describe()} -> {vtext(res)}", expr_fn.loc(loop))
            else:
                ok = len(recs) == 1 and recs[0][1] == want_rhs and not p.atoms and vtext(res) == f"APPLY({op!r}, LHS, REC1)"
                ctx.check(ok, key, f"{assoc} operator {op!r} (prec {prec}): right operand must be parsed with min_precedence {want_rhs} and combined as apply(op, lhs, rhs); got {p.describe()} -> {vtext(res)}", expr_fn.loc(loop))
    # (c) primary(): unary operand at the unary precedence; parenthesised restarts at 0
    tries = [n for n in prim.node.body if isinstance(n, ast.Try)]
    got_unary = got_paren = False
    for t in tries:
        txt = u(t)
        if "UnaryOperators" in txt:
            for op in unops:
                h = ClimbHooks(binops, unops, op)
                paths = Evaluator(h).paths(prim.node, body=t.body)
                for p in paths:
                    if any(k.startswith("raises(") and v for k, v in p.atoms.items()):
                        continue
                    key = f"preprocessor:ExpressionEvaluator.primary:unary:{op}"
                    recs = [e for e in p.effects if e[0] == "REC"]
                    ok = len(recs) == 1 and recs[0][1] == unops[op][0] and p.result[0] == "return" and vtext(p.result[1]) == f"APPLY({op!r}, REC1)"
                    ctx.check(ok, key, f"unary {op!r}: operand must be parsed at the unary precedence {unops[op][0]} and the operator applied to it: {p.describe()}", prim.loc(t))
                    got_unary = True
        elif "'('" in txt and "self.expression" in txt:
            h = ClimbHooks(binops, unops, "+")
            for p in Evaluator(h).paths(prim.node, body=t.body):
                if any(k.startswith("raises(") and v for k, v in p.atoms.items()):
                    continue
                recs = [e for e in p.effects if e[0] == "REC"]
                matches = [(vtext(e[1]), e[2]) for e in p.effects if e[0] == "MATCH"]
                ok = len(recs) == 1 and recs[0][1] == 0 and matches == [("Punctuator", "("), ("Punctuator", ")")] and vtext(p.result[1]) == "REC1"
                ctx.check(ok, "preprocessor:ExpressionEvaluator.primary:parenthesised", f"'(' expr ')' must restart at precedence 0 and require ')': {p.describe()}", prim.loc(t))
                got_paren = True
    ctx.require(got_unary and got_paren, "primary(): unary / parenthesised alternatives not recognised")
    # evaluate(): truth = (value != 0)
    evf = ee.find_method("evaluate")
    rets = [n.value for n in walk_no_nested(evf.node) if isinstance(n, ast.Return)]
    ok = len(rets) == 1 and isinstance(rets[0], ast.Compare) and isinstance(rets[0].ops[0], ast.NotEq) and u(rets[0].comparators[0]) == "0"
    if ok:
        env = {u(n.targets[0]): n.value for n in walk_no_nested(evf.node) if isinstance(n, ast.Assign)}
        src = env.get(u(rets[0].left))
        ok = src is not None and u(src) == "self.expression()"
    # table specification: evaluate() is True exactly when the value of the expression is not 0
    from ..spec import atoms as _atoms, tab as _tab, vt as _vt

    n_ev = 0
    for p in _tab(evf, unroll=1):
        at = {k: v for k, v in _atoms(p).items() if not k.startswith("raises(")}
        if p.result[0] != "return":
            continue
        n_ev += 1
        zero = next((v for k, v in at.items() if k in ("0 Eq self.expression()", "self.expression() Eq 0")), None)
        if zero is None:
            zero = next((not v for k, v in at.items() if k == "self.expression()"), None)
        res = p.result[1]
        if zero is None and not isinstance(res, bool):
            rt = _vt(res)
            okv = rt in ("0 NotEq self.expression()", "self.expression() NotEq 0", "bool(self.expression())") or rt.replace(" ", "") in ("self.expression()!=0",)
            ctx.check(okv, "preprocessor:ExpressionEvaluator.evaluate:nonzero", f"evaluate() must return whether the expression's value is non-zero: returns `{rt[:80]}`", evf.loc())
            continue
        extra = [k for k in at if "self.expression()" not in k]
        ctx.check(isinstance(res, bool) and zero is not None and res is (not zero) and not extra, "preprocessor:ExpressionEvaluator.evaluate:nonzero", f"evaluate() must be True exactly when the expression's value is not 0: {p.describe()[:200]}", evf.loc())
    if not n_ev:
        raise AnalysisError("ExpressionEvaluator.evaluate: no returning path")
    ctx.floor(19 * 3 + 19 + 4 + 2)


# ----------------------------------------------------------------------
@rule("C02.R3", "lexer knows every operator (longest first); evaluator has an arm for every table entry")
def r3(ctx):
    repo = ctx.repo
    ee, binops, unops = op_tables(repo)
    lexop = repo.func("preprocessor", "Lexer.operator")
    ops = None
    for n in walk_no_nested(lexop.node):
        if isinstance(n, ast.Assign) and u(n.targets[0]) == "operators":
            ops = str_list(n.value)
    ctx.require(ops is not None, "Lexer.operator: `operators` list literal not found")
    need = set(binops) | set(unops) | {":"}
    for o in sorted(need):
        ctx.check(o in ops, f"preprocessor:Lexer.operator:knows:{o}", f"operator {o!r} is evaluated but never tokenised as an Operator", lexop.loc())
    for i, a in enumerate(ops):
        for b in ops[i + 1:]:
            if b.startswith(a) and b != a:
                ctx.violation(f"preprocessor:Lexer.operator:longest-match:{b}", f"{a!r} is listed before {b!r}, so {b!r} can never be matched (first match wins)", lexop.loc())
    ctx.ok("preprocessor:Lexer.operator:longest-match")
    # match_any returns the first matching literal
    ma = repo.func("preprocessor", "Lexer.match_any")
    firstwins = any(isinstance(n, ast.For) and any(isinstance(x, ast.Return) for x in ast.walk(n)) for n in ma.node.body)
    ctx.soft(firstwins, "preprocessor:Lexer.match_any:first-match", "match_any must return at the first matching literal", ma.loc())
    for fname, tab, var in (("__apply_binary_op", set(binops) - {"?"}, "op"), ("__apply_unary_op", set(unops), "op")):
        f = ee.find_method(fname)
        ctx.require(f is not None, f"ExpressionEvaluator.{fname} missing")
        arms = if_chain_arms(f.node, f.params[0])
        keys = [a[0] for a in arms if a[0] is not None]
        for o in sorted(tab):
            ctx.check(o in keys, f"preprocessor:ExpressionEvaluator.{fname}:arm:{o}", f"operator {o!r} is in the table but has no arm (raises ValueError at evaluation)", f.loc())
        for o in keys:
            ctx.check(o in tab, f"preprocessor:ExpressionEvaluator.{fname}:arm-known:{o}", f"arm for {o!r} which is not in the operator table", f.loc())
        ctx.check(len(keys) == len(set(keys)), f"preprocessor:ExpressionEvaluator.{fname}:arms-unique", "duplicate arm: the second one is dead", f.loc())
    ctx.floor(24 + 2 + 18 + 4)


# ----------------------------------------------------------------------
def _arm_sem(e, lhs, rhs):
    """(category, opname, operands-ok) of an arm's return expression."""
    if isinstance(e, ast.BoolOp) and len(e.values) == 2:
        return "BoolOp", type(e.op).__name__, [u(v) for v in e.values] == [lhs, rhs]
    if isinstance(e, ast.BinOp):
        return "BinOp", type(e.op).__name__, [u(e.left), u(e.right)] == [lhs, rhs]
    if isinstance(e, ast.Compare) and len(e.ops) == 1:
        return "Compare", type(e.ops[0]).__name__, [u(e.left), u(e.comparators[0])] == [lhs, rhs]
    return "other", u(e), False


@rule("C02.R4", "each operator arm applies the Python operator with the C operator's meaning, lhs left, rhs right")
def r4(ctx):
    repo = ctx.repo
    ee, binops, unops = op_tables(repo)
    f = ee.find_method("__apply_binary_op")
    _, lhs, rhs = f.params
    for op, e, st in if_chain_arms(f.node, f.params[0]):
        if op is None or op not in C_BINARY_SEM:
            continue
        cat, name, opsok = _arm_sem(e, lhs, rhs)
        want = C_BINARY_SEM[op]
        base = f"preprocessor:ExpressionEvaluator.__apply_binary_op:arm'{op}'"
        if want[0] in ("C-trunc-div", "C-trunc-rem"):
            # C: quotient truncated toward zero, remainder has the sign of the dividend.
            # Python // and % floor.  Anything else than the recognised truncating forms is
            # keyed by what is written, so that only the recorded deviation is a known finding.
            if _is_c_trunc(e, lhs, rhs, want[0]):
                ctx.ok(base + ":semantics")
            else:
                ctx.violation(
                    base + f":semantics:{u(e)}",
                    f"{op!r} computes `{u(e)}`; C requires "
                    + ("truncation toward zero (-7/2 == -3)" if want[0] == "C-trunc-div" else "the remainder to take the sign of the dividend (-7%2 == -1)")
                    + " with exact 64-bit integer arithmetic",
                    f.loc(st),
                )
            continue
        ok = cat == want[0] and name == want[1] and opsok
        ctx.check(ok, base + ":semantics", f"{op!r} computes `{u(e)}`, expected {want[1]} of ({lhs}, {rhs}) in that order", f.loc(st))
        if op in ("||", "&&") and ok:
            # R5b: C yields exactly 0 or 1; Python and/or return an operand
            ctx.violation(
                base + f":value:{u(e)}",
                f"{op!r} returns one of its operands (`{u(e)}`) instead of exactly 0 or 1: (2||0)==1 is false",
                f.loc(st),
            )
    g = ee.find_method("__apply_unary_op")
    operand = g.params[1]
    for op, e, st in if_chain_arms(g.node, g.params[0]):
        if op is None or op not in C_UNARY_SEM:
            continue
        ok = isinstance(e, ast.UnaryOp) and type(e.op).__name__ == C_UNARY_SEM[op] and u(e.operand) == operand
        ctx.check(ok, f"preprocessor:ExpressionEvaluator.__apply_unary_op:arm'{op}':semantics", f"unary {op!r} computes `{u(e)}`, expected {C_UNARY_SEM[op]}({operand})", g.loc(st))
    ctx.floor(18 + 4)


def _is_c_trunc(e, lhs, rhs, which):
    """Recognise the usual exact truncating idioms."""
    t = u(e).replace(" ", "")
    l, r = lhs, rhs
    if which == "C-trunc-div":
        forms = {
            f"_c_div({l},{r})", f"c_div({l},{r})",
            f"np.trunc_divide({l},{r})",
        }
    else:
        forms = {f"_c_mod({l},{r})", f"c_mod({l},{r})", f"np.fmod({l},{r})", f"{l}-{r}*_c_div({l},{r})"}
    return t in forms


# ----------------------------------------------------------------------
@rule("C02.R6", "literal tables in term(): base prefixes, suffix list, character constants")
def r6(ctx):
    repo = ctx.repo
    ee = repo.cls("preprocessor", "ExpressionEvaluator")
    term = ee.find_method("term")
    ctx.require(term is not None, "ExpressionEvaluator.term missing")
    bases = suffixes = None
    from ..decision import _class_constant, _module_constant

    def literal(v):
        # the table may have been hoisted to a class-level or module-level constant
        if isinstance(v, ast.Attribute) and isinstance(v.value, ast.Name):
            return _class_constant(term, v.value.id, v.attr) or v
        if isinstance(v, ast.Name):
            return _module_constant(term, v.id) or v
        return v

    for n in walk_no_nested(term.node):
        if isinstance(n, ast.Assign) and u(n.targets[0]) == "bases" and isinstance(literal(n.value), ast.Dict):
            bases = {k: const(v) for k, v in dict_literal(literal(n.value)).items()}
        if isinstance(n, ast.Assign) and u(n.targets[0]) == "suffixes" and isinstance(literal(n.value), (ast.List, ast.Tuple)):
            suffixes = str_list(literal(n.value))
    ctx.require(bases is not None and suffixes is not None, "term(): `bases` / `suffixes` literals not found")
    want = {"0x": 16, "0X": 16, "0b": 2, "0B": 2}
    for k, v in want.items():
        ctx.check(bases.get(k) == v, f"preprocessor:ExpressionEvaluator.term:bases:{k}", f"prefix {k!r} must select base {v}, table says {bases.get(k)}", term.loc())
    for k in bases:
        ctx.check(k in want, f"preprocessor:ExpressionEvaluator.term:bases-known:{k}", f"unexpected base prefix {k!r}", term.loc())
    # every assignment to `base`
    octal = False
    for n in walk_no_nested(term.node):
        if isinstance(n, ast.Assign) and u(n.targets[0]) == "base":
            v = n.value
            if isinstance(v, ast.Constant) and v.value == 10:
                continue
            if u(v) == "bases[prefix]":
                continue
            if isinstance(v, ast.Constant) and v.value == 8:
                octal = True
                _check_octal_guard(ctx, term, n)
                continue
            ctx.violation(f"preprocessor:ExpressionEvaluator.term:base-assign:{u(n)}", f"unexpected base selection `{u(n)}`", term.loc(n))
    if not octal:
        ctx.violation(
            "preprocessor:ExpressionEvaluator.term:bases:octal-missing",
            "a literal with a leading 0 is read as decimal: no octal rule (#if 010 == 8 is false)",
            term.loc(),
        )
    # prefix is the first two characters and is removed only when it matched
    pref = [n for n in walk_no_nested(term.node) if isinstance(n, ast.Assign) and u(n.targets[0]) == "prefix"]
    ctx.check(len(pref) == 1 and u(pref[0].value) == "constant.token[0:2]" or (len(pref) == 1 and u(pref[0].value) == "constant.token[:2]"),
              "preprocessor:ExpressionEvaluator.term:prefix-slice", f"prefix must be the first two characters of the token: {[u(p) for p in pref]}", term.loc())
    # suffixes: longest-first w.r.t. string-suffix relation, and coverage of the C set
    for i, a in enumerate(suffixes):
        for b in suffixes[i + 1:]:
            if b.endswith(a) and a != b:
                ctx.violation(f"preprocessor:ExpressionEvaluator.term:suffix-order:{b}", f"{a!r} is tried before {b!r}: {b!r} would be stripped only partially", term.loc())
    ctx.ok("preprocessor:ExpressionEvaluator.term:suffix-order")
    for s in C_SUFFIXES:
        if s not in suffixes:
            ctx.violation(f"preprocessor:ExpressionEvaluator.term:suffix-missing:{s}", f"C integer suffix {s!r} is not recognised: int() raises ValueError -> ParseError", term.loc())
        else:
            ctx.ok(f"preprocessor:ExpressionEvaluator.term:suffix:{s}")
    for s in suffixes:
        ctx.check(s in C_SUFFIXES, f"preprocessor:ExpressionEvaluator.term:suffix-known:{s}", f"{s!r} is not a C integer suffix", term.loc())
    # integer literal -> value, as a table specification over the decision table of term(): with T the literal's text,
    #   base    = 16 / 2 when T starts with 0x,0X / 0b,0B (digits = T[2:]), else 10 (digits = T)
    #   suffix  = the FIRST entry of the suffix list the digits end with: stripped once, exactly its length
    #   result  = np.uint64(int(digits, base)) iff the suffix contains u/U, else np.int64(...)
    from ..spec import atoms as _atoms, split_top as _split_top, tab as _tab, vt as _vt

    T = "self.match_type(NumericalConstant).token"
    BASES = {"0x": 16, "0X": 16, "0b": 2, "0B": 2}
    n_lit = 0
    # a suffix search written as a loop stops at its first match (a loop that goes on would strip `ul`, then `u` ...;
    # its table has 2^|suffixes| cases, so this is decided on the loop itself)
    for lp in [n for n in term.body_nodes() if isinstance(n, ast.For)]:
        for iff in [x for x in lp.body if isinstance(x, ast.If) and ".endswith(" in u(x.test)]:
            subj = u(iff.test).split(".endswith(")[0]
            strips = any(isinstance(x, ast.Assign) and u(x.targets[0]) == subj for x in ast.walk(iff))
            stops = any(isinstance(x, (ast.Break, ast.Return)) for x in iff.body)
            ctx.check(stops or not strips, "preprocessor:ExpressionEvaluator.term:suffix-strip", f"the suffix loop strips `{subj}` and goes on searching: after `ul` the remaining `...u`/`...l` forms are tested against the already stripped digits; it must stop at the first (longest) match", term.loc(iff))
            if strips and not stops:
                return
    for p in _tab(term, unroll=1):
        if p.result[0] != "return" or T not in _vt(p.result[1]):
            continue
        res = _vt(p.result[1])
        at = _atoms(p)
        in_dict = next((v for k, v in at.items() if k.startswith(f"{T}[0:2] In ") or k.startswith(f"{T}[:2] In ")), None)
        pref = [c for c in BASES if at.get(f"'{c}' Eq {T}[0:2]") or at.get(f"'{c}' Eq {T}[:2]") or at.get(f"{T}.startswith('{c}')")]
        if in_dict and not pref:
            continue  # infeasible: in the table but equal to none of its keys
        if len(pref) > 1:
            continue
        V0 = f"{T}[2:]" if pref else T
        want_base = BASES[pref[0]] if pref else 10
        m = re.fullmatch(r"np\.(u?int64)\(int\((.+)\)\)", res)
        if not m:
            raise AnalysisError(f"term: value of an integer literal not recognised: {res[:120]}")
        parts = _split_top(m.group(2))
        if len(parts) != 2:
            ctx.violation("preprocessor:ExpressionEvaluator.term:int-conversion", f"the digits must be converted with their base, int(digits, base): int({m.group(2)[:80]})", term.loc())
            continue
        value, base = parts
        mb = re.fullmatch(r"dict:\{.*\}\[(.+)\]", base)
        if mb:
            base = str(want_base) if pref and mb.group(1) in (f"{T}[0:2]", f"{T}[:2]") else base
        key = f"preprocessor:ExpressionEvaluator.term:literal:prefix={pref[0] if pref else '-'}"
        if not re.fullmatch(r"\d+", base):
            raise AnalysisError(f"term: base of an integer literal not recognised: {base[:80]}")
        ctx.check(int(base) == want_base, key + ":base", f"a literal {'starting with ' + pref[0] if pref else 'without prefix'} must be read in base {want_base}, not {base}", term.loc())
        hits = [(k, re.fullmatch(r"(.+)\.endswith\('(\w+)'\)", k)) for k, v in at.items() if v and ".endswith('" in k]
        hits = [(mm.group(1), mm.group(2)) for k, mm in hits if mm]
        n_lit += 1
        if len(hits) > 1:
            ctx.violation("preprocessor:ExpressionEvaluator.term:suffix-strip", f"after the suffix `{hits[0][1]}` a second suffix test succeeds (`{hits[1][0][-20:]}.endswith('{hits[1][1]}')`): the suffix list must be searched once, stopping at the first (longest) match", term.loc())
            continue
        sfx = hits[0][1] if hits else None
        if hits and hits[0][0] not in (V0, T):
            raise AnalysisError(f"term: suffix tested on `{hits[0][0][:80]}`")
        want_value = [V0] if sfx is None else [f"{V0}[:-{len(sfx)}]", f"{V0}[:-len('{sfx}')]", f"{V0}.removesuffix('{sfx}')"]
        mk = re.fullmatch(re.escape(V0) + r"\[:-(\d+)\]", value)
        if value not in want_value:
            if mk or value in (T, V0, f"{T}[2:]"):
                ctx.violation("preprocessor:ExpressionEvaluator.term:suffix-strip", f"a literal ending in `{sfx}` is converted from `{value[-40:]}`; exactly the {len(sfx) if sfx else 0} suffix character(s) must be stripped (`{want_value[0][-40:]}`)", term.loc())
                continue
            raise AnalysisError(f"term: digits of an integer literal not recognised: {value[:100]}")
        want_t = "uint64" if sfx and "u" in sfx.lower() else "int64"
        ctx.check(m.group(1) == want_t, f"preprocessor:ExpressionEvaluator.term:unsigned-iff-u-suffix:{sfx or '-'}", f"a literal with suffix `{sfx}` must be {want_t} (unsigned iff the suffix contains u/U), not {m.group(1)}", term.loc())
    if n_lit < 20:
        raise AnalysisError(f"term: only {n_lit} integer-literal paths understood")
    # D7: unsuffixed literal >= 2**63 (pinned by tests/failure/test_bignum)
    signed = [n for n in walk_no_nested(term.node) if isinstance(n, ast.Return) and u(n.value) == "np.int64(int_value)"]
    if signed:
        ctx.violation(
            "preprocessor:ExpressionEvaluator.term:np.int64(int_value)",
            "an unsuffixed literal >= 2**63 raises OverflowError instead of becoming unsigned (C: the first of intmax_t/uintmax_t that fits)",
            term.loc(signed[0]),
        )
    # character constants: producer can deliver 2-character escape spellings, consumer applies ord()
    cc = repo.func("preprocessor", "Lexer.character_constant")
    produces2 = any(isinstance(n, ast.Assign) and u(n.value) == "self.read(2)" and u(n.targets[0]) == "value" for n in walk_no_nested(cc.node))
    consumers = [n for n in walk_no_nested(term.node) if isinstance(n, ast.Call) and u(n.func) == "ord"]
    for c in consumers:
        if produces2 and u(c.args[0]) == "constant.token":
            ctx.violation(
                "preprocessor:ExpressionEvaluator.term:ord(constant.token)",
                "Lexer.character_constant yields 2-character escape spellings (e.g. \\n) but term() applies ord() to the raw spelling: '\\n' raises TypeError, escapes are never decoded",
                term.loc(c),
            )
        else:
            ctx.ok("preprocessor:ExpressionEvaluator.term:char-constant")
    ctx.floor(4 + 10 + 6)


def _check_octal_guard(ctx, term, assign):
    """An octal rule must look at the complete token (before any prefix was
    stripped) and must not fire when a 0x/0b prefix matched."""
    # enclosing If
    parent = None
    for n in walk_no_nested(term.node):
        if isinstance(n, ast.If) and assign in n.body:
            parent = n
    key = f"preprocessor:ExpressionEvaluator.term:octal-guard:{u(parent.test) if parent else 'unguarded'}"
    if parent is None:
        ctx.violation(key, "base 8 selected unconditionally", term.loc(assign))
        return
    t = u(parent.test)
    on_token = "constant.token" in t
    excludes_prefixed = "base == 10" in t or "prefix not in bases" in t or "not in bases" in t
    # is the test in the KeyError arm (no prefix matched)?
    in_keyerror_arm = False
    for n in walk_no_nested(term.node):
        if isinstance(n, ast.ExceptHandler) and n.type is not None and u(n.type) == "KeyError" and any(parent is x or parent in ast.walk(x) for x in n.body):
            in_keyerror_arm = True
    if (on_token or in_keyerror_arm or excludes_prefixed):
        ctx.ok(key)
    else:
        ctx.violation(key, f"octal rule `{t}` is applied to `value` after a 0x/0b prefix may already have been stripped: 0x0100 would be read in base 8", term.loc(parent))


# ----------------------------------------------------------------------
@rule("C02.R7", "identifiers left after expansion count as 0; defined X and defined(X) are both handled")
def r7(ctx):
    repo = ctx.repo
    ee = repo.cls("preprocessor", "ExpressionEvaluator")
    term = ee.find_method("term")
    call = ee.find_method("call")
    # Identifier arm of term()
    ok = False
    for t in [n for n in term.node.body if isinstance(n, ast.Try)]:
        b = t.body
        if len(b) == 2 and u(b[0]) == "self.match_type(Identifier)" and isinstance(b[1], ast.Return):
            ok = u(b[1].value) == "np.int64(0)"
    from ..spec import atoms as _atoms, tab as _tab, vt as _vt

    # table specification: the path of term() on which an identifier is matched (and nothing before it) yields int64 0
    n_id = 0
    for p in _tab(term, unroll=1):
        at = _atoms(p)
        idk = [k for k, v in at.items() if k.startswith("raises(") and "match_type(Identifier)" in k and not v]
        if not idk or p.result[0] != "return":
            continue
        if any(("NumericalConstant" in k or "CharacterConstant" in k or "self.call()" in k) and k.startswith("raises(") and not v for k, v in at.items()):
            continue
        n_id += 1
        ctx.check(_vt(p.result[1]) == "np.int64(0)", "preprocessor:ExpressionEvaluator.term:identifier-is-0", f"an identifier that is still there after macro replacement evaluates to (int64) 0: returns `{_vt(p.result[1])[:60]}`", term.loc())
    if not n_id:
        raise AnalysisError("term: no path on which an identifier is matched")
    n_call = 0
    for p in _tab(call, unroll=1):
        if p.result[0] != "return":
            continue
        n_call += 1
        ctx.check(_vt(p.result[1]) == "np.int64(0)", "preprocessor:ExpressionEvaluator.call:residual-call-is-0", f"a function-like call that is still there after macro replacement evaluates to (int64) 0: returns `{_vt(p.result[1])[:60]}`", call.loc())
    if not n_call:
        raise AnalysisError("ExpressionEvaluator.call: no returning path")
    # term() tries alternatives in an order in which `call` precedes plain identifier
    order = []
    for t in [n for n in term.node.body if isinstance(n, ast.Try)]:
        s = u(t.body[0])
        order.append("num" if "NumericalConstant" in s else "char" if "CharacterConstant" in s else "call" if "self.call()" in s else "ident" if "match_type(Identifier)" in s else "?")
    ctx.check(order.index("call") < order.index("ident") if "call" in order and "ident" in order else False,
              "preprocessor:ExpressionEvaluator.term:call-before-identifier", f"alternatives tried in order {order}; a call must be tried before a bare identifier", term.loc())
    # defined handling in MacroExpander.expand
    exp = repo.func("preprocessor", "MacroExpander.expand")
    dblock = None
    for n in walk_no_nested(exp.node):
        if isinstance(n, ast.If) and u(n.test) in ("ctok.token == 'defined'",):
            dblock = n
    ctx.require(dblock is not None, "MacroExpander.expand: `defined` block not found")
    # table specification over an abstract token stream T0 T1 T2 ... that follows the `defined` keyword: peek_tok() is
    # the token at the cursor, consume_tok() is that token and moves the cursor, replace_tok(x) overwrites the token at
    # the cursor.  `defined X`: T0 is X; nothing is consumed and T0 is overwritten by defined(T0).  `defined(X)`: T0 is
    # `(`, T1 is X, T2 must be `)`; two tokens are consumed and T2 is overwritten by defined(T1).  In both forms the
    # operand is an Identifier and is never looked up as a macro.
    class DH(Hooks):
        def begin_path(self):
            self.pos = 0

        def end_path(self):
            return self.pos

        def on_call(self, call, ftext, args, kwargs, st):
            if ftext == "self.peek_tok" and not args:
                return Sym(f"T{self.pos}")
            if ftext == "self.consume_tok" and not args:
                self.pos += 1
                return Sym(f"T{self.pos - 1}")
            if ftext == "self.replace_tok" and len(args) == 1:
                st.effect("REPLACE", self.pos, args[0])
                return None
            if ftext == "self.defined" and len(args) == 1:
                return Sym(f"DEFINED({_vt(args[0])})")
            return NOTHING

    wrap = ast.parse("def _f():\n    pass").body[0]
    wrap.body = [x for x in dblock.body if not isinstance(x, ast.Continue)]
    from ..decision import FUNC_INDEX as _FI

    _FI[id(wrap)] = exp
    n_forms = {"bare": 0, "paren": 0}
    for p in Evaluator(DH()).paths(wrap):
        at = {_vt(k): v for k, v in p.atoms.items()}
        reps = [e for e in p.effects if e[0] == "REPLACE"]
        if p.result[0] == "raise":
            ctx.check(not reps, "preprocessor:MacroExpander.expand:defined-both-forms", "a malformed `defined` operand is rejected after the token stream was already rewritten", exp.loc(dblock))
            continue
        paren = next((v for k, v in at.items() if k in ("'(' Eq T0.token", "T0.token Eq '('")), None)
        if paren is None:
            raise AnalysisError(f"expand(): the `defined` block does not ask whether the next token is `(`: {p.describe()[:160]}")
        form = "paren" if paren else "bare"
        n_forms[form] += 1
        X, at_pos, consumed = ("T1", 2, 2) if paren else ("T0", 0, 0)
        ok = len(reps) == 1 and reps[0][1] == at_pos and _vt(reps[0][2]) == f"DEFINED({X})" and p.env.get("__model__") == consumed
        ident_ok = at.get(f"isinstance({X}, Identifier)") is True
        close_ok = (not paren) or any(v is True for k, v in at.items() if k in ("')' Eq T2.token", "T2.token Eq ')'")) or any(v is False for k, v in at.items() if k in ("')' NotEq T2.token",))
        got = f"{len(reps)} replacement(s) {[(e[1], _vt(e[2])) for e in reps]}, {p.env.get('__model__')} token(s) consumed"
        ctx.check(ok and ident_ok and close_ok, f"preprocessor:MacroExpander.expand:defined-both-forms:{form}", f"`defined {'(X)' if paren else 'X'}`: the operand {X} must be an Identifier{', followed by `)`,' if paren else ''} {consumed} token(s) are consumed and the token at position {at_pos} is overwritten by defined({X}) - so that exactly the operator's operand disappears and the tokens after it stay: {got}", exp.loc(dblock))
    if not (n_forms["bare"] and n_forms["paren"]):
        raise AnalysisError(f"expand(): `defined` forms understood: {n_forms}")
    # defined() -> is_defined(str(identifier)) numerical constant
    d = repo.func("preprocessor", "MacroExpander.defined")
    # table specification: defined(X) is a numerical constant placed at X and holding what the platform answers for X's name
    n_def = 0
    for p in _tab(d, unroll=1):
        if p.result[0] != "return":
            continue
        n_def += 1
        res = _vt(p.result[1])
        idp = d.params[1]
        m = re.fullmatch(r"NumericalConstant\((.+)\)", res)
        args_ = [a.strip() for a in re.split(r",\s*(?![^()]*\))", m.group(1))] if m else []
        asks = [f"self.platform.is_defined(str({idp}))", f"self.platform.is_defined({idp}.token)"]
        ok = bool(m) and bool(args_) and args_[-1] in asks
        ctx.check(ok, "preprocessor:MacroExpander.defined:asks-platform", f"defined(X) must become a NumericalConstant holding platform.is_defined(<X's name>): returns `{res[:120]}`", d.loc())
    if not n_def:
        raise AnalysisError("MacroExpander.defined: no returning path")
    # the `defined` test precedes macro lookup of the same token
    idx_def = dblock.lineno
    lookups = [n.lineno for n in walk_no_nested(exp.node) if isinstance(n, ast.Call) and u(n.func) == "self.platform.get_macro"]
    ctx.soft(bool(lookups) and all(l > idx_def for l in lookups), "preprocessor:MacroExpander.expand:defined-before-lookup", "`defined` must be handled before macro lookup", exp.loc())
    ctx.floor(6)


@rule("C02.R8", "#elif after a taken branch is not evaluated (visitor row C and T)")
def r8(ctx):
    from .c01 import find_visitor, VisitorHooks, _check_visitor_row
    from ..tables import node_kind_table, kind_of

    repo = ctx.repo
    assoc, cb, vcall = find_visitor(repo)
    table = node_kind_table(repo)
    n = 0
    for c, krow in table.items():
        if kind_of(krow) != "C":
            continue
        for p in Evaluator(VisitorHooks(repo, c, krow, cb.params[0])).paths(cb.node):
            T = [v for k, v in p.atoms.items() if k.endswith("[-1]") and "(" not in k]
            if T and T[0]:
                n += 1
                evals = [e for e in p.effects if e[0] == "EVAL"]
                ctx.check(
                    not evals,
                    f"finder:ParserState.associate.<visitor>:{c.name}:taken:no-eval",
                    f"{c.name} is evaluated although a branch of its chain was already taken: a malformed or failing #elif expression that a real preprocessor never looks at aborts the analysis.  [{p.describe()}]",
                    cb.loc(),
                )
    ctx.floor(2)


@rule("C02.R12", "a whole expression starts climbing at or below the lowest precedence of the operator table")
def r12(ctx):
    repo = ctx.repo
    ee, binops, unops = op_tables(repo)
    expr_fn = ee.find_method("expression")
    ctx.require(expr_fn is not None, "ExpressionEvaluator.expression missing")
    # every operator of the table can be parsed where a full expression is expected: the precedence with which a whole
    # expression starts (the default of the climbing parameter, used by evaluate(), parentheses, call arguments) is not
    # above the lowest precedence in the table
    a_ = expr_fn.node.args
    dflt = dict(zip([x.arg for x in a_.args][len(a_.args) - len(a_.defaults):], a_.defaults))
    climb = expr_fn.params[1] if len(expr_fn.params) > 1 else None
    d0 = dflt.get(climb)
    lowest = min(p_ for p_, _ in binops.values())
    low_ops = sorted(o for o, (p_, _) in binops.items() if p_ == lowest)
    if climb is None or not (isinstance(d0, ast.Constant) and isinstance(d0.value, int)):
        raise AnalysisError("expression(): the climbing parameter has no integer default")
    ctx.check(d0.value <= lowest, "preprocessor:ExpressionEvaluator.expression:whole-expression-admits-every-operator", f"a whole expression is parsed with {climb}={d0.value}, but {low_ops} have precedence {lowest}: the climbing loop stops in front of them, and evaluate() ignores what is left (`c ? a : b` evaluates to `c`)", expr_fn.loc())
    ctx.floor(1)
