"""C08 - translation units and platforms are analysed in isolation."""

from __future__ import annotations

import ast
import re

from ..callgraph import CallGraph
from ..flow import loop_carried, node_uses, provenance, stmt_of, MUTATORS
from ..cfg import cfg_of
from ..model import AnalysisError, callee, dotted, u, walk_no_nested
from ..run import rule
from ..tables import node_base


def per_entry_loop(repo):
    find = repo.func("finder", "find")
    loops = []
    for x in walk_no_nested(find.node):
        if isinstance(x, ast.For):
            for s in x.body:
                if isinstance(s, ast.Assign) and isinstance(s.value, ast.Call) and (dotted(s.value.func) or "").split(".")[-1] == "Platform":
                    loops.append((x, s))
    if not loops:
        # the per-entry body was extracted into a helper: the loop is the one that calls the helper constructing the Platform
        for h in find.new_helpers():
            ctors = [s for s in walk_no_nested(h.node) if isinstance(s, ast.Assign) and isinstance(s.value, ast.Call) and (dotted(s.value.func) or "").split(".")[-1] == "Platform"]
            rets = [s for s in walk_no_nested(h.node) if isinstance(s, ast.Return) and isinstance(s.value, ast.Call) and (dotted(s.value.func) or "").split(".")[-1] == "Platform"]
            if not ctors and not rets:
                continue
            for x in walk_no_nested(find.node):
                if isinstance(x, ast.For):
                    for s in x.body:
                        for c in ast.walk(s):
                            if isinstance(c, ast.Call) and (dotted(c.func) or "").split(".")[-1] == h.name and isinstance(s, (ast.Assign, ast.Expr)):
                                loops.append((x, s if isinstance(s, ast.Assign) else (ctors or rets)[0]))
    if len(loops) != 1:
        raise AnalysisError("finder.find: expected exactly one loop that constructs a Platform per database entry")
    return find, loops[0][0], loops[0][1]


def _outer_loops(fn, loop):
    out = []
    for x in walk_no_nested(fn.node):
        if isinstance(x, (ast.For, ast.While)) and x is not loop and any(y is loop for y in ast.walk(x)):
            out.append(x)
    return out


# accumulators that are *meant* to survive from one entry to the next
ALLOWED_OUTER = {
    "state": "the ParserState result accumulator (trees/maps keyed by canonical file; association sets only grow) - its isolation is decided by C08.R4 and C15.R1",
}


@rule("C08.R1", "one fresh Platform per database entry; nothing else is carried from one entry to the next")
def r1(ctx):
    repo = ctx.repo
    find, loop, ctor = per_entry_loop(repo)
    pname = u(ctor.targets[0])
    ctx.note(f"{find.key}: per-entry loop `for {u(loop.target)} in ...`, platform object `{pname}`")
    # (a) the Platform is constructed unconditionally, first thing, in the innermost per-entry loop
    ctx.check(loop.body[0] is ctor or all(isinstance(s, ast.Expr) and isinstance(s.value, ast.Constant) for s in loop.body[: loop.body.index(ctor)]),
              "finder:find:platform-constructed-first", "the Platform must be created unconditionally at the start of every entry's iteration", find.loc(ctor))
    outer = _outer_loops(find, loop)
    # (b) loop-carried values (through either the entry loop or the platform loop)
    params = set(find.params)
    for lp in [loop] + outer:
        carried, cfg = loop_carried(find, lp)
        for name, pairs in sorted(carried.items()):
            if name in ALLOWED_OUTER:
                continue
            d, use = pairs[0]
            ctx.violation(
                f"finder:find:loop-carried:{name}",
                f"`{name}` set at `{u(cfg.nodes[d].ast)[:70]}` while processing one entry is read at `{u(cfg.nodes[use].ast)[:70]}` while processing a later one: state leaks between compile commands / platforms",
                find.loc(cfg.nodes[use].ast),
            )
    ctx.ok("finder:find:loop-carried:none-but-state")
    # (c) names read inside the per-entry loop that are bound outside it
    cfg = cfg_of(find)
    header = cfg.node_of(loop)
    body_ids = {n.id for n in cfg.nodes if header in n.loops}
    bound_inside = set()
    for x in ast.walk(loop):
        if isinstance(x, ast.Name) and isinstance(x.ctx, ast.Store):
            bound_inside.add(x.id)
    outer_targets = {x.id for lp in outer for x in ast.walk(lp.target) if isinstance(x, ast.Name)}
    local_defs = {}
    for s in walk_no_nested(find.node):
        if isinstance(s, ast.Assign) and not any(s is y for y in ast.walk(loop)):
            for t in s.targets:
                if isinstance(t, ast.Name):
                    local_defs.setdefault(t.id, []).append(s)
    used = set()
    for x in ast.walk(loop):
        if isinstance(x, ast.Name) and isinstance(x.ctx, ast.Load):
            used.add(x.id)
    for name in sorted(used):
        if name in bound_inside or name in outer_targets or name in ALLOWED_OUTER:
            continue
        if name in params:
            # parameters are read-only inside the loop
            mutated = _mutations_of(loop, name)
            ctx.check(not mutated, f"finder:find:param-mutated:{name}", f"parameter `{name}` is modified while processing an entry: {[u(m)[:60] for m in mutated]}", find.loc(loop))
            continue
        if name in local_defs:
            vals = [s.value for s in local_defs[name]]
            immut = all(isinstance(v, ast.Constant) or (isinstance(v, ast.Call) and u(v.func) in ("str", "int", "bool", "len", "os.path.abspath")) for v in vals)
            ctx.check(
                immut and not _mutations_of(loop, name),
                f"finder:find:outer-local:{name}",
                f"`{name}` is created once, outside the per-entry loop (`{u(local_defs[name][0])[:70]}`), and used while processing every entry: anything recorded in it while one compile command or platform is processed can influence another",
                find.loc(local_defs[name][0]),
            )
    # (d) the platform object flows only to calls of this iteration (not stored anywhere that outlives it)
    for s in ast.walk(loop):
        if isinstance(s, ast.Assign) and any(isinstance(x, ast.Name) and x.id == pname for x in ast.walk(s.value)) and s is not ctor:
            for t in s.targets:
                if not isinstance(t, ast.Name):
                    ctx.violation(f"finder:find:platform-escapes:{u(s)[:60]}", "the per-entry Platform is stored into a longer-lived object", find.loc(s))
    # (e) attributes of the fresh Platform are not re-bound from outside (e.g. sharing a cache)
    for s in ast.walk(loop):
        if isinstance(s, ast.Assign):
            for t in s.targets:
                if isinstance(t, ast.Attribute) and u(t.value) == pname:
                    ctx.violation(f"finder:find:platform-field-rebound:{u(t)}", f"`{u(s)[:70]}` replaces a field of the fresh Platform with an object that outlives the entry", find.loc(s))
    ctx.floor(4)


def _mutations_of(tree, name):
    out = []
    for x in ast.walk(tree):
        if isinstance(x, (ast.Subscript, ast.Attribute)) and isinstance(x.ctx, (ast.Store, ast.Del)):
            b = x
            while isinstance(b, (ast.Subscript, ast.Attribute)):
                b = b.value
            if isinstance(b, ast.Name) and b.id == name:
                out.append(x)
        if isinstance(x, ast.Call) and isinstance(x.func, ast.Attribute) and x.func.attr in MUTATORS:
            b = x.func.value
            while isinstance(b, (ast.Subscript, ast.Attribute)):
                b = b.value
            if isinstance(b, ast.Name) and b.id == name:
                out.append(x)
        if isinstance(x, ast.AugAssign) and isinstance(x.target, ast.Name) and x.target.id == name:
            out.append(x)
    return out


MUTABLE_CTORS = {"dict", "list", "set", "defaultdict", "collections.defaultdict", "OrderedDict", "collections.OrderedDict", "deque", "collections.deque", "Counter"}


def _is_mutable_literal(v):
    if isinstance(v, (ast.Dict, ast.List, ast.Set, ast.ListComp, ast.DictComp, ast.SetComp)):
        return True
    if isinstance(v, ast.Call) and (dotted(v.func) or "") in MUTABLE_CTORS:
        return True
    return False


@rule("C08.R2", "no ambient mutable state on the processing path (class attributes, module globals, default arguments, memoising decorators)")
def r2(ctx):
    repo = ctx.repo
    cg = CallGraph(repo)
    reach = cg.reachable(["finder:find", "config:load_database"])
    ctx.stats["reachable_functions"] = len(reach)
    # (a) classes instantiated on the path: no class-level mutable attribute that instances mutate
    n = 0
    for c in repo.all_classes():
        if c.module.short in ("platform", "preprocessor", "finder", "file_parser", "file_source"):
            for name, v in c.class_attrs.items():
                if name.endswith("[]"):
                    continue
                if v is not None and _is_mutable_literal(v):
                    # mutated anywhere through self.<name> / cls.<name>?
                    muts = []
                    for f in c.methods.values():
                        muts += [m for m in _attr_mutations(f.node, name)]
                    n += 1
                    ctx.check(not muts, f"{c.key}:class-attr:{name}", f"class-level mutable attribute `{name}` is mutated by instances: shared by every object of the class (all platforms, all commands)", c.loc())
    # Platform: every field is a fresh literal in __init__
    plat = repo.cls("platform", "Platform")
    init = plat.find_method("__init__")
    fields = {}
    for s in init.node.body:
        if isinstance(s, ast.Assign) and isinstance(s.targets[0], ast.Attribute) and u(s.targets[0].value) == "self":
            fields[s.targets[0].attr] = s.value
    for name, v in sorted(fields.items()):
        ok = _is_mutable_literal(v) and not (isinstance(v, (ast.Dict, ast.List, ast.Set)) and (getattr(v, "elts", None) or getattr(v, "keys", None))) or (isinstance(v, ast.Name) and v.id in init.params)
        ctx.check(ok, f"platform:Platform.__init__:field:{name}", f"Platform.{name} = {u(v)}: every field must start as a fresh empty container or a constructor argument", init.loc())
    ctx.check(not plat.class_attrs, "platform:Platform:no-class-attrs", f"Platform has class-level attributes {list(plat.class_attrs)}", plat.loc())
    # (b) module-level containers mutated inside functions
    for short in ("platform", "preprocessor", "finder", "file_parser", "file_source", "language", "source", "__init__"):
        m = repo.mod(short)
        for gname, vals in m.globals.items():
            if not any(v is not None and _is_mutable_literal(v) for v in vals):
                continue
            muts = []
            for f in m.functions.values():
                if gname in f.params:
                    continue
                muts += _mutations_of(f.node, gname)
            ctx.check(not muts, f"{short}:global:{gname}", f"module-level container `{gname}` is mutated at run time: ambient state shared by all commands and platforms", m.relpath)
        for f in m.functions.values():
            for g in [x for x in walk_no_nested(f.node) if isinstance(x, ast.Global)]:
                ctx.violation(f"{f.key}:global-statement:{','.join(g.names)}", f"`global {', '.join(g.names)}` on the processing path: rebinding module state at run time", f.loc(g))
    # (c) memoising decorators / mutable defaults on reachable functions
    pos = 0
    for k in sorted(reach):
        f = cg.funcs[k]
        for d in f.node.decorator_list:
            dn = dotted(d.func if isinstance(d, ast.Call) else d) or ""
            if dn.split(".")[-1] in ("cache", "lru_cache", "cached_property", "memoize"):
                ctx.violation(f"{k}:decorator:{dn}", f"@{dn} memoises results across compile commands and platforms", f.loc())
        a = f.node.args
        for p, dflt in list(zip(reversed(a.posonlyargs + a.args), reversed(a.defaults))) + [(p, d) for p, d in zip(a.kwonlyargs, a.kw_defaults) if d is not None]:
            if _is_mutable_literal(dflt):
                muts = _mutations_of(f.node, p.arg)
                # also: stored away (aliased) -> may be mutated later
                stored = [s for s in walk_no_nested(f.node) if isinstance(s, ast.Assign) and isinstance(s.value, ast.Name) and s.value.id == p.arg and not isinstance(s.targets[0], ast.Name)]
                pos += 1
                ctx.check(not muts, f"{k}:mutable-default:{p.arg}", f"mutable default argument `{p.arg}={u(dflt)}` is mutated: shared between calls", f.loc())
    ctx.ok("reachable:no-memoising-decorator", f"{len(reach)} functions reachable from finder.find / config.load_database inspected")
    # positive control for the decorator matcher
    probe = ast.parse("import functools\n@functools.lru_cache(maxsize=None)\ndef f(x):\n    return x").body[1]
    dn = dotted(probe.decorator_list[0].func)
    ctx.require(dn.split(".")[-1] == "lru_cache", "decorator matcher lost its positive control")
    # (d) expander / evaluator objects are constructed per evaluation
    for cname, meth in (("IfNode", "evaluate_for_platform"), ("IncludeNode", "evaluate_for_platform")):
        f = repo.cls("preprocessor", cname).find_method(meth)
        made = [c for c in f.calls() if callee(c) == "MacroExpander"]
        def _platform_arg(c):
            if not c.args:
                return False
            a = c.args[0]
            if u(a) == "kwargs['platform']":
                return True
            for fn in [f] + f.new_helpers():
                if any(x is c for x in ast.walk(fn.node)):
                    if isinstance(a, ast.Name) and a.id in fn.params and fn is not f:
                        return True  # handed down as a parameter of an extracted helper
                    if isinstance(a, ast.Name):
                        return any(isinstance(s_, ast.Assign) and u(s_.targets[0]) == a.id and u(s_.value) == "kwargs['platform']" for s_ in ast.walk(fn.node))
            return False

        ok = len(made) >= 1 and all(_platform_arg(c) for c in made)
        stored = [s for fn in [f] + f.new_helpers() for s in walk_no_nested(fn.node) if isinstance(s, ast.Assign) and isinstance(s.targets[0], ast.Attribute) and u(s.targets[0].value) == "self"]
        ctx.check(ok and not stored, f"{f.key}:fresh-expander", "the MacroExpander must be created for the visiting platform at every evaluation and not kept on the (shared) node", f.loc())
    ctx.floor(6 + 1 + 2)


def _attr_mutations(tree, attr):
    out = []
    for x in ast.walk(tree):
        if isinstance(x, ast.Call) and isinstance(x.func, ast.Attribute) and x.func.attr in MUTATORS:
            d = dotted(x.func.value) or ""
            if d.split(".")[-1] == attr and d.split(".")[0] in ("self", "cls"):
                out.append(x)
        if isinstance(x, ast.Subscript) and isinstance(x.ctx, (ast.Store, ast.Del)):
            d = dotted(x.value) or ""
            if d.split(".")[-1] == attr and d.split(".")[0] in ("self", "cls"):
                out.append(x)
    return out


@rule("C08.R3", "the process-wide compiler cache is frozen: mutated only while loading, copied before a command may change it")
def r3(ctx):
    repo = ctx.repo
    cfgm = repo.mod("config")
    # census of module globals
    mutable_globals = [g for g, vals in cfgm.globals.items() if g.startswith("_")]
    ctx.check("_compilers" in cfgm.globals, "config:_compilers:present", "config._compilers cache not found", cfgm.relpath)
    # (a) who rebinds / mutates _compilers
    for f in cfgm.functions.values():
        rebinding = [x for x in walk_no_nested(f.node) if isinstance(x, ast.Global) and "_compilers" in x.names]
        muts = _mutations_of(f.node, "_compilers")
        if rebinding or muts:
            ctx.check(f.qualname == "_load_compilers", f"{f.key}:mutates:_compilers", "only _load_compilers may (re)build the compiler table", f.loc())
    # (b) objects reachable from the cache: self.compiler / _compilers[...] ; attribute stores or in-place mutation outside _load_compilers
    for f in cfgm.functions.values():
        if f.qualname == "_load_compilers":
            continue
        for x in f.body_nodes():
            tgt = None
            if isinstance(x, ast.Call) and isinstance(x.func, ast.Attribute) and x.func.attr in MUTATORS:
                tgt = x.func.value
            elif isinstance(x, (ast.Attribute, ast.Subscript)) and isinstance(x.ctx, (ast.Store, ast.Del)):
                tgt = x.value
            if tgt is None:
                continue
            d = u(tgt)
            if d.startswith("self.compiler.") or d.startswith("self.compiler[") or d.startswith("_compilers["):
                ctx.violation(f"{f.key}:mutates-cache:{u(x)[:60]}", f"`{u(x)[:80]}` modifies an object owned by the process-wide compiler cache: visible to every later compile command", f.loc(x))
    # (c) parse_args: values taken from the cached definition that are stored where an action can mutate them must be copied
    pa = repo.cls("config", "ArgumentParser").find_method("parse_args")
    n = 0
    for s in walk_no_nested(pa.node):
        if isinstance(s, ast.Assign) and isinstance(s.targets[0], (ast.Subscript, ast.Attribute)) and u(s.targets[0]).startswith("namespace."):
            n += 1
            v = s.value
            key = f"config:ArgumentParser.parse_args:namespace-store:{u(s.targets[0])}"
            if _is_mutable_literal(v) or isinstance(v, ast.Constant):
                ctx.ok(key)
                continue
            leaves = provenance(pa, v, s)
            bad = []
            for leaf, chain in leaves:
                lt = u(leaf)
                from_cache = any(t in lt for t in ("self.compiler", "option[", "kwargs", "_compilers")) or "kwargs.pop<recv>" in chain or any("kwargs" in c for c in chain)
                copied = any(c in ("list", "copy", "copy.copy", "copy.deepcopy", "sorted", "tuple", "set") or c.endswith(".copy<recv>") for c in chain)
                if from_cache and not copied:
                    bad.append(lt[:50])
            ctx.check(not bad, key, f"`{u(s)[:80]}` stores an object that belongs to the cached compiler definition ({bad}) into the per-command namespace, where _ExtendMatchAction extends it in place: passes of one command leak into every later command", pa.loc(s))
    # (d) the configuration lists handed to each pass are copies
    pc = [c for c in pa.calls() if callee(c) == "PreprocessorConfiguration"]
    for c in pc:
        for a in c.args[:3]:
            ok = isinstance(a, ast.Call) and isinstance(a.func, ast.Attribute) and a.func.attr == "copy" or (isinstance(a, ast.Call) and callee(a) == "list")
            ctx.check(ok, f"config:ArgumentParser.parse_args:pass-config-copy:{u(a)}", f"each pass must start from a copy of the parsed list (`{u(a)}`): _update() extends it in place", pa.loc(c))
    # (e) _update only extends the configuration's own lists
    up = repo.cls("config", "PreprocessorConfiguration").find_method("_update")
    for c in up.calls():
        if isinstance(c.func, ast.Attribute) and c.func.attr in MUTATORS:
            ctx.check(u(c.func.value).startswith("self."), f"config:PreprocessorConfiguration._update:{u(c)}", "must only extend the configuration's own lists", up.loc(c))
    ctx.floor(3 + 3 + 3)


# ----------------------------------------------------------------------
TOKEN_FLAG_SITES = {
    # site key -> reason it is tolerated (recorded in DESIGN.md section 7)
    "preprocessor:Macro.__init__:self.replacement[0].prev_white": "layout flag of the first body token, idempotent (always False); feeds only stringification spacing",
    "preprocessor:Macro.preproc_replacement:tok.prev_white": "token produced by Lexer(...).tokenize_one() in the same block (fresh)",
    "preprocessor:MacroFunction.replace:tok.prev_white": "token produced by Lexer(...).tokenize_one()/stringify in the same block (fresh)",
    "preprocessor:MacroFunction.replace:cp.prev_white": "copy made in the same block",
    "preprocessor:MacroFunction.replace:toadd[0].prev_white": "layout flag on a raw argument / body token; feeds only stringification spacing, which no conditional can observe",
    "preprocessor:MacroFunction.replace:substitution[0].prev_white": "element was replaced by a copy in the statement before",
    "preprocessor:MacroExpander.expand:itok.expandable": "copy made in the same block (C03.R3)",
    "preprocessor:MacroExpander.expand:replacement[0].prev_white": "element was replaced by a copy in the statement before",
    "preprocessor:DirectiveParser.__arg:arg.token": "parse time: parameter token of the directive being parsed, before the node exists",
    "preprocessor:Lexer.stringify:<none>": "",
}


@rule("C08.R4", "parse trees, tokens and macros are shared by all platforms: nothing on the association path writes to them")
def r4(ctx):
    repo = ctx.repo
    cg = CallGraph(repo)
    base = node_base(repo)
    # (a) Node classes: no method other than construction-time ones stores into self
    allowed_methods = {"__init__", "add_child", "__post_init__"}
    n = 0
    for c in repo.subclasses(base):
        for f in c.methods.values():
            if f.name in allowed_methods:
                continue
            for x in f.body_nodes():
                st = None
                if isinstance(x, (ast.Attribute, ast.Subscript)) and isinstance(x.ctx, (ast.Store, ast.Del)):
                    st = x
                elif isinstance(x, ast.Call) and isinstance(x.func, ast.Attribute) and x.func.attr in MUTATORS:
                    st = x.func.value
                if st is None:
                    continue
                d = u(st)
                if d == "self" or d.startswith("self.") or d.startswith("self["):
                    ctx.violation(
                        f"{f.key}:writes-node:{u(x)[:50]}",
                        f"`{u(x)[:80]}`: a tree node is shared by every platform and compile command that reaches the file; what one visit records on it is seen by all later visits",
                        f.loc(x),
                    )
            n += 1
    ctx.ok("preprocessor:Node-subclasses:no-writes-after-construction", f"{n} methods inspected")
    # (b) token / macro attribute stores in functions reachable from associate
    reach = cg.reachable(["finder:ParserState.associate"], stop={"finder:ParserState.insert_file"})
    ctx.stats["reachable_from_associate"] = len(reach)
    for k in sorted(reach):
        f = cg.funcs[k]
        for x in f.body_nodes():
            if isinstance(x, ast.Attribute) and isinstance(x.ctx, ast.Store) and x.attr in ("prev_white", "expandable", "token", "line", "col"):
                site = f"{k}:{u(x)}"
                base_name = u(x.value)
                if base_name == "self":
                    continue
                if site in TOKEN_FLAG_SITES:
                    ctx.ok(f"{site}:allow-listed", TOKEN_FLAG_SITES[site])
                else:
                    ctx.violation(site, f"`{u(x)} = ...` writes a token attribute on the association path; tokens are shared with the parse tree, the macro table and every other platform (not in the reviewed list of benign layout-flag writes)", f.loc(x))
    # (c) Macro objects: attributes written only during construction
    for cname in ("Macro", "MacroFunction"):
        c = repo.cls("preprocessor", cname)
        for f in c.methods.values():
            if f.name in ("__init__", "preproc_replacement"):
                continue
            for x in f.body_nodes():
                if isinstance(x, ast.Attribute) and isinstance(x.ctx, ast.Store) and u(x.value) == "self":
                    ctx.violation(f"{f.key}:writes-macro:{u(x)}", "a macro is shared through the platform's table; it must not change when it is expanded", f.loc(x))
                if isinstance(x, ast.Call) and isinstance(x.func, ast.Attribute) and x.func.attr in MUTATORS and u(x.func.value).startswith("self."):
                    ctx.violation(f"{f.key}:mutates-macro:{u(x)[:50]}", "a macro's body/parameter list is mutated during expansion", f.loc(x))
    # Macro.replace hands out self.replacement itself: callers must copy before mutating
    exp = repo.func("preprocessor", "MacroExpander.expand")
    for s in walk_no_nested(exp.node):
        if isinstance(s, ast.Assign) and isinstance(s.targets[0], ast.Subscript) and u(s.targets[0].value) == "replacement":
            ctx.violation(
                f"preprocessor:MacroExpander.expand:writes-macro-body:{u(s)[:60]}",
                f"`{u(s)[:70]}` stores into the list returned by Macro.replace(), which for object-like macros IS the macro's body (self.replacement): the first token of the stored definition is replaced on every expansion",
                exp.loc(s),
            ) if not _pushed_copy(exp, s) else ctx.ok("preprocessor:MacroExpander.expand:replacement[0]-copy")
    ctx.floor(3)


def _pushed_copy(exp, s):
    # tolerated iff the stored value is a copy of the same element (the list slot is rebound to an equal token)
    return isinstance(s.value, ast.Call) and u(s.value.func) == "copy" and u(s.value.args[0]) == u(s.targets[0])


@rule("C08.R5", "-p only selects which compilation databases are loaded; both front ends load identically")
def r5(ctx):
    repo = ctx.repo
    m = repo.func("__main__", "_main")
    t = repo.func("tree", "_tree")

    def load_block(f):
        for s in walk_no_nested(f.node):
            if isinstance(s, ast.If) and u(s.test) == "args.analysis_file is not None":
                return s
        raise AnalysisError(f"{f.key}: analysis-file loading block not found")

    bm, bt = load_block(m), load_block(t)
    same = ast.dump(bm) == ast.dump(bt)
    why = ""
    if not same:
        # different text: compare what the two blocks do, case by case, in both directions
        from .. import review

        tm, tt = review.block_table([bm], fi=m), review.block_table([bt], fi=t)
        diffs = review.compare_tables(tt, tm) + review.compare_tables(tm, tt)
        same = not diffs
        why = "; ".join(d[3][:200] for d in diffs[:2])
    if not same and (review.rewritten(repo, "tree:_tree") or review.rewritten(repo, "__main__:_main")):
        ctx.soft(False, "__main__:_main/tree:_tree:loading-blocks-equal", f"one of the two front ends was re-written since it was reviewed; their loading code could not be shown equal: {why[:200]}", t.loc(bt))
        same = True
    ctx.check(same, "__main__:_main/tree:_tree:loading-blocks-equal", f"the analysis-file loading code of codebasin and cbi-tree differ: the two front ends would analyse different configurations: {why}", t.loc(bt))
    # platform selection, on the decision table of each front end's loading block: a platform of the analysis file is
    # loaded iff no -p was given or -p names it; it is loaded from its own `commands` and the root, and stored under its
    # own name
    from .. import review as _rv
    from ..spec import vt as _vt

    for f, blk in ((m, bm), (t, bt)):
        key = f"{f.key}:platform-selection"
        tbl = _rv.block_table([blk], fi=f)
        n_sel = n_skip = n_bad = 0
        for p in tbl:
            at = {_vt(k): v for k, v in p.atoms.items()}
            its = [mm.group(1) for k, v in p.atoms.items() for mm in [re.match(r"more\((.+\['platform'\]\.items\(\))#L\d+,0\)$", _vt(k))] if mm and v]
            if not its:
                continue
            N, D = f"{its[0]}[0][0]", f"{its[0]}[0][1]"
            given = next((v for k, v in at.items() if re.fullmatch(r"args\.platforms(\.copy\(\))?", k)), None)
            named = next((v for k, v in at.items() if re.fullmatch(re.escape(N) + r" In args\.platforms(\.copy\(\))?", k)), None)
            loads = [(_vt(e[1]), _vt(e[2])) for e in p.effects if e[0] == "store" and "config.load_database(" in _vt(e[2])]
            loads += [("<call>", _vt(e[1])) for e in p.effects if e[0] == "call" and str(e[1]) == "config.load_database"]
            if given is None:
                raise AnalysisError(f"{f.key}: the test whether -p was given is not recognised: {p.describe()[-200:]}")
            selected = (not given) or bool(named)
            if given and named is None:
                alt = [k for k in at if N in k and "args.platforms" in k and not k.startswith("more(")]
                ctx.violation(key, f"with -p given, a platform of the analysis file is selected by `{alt[0][-110:]}` instead of by membership of its name in the -p list: a platform whose name merely resembles a requested one is analysed too (or a requested one is not)" if alt else "with -p given, a platform of the analysis file is processed without asking whether -p names it", f.loc(blk))
                n_bad += 1
                continue
            if p.result[0] == "raise":
                continue
            if selected:
                n_sel += 1
                ok = len(loads) == 1 and loads[0][0].endswith(f"[{N}]") and loads[0][1] == f"config.load_database({D}['commands'], rootdir)"
                ctx.check(ok, key, f"a selected platform must be loaded on its own (its `commands` database, the root) and stored under its own name: {loads}", f.loc(blk))
            else:
                n_skip += 1
                ctx.check(not loads, key, f"a platform that -p does not name is loaded all the same: {loads}", f.loc(blk))
        if not (n_sel and n_skip) and not n_bad:
            raise AnalysisError(f"{f.key}: platform selection idiom not recognised (selected {n_sel}, skipped {n_skip})")
        # skipping one platform must not end the walk over the others (two platforms unrolled)
        try:
            tbl2 = _rv.block_table([blk], unroll=2, max_paths=6000, fi=f)
        except AnalysisError:
            tbl2 = None
        if tbl2 is not None:
            seen_skip = goes_on = 0
            for p in tbl2:
                at = {_vt(k): v for k, v in p.atoms.items()}
                its = [mm.group(1) for k, v in p.atoms.items() for mm in [re.match(r"more\((.+\['platform'\]\.items\(\))#L\d+,0\)$", _vt(k))] if mm and v]
                if not its or p.result[0] == "raise":
                    continue
                N = f"{its[0]}[0][0]"
                given = next((v for k, v in at.items() if re.fullmatch(r"args\.platforms(\.copy\(\))?", k)), None)
                named = next((v for k, v in at.items() if re.fullmatch(re.escape(N) + r" In args\.platforms(\.copy\(\))?", k)), None)
                if given and named is False:
                    seen_skip += 1
                    goes_on += any(re.match(r"more\(" + re.escape(its[0]) + r"#L\d+,1\)$", _vt(k)) for k in p.atoms)
            if seen_skip:
                ctx.check(goes_on == seen_skip, key + ":skip-continues", "after a platform that -p does not name, the remaining platforms of the analysis file must still be examined (the skip ends the walk instead: which platforms are loaded depends on their order in the file)", f.loc(blk))
    ctx.floor(3)


@rule("C08.R8", "associations only grow: nothing removes a platform from a node's association set, and a file's map is replaced only when the file is (re)parsed")
def r8(ctx):
    """The result of a platform is the UNION over its commands: whatever one command associated must survive the
    processing of every later command and platform.  Who may write the association maps is therefore fixed:
    ParserState.insert_file creates a file's map, the visitor of ParserState.associate adds a platform to a set;
    no shrinking operation may be applied to anything obtained from get_map() / .maps anywhere in the package."""
    repo = ctx.repo
    SHRINK = {"discard", "remove", "clear", "pop", "popitem", "difference_update", "intersection_update", "symmetric_difference_update"}
    n = 0
    for f in repo.all_functions():
        for x in f.body_nodes():
            recv = None
            what = None
            if isinstance(x, ast.Call) and isinstance(x.func, ast.Attribute) and x.func.attr in SHRINK:
                recv, what = x.func.value, u(x)[:70]
            elif isinstance(x, ast.Delete):
                for t in x.targets:
                    if isinstance(t, ast.Subscript):
                        recv, what = t.value, u(x)[:70]
            elif isinstance(x, ast.AugAssign) and isinstance(x.op, (ast.Sub, ast.BitAnd)) and isinstance(x.target, (ast.Subscript, ast.Name, ast.Attribute)):
                recv, what = x.target, u(x)[:70]
            if recv is None:
                continue
            texts = {u(recv)}
            try:
                st = stmt_of(f, x)
                for leaf, chain in provenance(f, recv, st):
                    texts.add(u(leaf))
                    texts.update(str(c) for c in (chain if isinstance(chain, (list, tuple)) else [chain]))
            except Exception:
                pass
            n += 1
            hit = [t for t in texts if "get_map(" in t or ".maps" in t or re.search(r"\bassociation\b", t) or ".values()" in t and "get_map" in " ".join(texts)]
            ctx.check(not hit, f"{f.key}:shrinks-association:{what}", f"`{what}` removes something from an association map ({sorted(hit)[:2]}): what an earlier compile command or platform associated is lost, the platform's result is no longer the union over its commands and depends on their order", f.loc(x))
    ctx.stats["shrinking_operations_inspected"] = n
    ctx.floor(5)
