"""C11 - -D/-I/-isystem/-include are extracted from any command line."""

from __future__ import annotations

import ast

from ..callgraph import CallGraph
from ..decision import NOTHING, Evaluator, Hooks, Sym, vtext
from ..model import AnalysisError, callee, const, dotted, u, walk_no_nested
from ..run import rule
from ..tables import add_argument_calls

REQUIRED = {
    ("-D",): ("defines", "append"),
    ("-I", "-isystem"): ("include_paths", "append"),
    ("-include",): ("include_files", "append"),
}
# single-letter flags that real compilers accept without a value (gcc: -O means -O1)
OPTIONAL_VALUE_FLAGS = {"-O", "-g", "-W", "-f", "-m"}
SAFE_PARSER_KW = {"add_help": "False", "exit_on_error": "False", "allow_abbrev": "False"}


def _parse_args(repo):
    f = repo.cls("config", "ArgumentParser").find_method("parse_args")
    if f is None:
        raise AnalysisError("anchor vanished: config.ArgumentParser.parse_args")
    return f


def _registrations(f):
    regs = []
    calls = list(add_argument_calls(f.node))
    for h in f.new_helpers():  # registrations moved into helpers extracted from parse_args
        calls += list(add_argument_calls(h.node))
    for c in calls:
        flags = tuple(a.value for a in c.args if isinstance(a, ast.Constant) and isinstance(a.value, str))
        kw = {k.arg: k.value for k in c.keywords}
        regs.append((flags, kw, c))
    return regs


@rule("C11.R1", "the recognised options are registered as append actions on an argparse parser that never abbreviates, never reads files and never exits")
def r1(ctx):
    repo = ctx.repo
    f = _parse_args(repo)
    regs = _registrations(f)
    for flags, (dest, action) in REQUIRED.items():
        key = f"config:ArgumentParser.parse_args:option:{','.join(flags)}"
        hit = [r for r in regs if set(flags) <= set(r[0])]
        if len(hit) != 1:
            ctx.violation(key, f"{flags} must be registered together exactly once (found {len(hit)})", f.loc())
            continue
        fl, kw, c = hit[0]
        ok = set(fl) == set(flags) and const(kw.get("dest")) == dest and const(kw.get("action")) == action and set(kw) <= {"dest", "action"}
        ctx.check(ok, key, f"must be add_argument({', '.join(map(repr, flags))}, dest={dest!r}, action={action!r}) with no type/choices/nargs that could reject or reshape a value: {u(c)}", f.loc(c))
    # parser construction
    ctor = [c for c in f.calls() if callee(c) == "argparse.ArgumentParser"]
    ctx.require(len(ctor) == 1, "parse_args: argparse.ArgumentParser(...) construction not found")
    kw = {k.arg: u(k.value) for k in ctor[0].keywords}
    for k, v in SAFE_PARSER_KW.items():
        ctx.check(kw.get(k) == v, f"config:ArgumentParser.parse_args:parser:{k}", f"parser must be built with {k}={v} (got {kw.get(k)})", f.loc(ctor[0]))
    for k in kw:
        if k not in SAFE_PARSER_KW:
            ctx.violation(f"config:ArgumentParser.parse_args:parser-option:{k}", f"argparse option `{k}={kw[k]}` changes how argument vectors are read (e.g. fromfile_prefix_chars makes every '@...' argument a response file that is opened - SystemExit when missing, injected text otherwise)", f.loc(ctor[0]))
    ctx.check(not ctor[0].args, "config:ArgumentParser.parse_args:parser:no-positional", "unexpected positional arguments to ArgumentParser", f.loc(ctor[0]))
    # parse_known_args on argv + implicit options; unknown ones reported
    pk = [c for c in f.calls() if isinstance(c.func, ast.Attribute) and c.func.attr in ("parse_known_args", "parse_args", "parse_intermixed_args", "parse_known_intermixed_args") and u(c.func.value) == "parser"]
    ok = len(pk) == 1 and pk[0].func.attr == "parse_known_args"
    ctx.check(ok, "config:ArgumentParser.parse_args:parse_known_args", "arguments must be parsed with parse_known_args (unknown options are collected, not fatal)", f.loc())
    if ok:
        a0n = pk[0].args[0] if pk[0].args else None
        if isinstance(a0n, ast.Name):
            defs = [x.value for x in walk_no_nested(f.node) if isinstance(x, ast.Assign) and u(x.targets[0]) == a0n.id]
            if len(defs) == 1:
                a0n = defs[0]
        a0 = u(a0n) if a0n is not None else ""
        ctx.check(a0 == f"{f.params[1]} + self.compiler.options", "config:ArgumentParser.parse_args:argv-then-implicit", f"the vector parsed must be the command's arguments followed by the compiler's implicit options: {a0}", f.loc(pk[0]))
    warn = [s for s in walk_no_nested(f.node) if isinstance(s, ast.If) and u(s.test) == "unrecognized" and any(isinstance(x, ast.Call) and u(x.func) == "log.warning" for x in ast.walk(s))]
    ctx.soft(len(warn) == 1, "config:ArgumentParser.parse_args:unrecognized-warned", "unrecognised arguments must be reported with a warning", f.loc())
    # namespace initialised with fresh lists
    for name in ("defines", "include_paths", "include_files", "modes", "passes"):
        ok = any(isinstance(s, ast.Assign) and u(s.targets[0]) == f"namespace.{name}" and isinstance(s.value, ast.List) and not s.value.elts for s in f.node.body)
        ctx.check(ok, f"config:ArgumentParser.parse_args:namespace.{name}:fresh", f"namespace.{name} must start as a fresh empty list for every command", f.loc())
    # the positional catch-all
    pos = [r for r in regs if r[0] and not r[0][0].startswith("-")]
    ok = len(pos) == 1 and const(pos[0][1].get("nargs")) == "*"
    ctx.soft(ok, "config:ArgumentParser.parse_args:positional-files", "positional arguments (source files) must be absorbed with nargs='*'", f.loc())
    ctx.floor(3 + 3 + 3 + 5)


@rule("C11.R2", "option shapes that make argparse reject or mis-split real compiler flags")
def r2(ctx):
    repo = ctx.repo
    f = _parse_args(repo)
    regs = _registrations(f)
    for flags, kw, c in regs:
        act = const(kw.get("action"))
        for fl in flags:
            if not fl.startswith("-") or fl.startswith("--"):
                continue
            takes_value = act in (None, "store", "append", "extend") and const(kw.get("nargs")) != 0
            if len(fl) == 2 and not takes_value:
                # single-letter option without a value: argparse treats "-g3"/"-ggdb"/"-ccbin" as -g with an
                # explicit argument and raises ArgumentError("ignored explicit argument")
                ctx.violation(
                    f"config:ArgumentParser.parse_args:shape:{fl}:zero-arg-single-letter",
                    f"`{fl}` is a single-letter option that takes no value: any flag that merely starts with it (e.g. {fl}3, {fl}gdb, {fl}cbin) raises ArgumentError and aborts the analysis",
                    f.loc(c),
                )
            elif len(fl) == 2 and takes_value and const(kw.get("dest")) is None and act is None and fl in OPTIONAL_VALUE_FLAGS:
                # value-taking single letter that is only there to swallow: as last argument it raises
                ctx.violation(
                    f"config:ArgumentParser.parse_args:shape:{fl}:value-required",
                    f"`{fl}` requires a value: a bare `{fl}` (or `{fl}` as the last argument) raises ArgumentError and aborts the analysis",
                    f.loc(c),
                )
            elif len(fl) > 2 and takes_value:
                ctx.violation(
                    f"config:ArgumentParser.parse_args:shape:{fl}:no-attached-value",
                    f"`{fl}` is a multi-letter single-dash option taking a value: argparse cannot take it attached (`{fl}dir` is not recognised and the value is dropped)",
                    f.loc(c),
                )
            else:
                ctx.ok(f"config:ArgumentParser.parse_args:shape:{fl}")
    # error discipline: exit_on_error=False means ArgumentError escapes parse_known_args
    cg = CallGraph(repo)
    handled = False
    for n in walk_no_nested(f.node):
        if isinstance(n, ast.Try) and any("ArgumentError" in u(h.type) for h in n.handlers if h.type is not None):
            handled = True
    ld = repo.func("config", "load_database")
    for n in walk_no_nested(ld.node):
        if isinstance(n, ast.Try) and any(h.type is None or "ArgumentError" in u(h.type) or u(h.type) in ("Exception",) for h in n.handlers):
            handled = True
    if not handled:
        ctx.violation(
            "config:ArgumentParser.parse_args:ArgumentError-unhandled",
            "argparse.ArgumentError raised by parse_known_args (exit_on_error=False) is caught nowhere below main(): one unmodelled flag aborts the whole analysis",
            f.loc(),
        )
    else:
        ctx.ok("config:ArgumentParser.parse_args:ArgumentError-handled")
    ctx.floor(6)


@rule("C11.R4", "the `command` string and the `arguments` array of a database entry are equivalent; argv reaches the parser verbatim")
def r4(ctx):
    repo = ctx.repo
    cc = repo.cls("__init__", "CompileCommand")
    arg = cc.find_method("arguments")
    ctx.require(arg is not None, "CompileCommand.arguments missing")
    paths = Evaluator(Hooks()).paths(arg.node)
    for p in paths:
        key = "__init__:CompileCommand.arguments:" + ",".join(f"{k}={int(v)}" for k, v in p.atoms.items())
        isnone = p.atoms.get("None Eq self._arguments")
        extra = [k for k in p.atoms if k != "None Eq self._arguments"]
        rv = vtext(p.result[1]) if p.result[0] == "return" else None
        if extra or isnone is None:
            ctx.violation(key, f"the choice between the two forms must depend only on `self._arguments is None` (an empty array is an empty command, not a missing one): {p.describe()}", arg.loc())
        elif isnone:
            ctx.check(rv == "shlex.split(self._command)", key, f"without an `arguments` array the command string must be split with shlex.split: returns {rv}", arg.loc())
        else:
            ctx.check(rv == "self._arguments", key, f"an `arguments` array must be passed through verbatim (no re-joining / re-splitting, which loses quotes and spaces): returns {rv}", arg.loc())
    # readers of the raw fields
    for fld, allowed in (("_command", {"arguments", "__str__", "__init__"}), ("_arguments", {"arguments", "__str__", "__init__"})):
        for f in repo.all_functions():
            for n in f.body_nodes():
                if isinstance(n, ast.Attribute) and n.attr == fld:
                    ok = f.cls is cc and f.name in allowed
                    ctx.check(ok, f"{f.key}:reads:{fld}", f"`{u(n)}`: the raw field must only be read by CompileCommand.arguments/__str__", f.loc(n))
    # load_database hands argv[0] to the compiler lookup and argv[1:] to the parser
    ld = repo.func("config", "load_database")
    pa = [c for c in ld.calls() if isinstance(c.func, ast.Attribute) and c.func.attr == "parse_args"]
    ok = len(pa) == 1 and [u(a) for a in pa[0].args] == ["command.arguments[1:]"]
    ctx.check(ok, "config:load_database:argv-tail-to-parser", f"the parser must receive command.arguments[1:]: {[u(c) for c in pa]}", ld.loc())
    # entry fields written after parsing: only `file` and `include_paths`
    for s in walk_no_nested(ld.node):
        if isinstance(s, ast.Assign) and isinstance(s.targets[0], ast.Subscript) and u(s.targets[0].value) == "entry":
            k = const(s.targets[0].slice)
            ctx.check(k in ("file", "include_paths"), f"config:load_database:entry-store:{u(s.targets[0].slice)}", f"`{u(s)[:80]}` rewrites an extracted option list: defines and forced includes must reach the preprocessor exactly as given on the command line (a -include value is searched like a quote include, it is not a path relative to the build directory)", ld.loc(s))
    ent = [s for s in walk_no_nested(ld.node) if isinstance(s, ast.Assign) and u(s.targets[0]) == "entry"]
    ctx.soft(len(ent) == 1 and u(ent[0].value) == "asdict(preprocessor_config)", "config:load_database:entry-from-config", "each entry must be the parsed configuration as a dict", ld.loc())
    ctx.floor(2 + 4 + 3)


# ----------------------------------------------------------------------
# R5: the option table checked against a catalogue of real compiler flags, with the standard
# library's argparse as the model of itself (the registrations are EXTRACTED from the source and the
# TOML files; no repository code runs).

CATALOGUE = {
    # flag vector -> (expected defines, expected include_paths, expected include_files) contributed by it
    "gcc": [
        ["-g"], ["-g3"], ["-ggdb"], ["-O"], ["-O2"], ["-O3"], ["-Ofast"], ["-Wall"], ["-Wextra"], ["-Werror"], ["-std=c++17"], ["-MF", "x.d"], ["-MD"], ["-MMD"],
        ["-MT", "x.o"], ["-MP"], ["-fPIC"], ["-fopenmp"], ["-march=native"], ["-mavx"], ["-mavx2"], ["-mavx512f"], ["-msse4.2"], ["-mfma"], ["-pthread"], ["-pipe"],
        ["-c"], ["-o", "x.o"], ["-x", "c++"], ["-shared"], ["-static"], ["-lm"], ["-Ldir"], ["-w"], ["-v"], ["-E"], ["-S"], ["-P"], ["-C"], ["-H"], ["-M"], ["-MM"],
        ["-UX"], ["-nostdinc"], ["-idirafter", "d"], ["-iquote", "d"], ["-fno-exceptions"], ["-funroll-loops"], ["-ffast-math"], ["-flto"], ["-Wno-unused"], ["-fvisibility=hidden"],
        ["-DX"], ["-D", "X"], ["-DX=1"], ["-DX=a b"], ["-Iinc"], ["-I", "inc"], ["-isystem", "sys"], ["-isystemsys"], ["-include", "f.h"], ["-includef.h"],
        ["-p"], ["-pg"], ["-pedantic"], ["-pie"], ["-s"], ["-r"], ["-ansi"], ["-O0"], ["-O1"], ["-Os"], ["-Wpedantic"], ["-fPIE"], ["-m64"], ["-m32"], ["-rdynamic"], ["-nostdlib"],
        ["-B", "dir"], ["-u", "sym"], ["-z", "now"], ["-T", "script"], ["-e", "entry"], ["-dumpversion"], ["-print-search-dirs"], ["-Q"], ["-time"], ["-save-temps"], ["-undef"], ["-trigraphs"],
        ["-D-X"], ["-I-weird"], ["--sysroot=/x"], ["-Wl,-rpath,/x"], ["-fdiagnostics-color=always"], ["-gdwarf-4"], ["-gsplit-dwarf"], ["-coverage"], ["-fcf-protection"],
    ],
    "clang": [["-fsycl"], ["-p"], ["-pthread"], ["-fsycl-is-device"], ["-fcolor-diagnostics"], ["-fsycl-unnamed-lambda"], ["-Weverything"], ["-g3"], ["-O2"], ["-cc1"], ["-fPIC"],
              ["-mavx"], ["-mavx2"], ["-msse4.2"], ["-march=native"], ["-cxx-isystem", "d"], ["-fopenmp=libomp"], ["-fopenmp"], ["-include-pch", "x.pch"], ["-isystem-after", "d"],
              ["-stdlib=libc++"], ["-fmodules"], ["-Xclang", "-fno-validate-pch"], ["-ffp-model=fast"], ["-fno-sycl"], ["-ffast-math"], ["-mllvm", "-x"], ["-Rpass=inline"]],
    "icx": [["-fsycl"], ["-fsycl-targets=spir64"], ["-fsycl-unnamed-lambda"], ["-qopenmp"], ["-fopenmp"], ["-xHost"], ["-g3"], ["-O2"], ["-fiopenmp"], ["-fopenmp-targets=spir64"]],
    "nvcc": [["-ccbin", "g++"], ["-gencode", "arch=compute_70,code=sm_70"], ["-arch=sm_70"], ["--gpu-architecture=sm_80"], ["-Xcompiler", "-fPIC"], ["-lineinfo"], ["-rdc=true"], ["-dc"],
             ["-dlink"], ["-std=c++17"], ["-O3"], ["-g"], ["-G"], ["--expt-relaxed-constexpr"], ["-use_fast_math"], ["-maxrregcount=64"], ["-cudart", "static"]],
}
EXPECT = {
    ("-DX",): (["X"], [], []), ("-D", "X"): (["X"], [], []), ("-DX=1",): (["X=1"], [], []), ("-DX=a b",): (["X=a b"], [], []), ("-D-X",): (["-X"], [], []),
    ("-Iinc",): ([], ["inc"], []), ("-I", "inc"): ([], ["inc"], []), ("-I-weird",): ([], ["-weird"], []),
    ("-isystem", "sys"): ([], ["sys"], []), ("-isystemsys",): ([], ["sys"], []),
    ("-include", "f.h"): ([], [], ["f.h"]), ("-includef.h",): ([], [], ["f.h"]),
}


def _model_parser(f, extra):
    import argparse

    regs = _registrations(f)
    p = argparse.ArgumentParser(add_help=False, exit_on_error=False, allow_abbrev=False)
    ctor = [c for c in f.calls() if callee(c) == "argparse.ArgumentParser"]
    if ctor:
        kw = {}
        for k in ctor[0].keywords:
            try:
                kw[k.arg] = ast.literal_eval(k.value)
            except Exception:
                pass
        try:
            p = argparse.ArgumentParser(**kw)
        except TypeError:
            pass
    for flags, kw, c in regs:
        if not flags:
            continue  # the generic `add_argument(*option["flags"], ...)` for compiler-specific options (modelled via `extra`)
        args = {}
        for k, v in kw.items():
            try:
                args[k] = ast.literal_eval(v)
            except Exception:
                pass
        if args.get("action") == "store_const" and "const" not in args:
            args["const"] = None
        try:
            p.add_argument(*flags, **args)
        except Exception as e:
            raise AnalysisError(f"argparse model: cannot register {flags}: {e}")
    for opt in extra:
        a = {"dest": "x_" + opt.get("dest", "d")}
        act = opt.get("action")
        if opt.get("dest") in ("defines", "include_paths", "include_files") and act in ("append_const", "append"):
            a["dest"] = opt["dest"]  # contributes directly to an extracted list: modelled as what it is
        if act == "append_const":
            a.update(action="append_const", const=opt.get("const"))
        elif act in ("store_split", "extend_match", "store", None):
            a.update(action="append")
        elif act == "append":
            a.update(action="append")
        elif act in ("store_const", "store_true", "store_false"):
            a.update(action="store_true")
        else:
            a.update(action="append")
        try:
            p.add_argument(*opt["flags"], **a)
        except Exception as e:
            raise AnalysisError(f"argparse model: cannot register {opt['flags']}: {e}")
    return p


@rule("C11.R5", "the option table against a catalogue of real compiler flags: recognised options are extracted, everything else is ignored, nothing aborts")
def r5(ctx):
    import argparse

    repo = ctx.repo
    f = _parse_args(repo)
    from .c12 import _compiler_defs

    defs = _compiler_defs(repo)
    compilers = {}
    for fname, t in defs.items():
        for cname, c in t.get("compiler", {}).items():
            compilers[cname] = c
    n = 0
    for comp, vectors in CATALOGUE.items():
        c = compilers.get(comp, {})
        seen = 0
        while "alias_of" in c and seen < 5:
            c = compilers.get(c["alias_of"], {})
            seen += 1
        extra = c.get("parser", [])
        for opt in extra:
            # an option of the compiler definition that feeds one of the extracted lists must ADD to it: the lists hold
            # what the whole command line gave, in order
            if opt.get("dest") in ("defines", "include_paths", "include_files"):
                n += 1
                k_ = f"config:ArgumentParser.parse_args:catalogue:{comp}:{opt.get('flags', ['?'])[0]}:adds-to-{opt.get('dest')}"
                bad_ = opt.get("override") is True or opt.get("action") in ("store", "store_const")
                ctx.check(not bad_, k_, f"`{' / '.join(opt.get('flags', []))}` of {comp} writes `{opt.get('dest')}` with {'override = true' if opt.get('override') else 'action = ' + str(opt.get('action'))}: it REPLACES the list, so every -I / -D / -include given earlier on the command line is dropped", f.loc())
        items = list(vectors) + ([] if comp == "gcc" else [])
        for vec in items:
            n += 1
            key = f"config:ArgumentParser.parse_args:catalogue:{comp}:{' '.join(vec)}"
            argv = ["-DA=1"] + list(vec) + ["-Ilast", "a.c"] + list(c.get("options", []))
            exp = EXPECT.get(tuple(vec), ([], [], []))
            for opt in extra:
                # a compiler definition may declare what one of its own flags contributes (e.g. -pthread defines _REENTRANT)
                if len(vec) == 1 and vec[0] in opt.get("flags", []) and opt.get("action") == "append_const" and opt.get("dest") in ("defines", "include_paths", "include_files"):
                    idx = ("defines", "include_paths", "include_files").index(opt["dest"])
                    exp = tuple(list(x) + ([opt.get("const")] if j == idx else []) for j, x in enumerate(exp))
            want_d = ["A=1"] + exp[0] + [o[2:] for o in c.get("options", []) if o.startswith("-D")]
            want_i = exp[1] + ["last"]
            want_f = exp[2]
            p = _model_parser(f, extra)
            ns = argparse.Namespace(defines=[], include_paths=[], include_files=[])
            try:
                import contextlib, io

                with contextlib.redirect_stderr(io.StringIO()):
                    got, unknown = p.parse_known_args(argv, ns)
            except (argparse.ArgumentError, SystemExit) as e:
                ctx.violation(key + ":aborts", f"`{comp} {' '.join(vec)}`: argparse rejects the command line ({type(e).__name__}: {str(e)[:80]}) - nothing catches it, the analysis aborts", f.loc())
                continue
            declared = {fl_ for opt in extra for fl_ in opt.get("flags", [])}
            if not any(v_ in declared or v_.split("=", 1)[0] in declared for v_ in vec):
                # a flag the compiler definition does not declare must not set off one that it does (modes and passes
                # select predefined macros): argparse matches single-dash words by prefix
                hit = sorted(k_ for k_, v_ in vars(got).items() if k_.startswith("x_") and v_ not in (None, False, []))
                if hit:
                    ctx.violation(key + ":triggers-declared-option", f"`{comp} {' '.join(vec)}` is not declared for {comp}, yet it is taken for a declared option (sets {[h[2:] for h in hit]}): argparse matches `{vec[0]}` as a prefix of a declared flag, so its modes/passes and their predefined macros are applied", f.loc())
                    continue
            d, i, fl = list(got.defines or []), list(got.include_paths or []), list(got.include_files or [])
            if (d, i, fl) != (want_d, want_i, want_f):
                ctx.violation(key + ":extraction", f"`{comp} {' '.join(vec)}` yields defines={d} include_paths={i} include_files={fl}; expected {want_d} / {want_i} / {want_f}", f.loc())
            else:
                ctx.ok(key)
    ctx.stats["catalogue_vectors"] = n
    ctx.floor(60)


@rule("C11.R6", "both entry forms are accepted by the schema and become one command each (= C13.R7)")
def r6(ctx):
    from .c13 import r7 as c13r7

    c13r7(ctx)
