"""C03 - macro definition and expansion: bookkeeping invariants, slot discipline,
argument splitting, -D parity.  Token-sequence equality with a conforming
preprocessor is NOT decided (behavioural)."""

from __future__ import annotations

import ast
import re

from ..decision import NOTHING, Evaluator, Hooks, Sym, vtext
from ..model import AnalysisError, callee, const, dotted, u, walk_no_nested
from ..run import rule


def _stmts_blocks(fn):
    """Yield every statement list (block) in a function."""
    for n in walk_no_nested(fn):
        for fld in ("body", "orelse", "finalbody"):
            b = getattr(n, fld, None)
            if isinstance(b, list) and b and isinstance(b[0], ast.stmt):
                yield b
        if isinstance(n, ast.Try):
            for h in n.handlers:
                yield h.body


def _is_call_stmt(s, ftext):
    # `L.pop()` as a statement, or its value used in the same simple statement (`top = L.pop()`)
    return isinstance(s, (ast.Expr, ast.Assign, ast.AnnAssign, ast.AugAssign)) and any(isinstance(x, ast.Call) and u(x.func) == ftext for x in ast.walk(s))


@rule("C03.R1", "parser_stack and no_expand move in lock-step (every push/pop paired in the same block)")
def r1(ctx):
    repo = ctx.repo
    me = repo.cls("preprocessor", "MacroExpander")
    n = 0
    for f in me.methods.values():
        # a local bound once to one of the stacks (`stack = self.parser_stack`) is that stack
        binds = {}
        for x in walk_no_nested(f.node):
            if isinstance(x, ast.Name) and isinstance(x.ctx, ast.Store):
                binds.setdefault(x.id, 0)
                binds[x.id] += 1
        alias = {"self.parser_stack": ["self.parser_stack"], "self.no_expand": ["self.no_expand"]}
        for x in walk_no_nested(f.node):
            if isinstance(x, ast.Assign) and len(x.targets) == 1 and isinstance(x.targets[0], ast.Name) and u(x.value) in alias and binds.get(x.targets[0].id) == 1:
                alias[u(x.value)].append(x.targets[0].id)
        for blk in _stmts_blocks(f.node):
            for kind in ("append", "pop"):
                a = [s for s in blk if any(_is_call_stmt(s, f"{r}.{kind}") for r in alias["self.parser_stack"])]
                b = [s for s in blk if any(_is_call_stmt(s, f"{r}.{kind}") for r in alias["self.no_expand"])]
                if not a and not b:
                    continue
                n += 1
                key = f"{f.key}:{kind}:{u(a[0] if a else b[0])[:50]}"
                ok = len(a) == len(b)
                if ok:
                    # no branching statement between the paired calls
                    for x, y in zip(a, b):
                        i, j = sorted((blk.index(x), blk.index(y)))
                        if any(isinstance(s, (ast.If, ast.For, ast.While, ast.Try, ast.Return, ast.Raise)) for s in blk[i:j]):
                            ok = False
                ctx.check(ok, key, f"{len(a)} parser_stack.{kind} vs {len(b)} no_expand.{kind} in the same block: the paint stack would go out of step with the frame stack", f.loc(a[0] if a else b[0]))
    # overflow handler re-initialises both
    exp = me.find_method("expand")
    handlers = [h for t in walk_no_nested(exp.node) if isinstance(t, ast.Try) for h in t.handlers if h.type is not None and u(h.type) == "MacroExpandOverflow"]
    ok = len(handlers) == 1 and any(u(s) == "self.__init__(self.platform)" for s in handlers[0].body)
    ctx.check(ok, "preprocessor:MacroExpander.expand:overflow-handler-resets", "MacroExpandOverflow must be caught in expand() and both stacks reset", exp.loc())
    init = me.find_method("__init__")
    fresh = {u(s.targets[0]) for s in init.node.body if isinstance(s, ast.Assign) and isinstance(s.value, ast.List) and not s.value.elts}
    ctx.check({"self.parser_stack", "self.no_expand"} <= fresh, "preprocessor:MacroExpander.__init__:fresh-stacks", "both stacks must start empty per expander", init.loc())
    ctx.floor(4 + 2)


@rule("C03.R2", "expansion has a finite depth backstop reached from every frame push")
def r2(ctx):
    repo = ctx.repo
    me = repo.cls("preprocessor", "MacroExpander")
    oc = me.find_method("overflow_check")
    ctx.require(oc is not None, "overflow_check missing")
    # raises when len(parser_stack) >= max_level, max_level a finite constant
    ev = Evaluator(Hooks())
    paths = ev.paths(oc.node)
    raised = [p for p in paths if p.result[0] == "raise"]
    ok = len(paths) == 2 and len(raised) == 1 and "MacroExpandOverflow" in raised[0].result[1]
    if ok:
        k = next(iter(raised[0].atoms))
        ok = "len(self.parser_stack)" in k and "self.max_level" in k and ((" Lt " in k and not raised[0].atoms[k]) or (" Gt " in k and (raised[0].atoms[k] or True)))
    ctx.check(ok, "preprocessor:MacroExpander.overflow_check:raises-at-bound", f"must raise MacroExpandOverflow exactly when the frame stack reaches max_level: {[p.describe() for p in paths]}", oc.loc())
    init = me.find_method("__init__")
    lv = [s.value for s in init.node.body if isinstance(s, ast.Assign) and u(s.targets[0]) == "self.max_level"]
    if len(lv) == 1 and isinstance(lv[0], ast.Name):
        # an optional parameter that nothing passes holds its default
        from ..decision import _unpassed_new_defaults

        dflt = _unpassed_new_defaults(init)
        if lv[0].id in dflt:
            lv = [ast.Constant(value=dflt[lv[0].id])]
    ok = len(lv) == 1 and isinstance(lv[0], ast.Constant) and isinstance(lv[0].value, int) and 15 <= lv[0].value <= 100000
    ctx.check(ok, "preprocessor:MacroExpander.__init__:max_level-finite", f"max_level must be a finite integer constant >= 15 (C minimum nesting): {[u(x) for x in lv]}", init.loc())
    # every method that appends a frame calls overflow_check
    for f in me.methods.values():
        appends = [c for c in f.calls() if u(c.func) == "self.parser_stack.append"]
        if not appends:
            continue
        has = any(u(c.func) == "self.overflow_check" for c in f.calls())
        ctx.check(has, f"{f.key}:frame-push-checked", "pushes a frame without calling overflow_check: unbounded recursion instead of the depth backstop", f.loc())
    # argument pre-expansion must go through the same expander (shares depth and paint state)
    exp = me.find_method("expand")
    n_pre = 0
    for c in exp.calls():
        if isinstance(c.func, ast.Attribute) and c.func.attr == "expand":
            n_pre += 1
            kw = {k.arg: u(k.value) for k in c.keywords}
            ok = u(c.func.value) == "self" and kw.get("pre_expand") == "True"
            ctx.check(ok, f"preprocessor:MacroExpander.expand:pre-expansion:{u(c)[:60]}", f"argument pre-expansion must be `self.expand(arg, ..., pre_expand=True)` - a fresh expander loses the depth counter and the set of macros being expanded (argument-borne recursion never terminates): {u(c)}", exp.loc(c))
    ctx.check(n_pre >= 1, "preprocessor:MacroExpander.expand:pre-expands-arguments", "no argument pre-expansion call found", exp.loc())
    # main loop: every `continue`/fallthrough path consumes or replaces or advances
    ctx.floor(5)


@rule("C03.R3", "painting: blue-painted identifier is a copy; not_expandable consults flag and paint stack; macro pushed under its own name")
def r3(ctx):
    repo = ctx.repo
    me = repo.cls("preprocessor", "MacroExpander")
    ne = me.find_method("not_expandable")
    paths = Evaluator(Hooks()).paths(ne.node)
    p0 = ne.params[1]
    a1, a2 = f"{p0}.expandable", f"{p0}.token In self.no_expand"
    bad = None
    for p in paths:
        if set(p.atoms) - {a1, a2}:
            bad = f"depends on {set(p.atoms) - {a1, a2}}"
            break
        exp = p.atoms.get(a1)
        inl = p.atoms.get(a2)
        # reference: (not expandable) or (in no_expand)
        cases = [(e, i) for e in ([exp] if exp is not None else [True, False]) for i in ([inl] if inl is not None else [True, False])]
        want = {(not e) or i for e, i in cases}
        got = p.result[1] if p.result[0] == "return" else None
        if len(want) != 1 or got is not (next(iter(want))):
            bad = f"row {p.describe()} - expected not expandable or painted"
            break
    ctx.check(bad is None, "preprocessor:MacroExpander.not_expandable:truth-table", f"not_expandable must be (not ident.expandable) or (ident.token in self.no_expand): {bad}", ne.loc())
    exp = me.find_method("expand")
    # the token marked non-expandable is a copy made in the same block
    stores = [n for n in walk_no_nested(exp.node) if isinstance(n, ast.Assign) and isinstance(n.targets[0], ast.Attribute) and n.targets[0].attr == "expandable"]
    ctx.check(len(stores) >= 1, "preprocessor:MacroExpander.expand:paints", "no store to .expandable found in expand()", exp.loc())
    for s in stores:
        base = u(s.targets[0].value)
        ok = False
        for blk in _stmts_blocks(exp.node):
            if s in blk:
                i = blk.index(s)
                ok = any(isinstance(x, ast.Assign) and u(x.targets[0]) == base and isinstance(x.value, ast.Call) and u(x.value.func) == "copy" for x in blk[:i])
        ctx.check(ok, f"preprocessor:MacroExpander.expand:paint-on-copy:{u(s)}", f"`{u(s)}` must mark a copy of the token: tokens are shared with the parse tree and with every other platform", exp.loc(s))
    # pushes (decision table of one scanner iteration): a replacement is pushed exactly when a macro was looked up and
    # found expandable, once, under the macro's own name
    from .. import review
    from ..spec import vt

    t = review.table(exp, unroll=0, events=True)
    if isinstance(t, Exception) or not t:
        raise AnalysisError(f"MacroExpander.expand: decision table not available ({t})")
    n_push = 0
    for p in t:
        pushes = [e for e in p.effects if e[0] == "call" and e[1] == "self.push"]
        macros = {m.group(1) for k, v in p.atoms.items() if v for m in [re.match(r"isinstance\((.+), (Macro|MacroFunction)\)$", vt(k))] if m}
        replaced = [m for m in macros if any(f"{m}.replace(" in vt(x) for e in pushes for x in e[2:3])]
        key = f"preprocessor:MacroExpander.expand:push:{'macro' if macros else 'no-macro'}"
        if not macros:
            ctx.check(not pushes, key, f"something is pushed although no macro was found: {[vt(x) for e in pushes for x in e[2:]][:2]}", exp.loc())
            continue
        computed = any(any(f"{m}.replace(" in vt(k) for m in macros) for k in p.atoms) or bool(pushes)
        if p.result[0] == "raise":
            continue
        if not computed:
            continue  # no replacement obtained on this path (not a call, not expandable, ...)
        n_push += len(pushes)
        ok = len(pushes) == 1 and len(pushes[0]) == 4 and len(replaced) == 1 and vt(pushes[0][3]) == f"{replaced[0]}.name"
        ctx.check(ok, key, f"the replacement of a macro must be pushed exactly once, under the macro's own name (so that the name is not re-expanded while rescanning): {[[vt(x)[:60] for x in e[2:]] for e in pushes]}", exp.loc())
    if not n_push:
        raise AnalysisError("MacroExpander.expand: no path pushes a replacement: idiom not recognised")
    push = me.find_method("push")
    ok = any(_is_call_stmt(s, "self.no_expand.append") and u(s.value.args[0]) == push.params[2] for s in push.node.body)
    ctx.check(ok, "preprocessor:MacroExpander.push:paints-ident", "push() must put the given name on the paint stack", push.loc())
    ctx.floor(6)


def _slot_reads(node, var="input_args"):
    """[(slot or '?', ast node)] for reads of var[...][k] / tuple-unpacks of var[...]."""
    out = []
    for n in ast.walk(node):
        if isinstance(n, ast.Subscript) and isinstance(n.value, ast.Subscript) and u(n.value.value) == var and not isinstance(n.value.slice, ast.Slice):
            k = const(n.slice, "?")
            out.append((k, n))
        elif isinstance(n, ast.Assign) and isinstance(n.value, ast.Subscript) and u(n.value.value) == var and isinstance(n.targets[0], (ast.Tuple, ast.List)) and not isinstance(n.value.slice, ast.Slice):
            for i, t in enumerate(n.targets[0].elts):
                if not (isinstance(t, ast.Name) and t.id == "_"):
                    out.append((i, n))
    # whole-element reads  x = input_args[i]  (slot unknown)
    for n in ast.walk(node):
        if isinstance(n, ast.Subscript) and u(n.value) == var and not isinstance(n.slice, ast.Slice) and isinstance(n.ctx, ast.Load):
            # is it directly subscripted or unpacked?
            pass
    return out


@rule("C03.R4", "raw/expanded argument slots: # and ## take the raw argument, plain substitution the pre-expanded one")
def r4(ctx):
    repo = ctx.repo
    mf = repo.cls("preprocessor", "MacroFunction")
    rep = mf.find_method("replace")
    ctx.require(rep is not None, "MacroFunction.replace missing")
    var = rep.params[1]
    # regions
    variadic = strcat = None
    subst_loop = None
    for s in rep.node.body:
        if isinstance(s, ast.If) and u(s.test) == "self.variadic":
            variadic = s
        elif isinstance(s, ast.If) and u(s.test) == "self.has_strcat":
            strcat = s
        elif isinstance(s, ast.For) and u(s.iter) == "res_tokens":
            subst_loop = s
    ctx.require(variadic is not None and strcat is not None and subst_loop is not None, "replace(): variadic / has_strcat / substitution regions not recognised")
    n = 0
    for k, node in _slot_reads(ast.Module(body=strcat.body, type_ignores=[]), var):
        n += 1
        ctx.check(k == 0, f"preprocessor:MacroFunction.replace:strcat-region:{u(node)[:60]}", f"operand of # / ## reads slot {k} of the argument (`{u(node)}`); these operators take the raw, un-expanded argument (slot 0)", rep.loc(node))
    for k, node in _slot_reads(subst_loop, var):
        n += 1
        ctx.check(k == 1, f"preprocessor:MacroFunction.replace:substitution:{u(node)[:60]}", f"plain parameter substitution reads slot {k} (`{u(node)}`); it must use the fully pre-expanded argument (slot 1)", rep.loc(node))
    # variadic: raw accumulates slot 0, expanded slot 1, stored as (raw, exp)
    for c in [x for x in ast.walk(variadic) if isinstance(x, ast.Call) and isinstance(x.func, ast.Attribute) and x.func.attr == "extend"]:
        tgt = u(c.func.value)
        reads = _slot_reads(c, var)
        if not reads:
            continue
        n += 1
        want = 0 if "raw" in tgt else 1 if "exp" in tgt else None
        ctx.check(want is not None and all(k == want for k, _ in reads), f"preprocessor:MacroFunction.replace:variadic:{u(c)[:60]}", f"`{u(c)}` mixes raw and expanded variadic arguments", rep.loc(c))
    st = [x for x in ast.walk(variadic) if isinstance(x, ast.Assign) and isinstance(x.targets[0], ast.Subscript) and u(x.targets[0].value) == var]
    ok = len(st) == 1 and isinstance(st[0].value, ast.List) and len(st[0].value.elts) == 1 and isinstance(st[0].value.elts[0], ast.Tuple) and len(st[0].value.elts[0].elts) == 2
    if ok:
        a, b = [u(e) for e in st[0].value.elts[0].elts]
        ok = "raw" in a and "exp" in b
    ctx.check(ok, "preprocessor:MacroFunction.replace:variadic:store", "variadic arguments must be stored back as one (raw, expanded) pair", rep.loc(variadic))
    ctx.floor(5 + 1)


@rule("C03.R5", "every collected argument is stored as a (raw, expanded) pair")
def r5(ctx):
    repo = ctx.repo
    exp = repo.func("preprocessor", "MacroExpander.expand")
    prods = [c for c in exp.calls() if u(c.func) == "pre_expanded.append"]
    ctx.require(len(prods) >= 1, "expand(): producers of pre_expanded not found")
    env = {}
    for n in walk_no_nested(exp.node):
        if isinstance(n, ast.Assign) and isinstance(n.targets[0], ast.Name):
            env.setdefault(n.targets[0].id, []).append(n.value)
    for c in prods:
        a = c.args[0]
        key = f"preprocessor:MacroExpander.expand:producer:{u(c)}"
        if not (isinstance(a, ast.Tuple) and len(a.elts) == 2):
            ctx.violation(key, f"argument stored as `{u(a)}`: MacroFunction.replace reads slot [1] of every argument (variadic join, plain substitution) -> IndexError", exp.loc(c))
            continue
        raw, ex = a.elts
        ok = u(raw) == "arg"
        if ok and u(ex) != "arg":
            vals = env.get(u(ex), [])

            def good(v):
                # the expansion of arg, arg itself, or a conditional expression choosing between the two
                if isinstance(v, ast.IfExp):
                    return good(v.body) and good(v.orelse)
                if isinstance(v, ast.Name):
                    return v.id == "arg"
                return isinstance(v, ast.Call) and u(v.func).endswith(".expand") and bool(v.args) and u(v.args[0]) == "arg"

            ok = len(vals) == 1 and good(vals[0]) and not isinstance(vals[0], ast.Name)
        ctx.check(ok, key, f"pair must be (arg, arg) or (arg, <expansion of arg>): {u(a)}", exp.loc(c))
    # the consumer passes the list it built
    calls = [c for c in exp.calls() if u(c.func) == "macro_lookup.replace" and c.args]
    ctx.check(len(calls) == 1 and u(calls[0].args[0]) == "pre_expanded", "preprocessor:MacroExpander.expand:consumer", "function-like replacement must receive the collected argument pairs", exp.loc())
    ctx.floor(3)


@rule("C03.R6", "## with an empty operand: both sides are checked for emptiness")
def r6(ctx):
    repo = ctx.repo
    rep = repo.func("preprocessor", "MacroFunction.replace")
    # contradiction rule: the arm checks len(last) > 0 but indexes nexttok[0] unguarded
    for n in walk_no_nested(rep.node):
        if isinstance(n, ast.If) and u(n.test) in ("len(last) > 0", "last", "len(last)"):
            idx = [x for x in ast.walk(ast.Module(body=n.body, type_ignores=[])) if isinstance(x, ast.Subscript) and u(x) == "nexttok[0]"]
            guarded = any(isinstance(x, ast.If) and "nexttok" in u(x.test) for x in ast.walk(n))
            key = "preprocessor:MacroFunction.replace:paste:nexttok[0]-unguarded"
            if idx and not guarded and "nexttok" not in u(n.test):
                ctx.violation(key, "`##` arm tests that the left operand is non-empty but indexes nexttok[0] unconditionally: CAT(x,) with an empty right argument raises IndexError", rep.loc(idx[0]))
            else:
                ctx.ok(key)
    ctx.floor(1)


@rule("C03.R7", "-DNAME / -DNAME=value behave like #define: same construction path, `1` only when there is no `=`")
def r7(ctx):
    repo = ctx.repo
    f = repo.func("preprocessor", "macro_from_definition_string")

    class H(Hooks):
        def on_call(self, call, ftext, args, kwargs, st):
            if ftext == "DirectiveParser":
                return Sym("parser")
            if ftext == "parser.eol":
                return Sym("EOL")
            if ftext in ("NumericalConstant",):
                return Sym("NUM(" + vtext(args[-1]) + ")")
            if ftext == "parser.match_value":
                st.effect("MATCH", *args)
                return Sym("tok")
            if ftext == "len":
                return Sym("len(" + vtext(args[0]) + ")")
            return NOTHING

    paths = Evaluator(H()).paths(f.node)
    n = 0
    for p in paths:
        n += 1
        eol = p.atoms.get("EOL")
        key = "preprocessor:macro_from_definition_string:" + ",".join(f"{k}={int(v)}" for k, v in p.atoms.items())
        if p.result[0] != "return":
            ctx.violation(key, f"does not return a macro: {p.describe()}", f.loc())
            continue
        rv = p.result[1]
        tag = getattr(rv, "tag", None)
        if not (tag and tag[0] == "call" and tag[1] == "make_macro" and len(tag[2]) == 3):
            ctx.violation(key, f"macro must be built by make_macro(identifier, args, expansion) like #define: {vtext(rv)}", f.loc())
            continue
        expansion = tag[2][2]
        if eol is None:
            ctx.violation(key, f"does not test whether tokens follow the name: {p.describe()}", f.loc())
        elif eol:
            ok = isinstance(expansion, list) and len(expansion) == 1 and vtext(expansion[0]) == "NUM('1')"
            ctx.check(ok, key, f"-DNAME (no '=') must define the single number 1, got {vtext(expansion)}", f.loc())
        else:
            m = [e for e in p.effects if e[0] == "MATCH"]
            ok = len(m) == 1 and vtext(m[0][1]) == "Operator" and m[0][2] == "=" and vtext(expansion).startswith("parser.tokens[") and "parser.pos" in vtext(expansion)
            extra = [k for k in p.atoms if k != "EOL"]
            ctx.check(ok and not extra, key, f"-DNAME=value must consume '=' and take ALL remaining tokens as the body (an empty body stays empty, as with `#define NAME`): got body {vtext(expansion)} on {p.describe()}", f.loc())
    # both paths use DirectiveParser.macro_definition for the head
    ok = any(u(c.func) == "parser.macro_definition" for c in f.calls())
    d = repo.func("preprocessor", "DirectiveParser.define")
    ok2 = any(u(c.func) == "self.macro_definition" for c in d.calls())
    ctx.soft(ok and ok2, "preprocessor:macro_definition:shared", "-D and #define must parse the macro head with the same macro_definition()", f.loc())
    # #define body: all remaining tokens, empty list when none
    dn = repo.cls("preprocessor", "DefineNode").find_method("evaluate_for_platform")
    ctx.floor(4)


@rule("C03.R8", "function-like macro detection: '(' directly after the name; variadic parameter naming")
def r8(ctx):
    repo = ctx.repo
    md = repo.func("preprocessor", "DirectiveParser.macro_definition")

    class H(Hooks):
        def on_call(self, call, ftext, args, kwargs, st):
            if ftext == "self.match_value":
                st.effect("MATCH", *args)
                return Sym("P" + str(len([e for e in st.effects if e[0] == "MATCH"])))
            if ftext == "self.match_type":
                return Sym("IDENT")
            if ftext.endswith("__arg_list"):
                return Sym("ARGS")
            return NOTHING

    paths = Evaluator(H()).paths(md.node)
    for p in paths:
        if any(k.startswith("raises(") and v for k, v in p.atoms.items()):
            # some match failed -> object-like
            rv = p.result[1]
            ok = p.result[0] == "return" and isinstance(rv, tuple) and vtext(rv[0]) == "IDENT" and rv[1] is None
            ctx.check(ok, "preprocessor:DirectiveParser.macro_definition:no-paren:" + ",".join(f"{int(v)}" for v in p.atoms.values()), f"when '(' / ')' does not match the macro is object-like (args None): {p.describe()}", md.loc())
            continue
        pw = p.atoms.get("P1.prev_white")
        key = f"preprocessor:DirectiveParser.macro_definition:paren:prev_white={pw}"
        rv = p.result[1] if p.result[0] == "return" else None
        if pw is None:
            ctx.violation(key, f"whitespace before '(' is not examined: `#define F (x) ...` would become function-like: {p.describe()}", md.loc())
        elif pw:
            ctx.check(isinstance(rv, tuple) and rv[1] is None, key, f"'(' preceded by whitespace must give an object-like macro: {p.describe()}", md.loc())
        else:
            ctx.check(isinstance(rv, tuple) and vtext(rv[1]) == "ARGS", key, f"'(' directly after the name must give a function-like macro with the parsed parameter list: {p.describe()}", md.loc())
    # variadic naming in MacroFunction.__init__
    init = repo.cls("preprocessor", "MacroFunction").find_method("__init__")
    # table specification: A = the parameter names; variadic <=> A non-empty and A[-1] ends in '...';
    #   A[-1] == '...' -> renamed '__VA_ARGS__';  'name...' -> renamed A[-1][:-3];  otherwise nothing is renamed
    from ..spec import tab, vt

    n_v = 0
    for p in tab(init, unroll=1):
        at = {vt(k): v for k, v in p.atoms.items()}
        stores = [(vt(e[1]), vt(e[2])) for e in p.effects if e[0] == "store"]
        A = next((v for t, v in stores if t == "self.args"), None)
        if A is None:
            raise AnalysisError(f"MacroFunction.__init__: store to self.args not found: {p.describe()[:160]}")
        nonempty = at.get(A)
        ends = at.get(f"{A}[-1].endswith('...')")
        bare = next((v for k, v in at.items() if k in (f"'...' Eq {A}[-1]", f"{A}[-1] Eq '...'")), None)
        ren = [(t, v) for t, v in stores if t in (f"{A}[-1]", "self.args[-1]")]
        var = [v for t, v in stores if t == "self.variadic"]
        key = f"preprocessor:MacroFunction.__init__:variadic-naming:nonempty={nonempty},dots={ends},bare={bare}"
        if nonempty is None:
            raise AnalysisError(f"MacroFunction.__init__: emptiness of the parameter list is not examined: {p.describe()[:160]}")
        is_var = bool(nonempty and ends)
        okv = len(var) == 1 and var[-1] in (("True", f"{A}[-1].endswith('...')") if is_var else ("False", f"{A}[-1].endswith('...')"))
        if not is_var:
            ok = okv and not ren
        elif bare is None:
            ok = False
        elif bare:
            n_v += 1
            ok = okv and [v.strip("'\"") for _, v in ren] == ["__VA_ARGS__"]
        else:
            n_v += 1
            ok = okv and [v for _, v in ren] == [f"{A}[-1][:-3]"]
        ctx.check(ok, key, f"`...` must be named __VA_ARGS__, `name...` must be named `name`, anything else stays as written; self.variadic must say which: renames {ren}, variadic {var}", init.loc())
    if n_v < 2:
        raise AnalysisError("MacroFunction.__init__: variadic naming idiom not recognised")
    ctx.floor(4)


@rule("C03.R9", "argument splitting: ',' splits only at depth 1; '(' / ')' adjust depth; ')' at depth 0 ends the call")
def r9(ctx):
    repo = ctx.repo
    exp = repo.func("preprocessor", "MacroExpander.expand")
    loops = [n for n in walk_no_nested(exp.node) if isinstance(n, ast.While) and any(isinstance(x, ast.Assign) and u(x.targets[0]) == "tok" and u(x.value) == "self.consume_tok()" for x in n.body)]
    ctx.require(len(loops) == 1, "expand(): argument-collection loop not recognised")
    loop = loops[0]
    depth_var = None
    for n in ast.walk(loop):
        if isinstance(n, ast.AugAssign) and isinstance(n.op, ast.Add):
            depth_var = u(n.target)
    ctx.require(depth_var is not None, "collection loop: depth counter not found")

    class H(Hooks):
        def __init__(self, tokv):
            self.tokv = tokv

        def resolve(self, expr, st):
            if u(expr) == "tok.token":
                return self.tokv
            return NOTHING

        def on_call(self, call, ftext, args, kwargs, st):
            if ftext == "self.consume_tok":
                return Sym("tok")
            return NOTHING

    for tokv in (",", "(", ")", "x"):
        for depth in (1, 2):
            h = H(tokv)
            body = [s for s in loop.body]
            from ..decision import _Break, _Continue  # noqa

            ev = Evaluator(h)
            # run one iteration: wrap in a for over a 1-element list so break/continue are legal
            wrapper = ast.parse("def _f():\n    for _i in [0]:\n        pass\n    else:\n        FELLTHROUGH()").body[0]
            wrapper.body[0].body = body
            paths = ev.paths(wrapper, params={depth_var: depth, "args": Sym("ARGS"), "current_arg": Sym("CUR")})
            key = f"preprocessor:MacroExpander.expand:collect:tok={tokv!r},depth={depth}"
            if len(paths) != 1:
                ctx.violation(key, f"decision depends on more than token kind and depth: {[p.describe() for p in paths]}", exp.loc(loop))
                continue
            p = paths[0]
            d2 = p.env.get(depth_var)
            appends_args = [e for e in p.effects if e[0] == "call" and e[1] == "ARGS.append"]
            appends_cur = [e for e in p.effects if e[0] == "call" and e[1].endswith(".append") and e[1] != "ARGS.append"]
            fell = any(e[0] == "call" and e[1] == "FELLTHROUGH" for e in p.effects)  # no break
            cur_reset = isinstance(p.env.get("current_arg"), list) and p.env.get("current_arg") == []
            if tokv == "," and depth == 1:
                ok = d2 == 1 and len(appends_args) == 1 and vtext(appends_args[0][2]) == "CUR" and cur_reset and not appends_cur and fell
                want = "split: finish the current argument, start a new empty one, keep collecting"
            elif tokv == ")" and depth == 1:
                ok = d2 == 0 and len(appends_args) == 1 and vtext(appends_args[0][2]) == "CUR" and not fell and not appends_cur
                want = "end of call: append the last (possibly empty) argument and stop"
            else:
                dd = depth + (1 if tokv == "(" else -1 if tokv == ")" else 0)
                ok = d2 == dd and not appends_args and len(appends_cur) == 1 and vtext(appends_cur[0][2]) == "tok" and fell
                want = f"token belongs to the current argument, depth becomes {dd}"
            ctx.check(ok, key, f"expected {want}; got {p.describe()} depth'={d2}", exp.loc(loop))
    ctx.floor(8)


@rule("C03.R10", "definition-time bookkeeping: ## next to a parameter always defers pasting to call time; the needs-pre-expansion flag is only ever raised")
def r10(ctx):
    repo = ctx.repo
    pr = repo.cls("preprocessor", "Macro").find_method("preproc_replacement")
    ctx.require(pr is not None, "Macro.preproc_replacement missing")
    # (a) arg_needs_expansion[...] is only assigned True (a later ## use must not cancel an earlier plain use)
    n = 0
    for c in (repo.cls("preprocessor", "Macro"), repo.cls("preprocessor", "MacroFunction")):
        for f in c.methods.values():
            for s in walk_no_nested(f.node):
                if isinstance(s, ast.Assign) and isinstance(s.targets[0], ast.Subscript) and u(s.targets[0].value) == "self.arg_needs_expansion":
                    n += 1
                    ctx.check(isinstance(s.value, ast.Constant) and s.value.value is True, f"{f.key}:arg_needs_expansion:{u(s)}", f"`{u(s)}` lowers the needs-pre-expansion flag of a parameter: a parameter used both plainly and as an operand of ## must still be pre-expanded for its plain use", f.loc(s))
    ctx.check(n >= 1, "preprocessor:Macro.preproc_replacement:raises-flag", "no site raises arg_needs_expansion", pr.loc())
    init = repo.cls("preprocessor", "MacroFunction").find_method("__init__")
    # decision table of the constructor: on every path the flag list is one False per parameter
    from ..spec import tab as _tab, vt as _vt

    n_init = 0
    for p in _tab(init, unroll=1):
        st_ = {_vt(e[1]): _vt(e[2]) for e in p.effects if e[0] == "store"}
        fl = st_.get("self.arg_needs_expansion")
        n_init += 1
        m = re.fullmatch(r"comp:\[False for _c0 in (.+)\]", fl or "")
        ok = m is not None and m.group(1) in (st_.get("self.args"), init.params[2] if len(init.params) > 2 else None, "self.args")
        ctx.check(ok, "preprocessor:MacroFunction.__init__:flags-start-false", f"arg_needs_expansion must start as one False per parameter: `{(fl or 'not set')[:80]}`", init.loc())
    if not n_init:
        raise AnalysisError("MacroFunction.__init__: no path")
    # (b) in the ## arm: whenever an operand is a parameter (which_arg != -1) the tokens are kept for call time AND has_strcat is set
    arms = [s for s in walk_no_nested(pr.node) if isinstance(s, ast.If) and "arg_idx != -1" in u(s.test) or (isinstance(s, ast.If) and "which_arg" in u(s.test) and "!= -1" in u(s.test))]
    hash_if = [s for s in walk_no_nested(pr.node) if isinstance(s, ast.If) and u(s.test) == "tok.token == '##'"]
    ctx.require(len(hash_if) == 1, "preproc_replacement: `##` arm not found")
    deferred = [a for a in arms if any(x is a for x in ast.walk(hash_if[0])) and any(isinstance(x, ast.Continue) for x in a.body)]
    ctx.soft(len(deferred) == 2, "preprocessor:Macro.preproc_replacement:two-deferral-arms", f"expected a left-operand and a right-operand deferral arm in the ## branch, found {len(deferred)}", pr.loc(hash_if[0]))
    for i, a in enumerate(deferred):
        sets = any(isinstance(x, ast.Assign) and u(x) == "self.has_strcat = True" for x in a.body)
        keeps = sum(1 for x in ast.walk(a) if isinstance(x, ast.Call) and u(x.func) in ("res_tokens.append", "res_tokens.extend"))
        ctx.check(sets and keeps >= 1, f"preprocessor:Macro.preproc_replacement:deferral-arm-{i}", "a ## whose operand is a parameter must keep its tokens for call time and mark the macro (has_strcat) so that MacroFunction.replace performs the paste", pr.loc(a))
    # (c) consumer: MacroFunction.replace pastes only when has_strcat
    rep = repo.cls("preprocessor", "MacroFunction").find_method("replace")
    ok = any(isinstance(s, ast.If) and u(s.test) == "self.has_strcat" for s in rep.node.body)
    ctx.soft(ok, "preprocessor:MacroFunction.replace:has_strcat-gate", "call-time pasting is gated by has_strcat", rep.loc())
    # (d) make_macro: function-like iff an argument list exists (even an empty one)
    mm = repo.func("preprocessor", "make_macro")
    from ..decision import Evaluator as _E, Hooks as _H

    for p in _E(_H()).paths(mm.node):
        isnone = p.atoms.get(f"None Eq {mm.params[1]}")
        rv = vtext(p.result[1]) if p.result[0] == "return" else None
        extra = [k for k in p.atoms if k != f"None Eq {mm.params[1]}"]
        key = f"preprocessor:make_macro:args-none={isnone}"
        if extra or isnone is None:
            ctx.violation(key, f"the kind of macro must depend only on `args is None` (`#define F() x` has an empty, not a missing, parameter list): {p.describe()}", mm.loc())
        else:
            want = f"Macro({mm.params[0]}, {mm.params[2]})" if isnone else f"MacroFunction({mm.params[0]}, {mm.params[1]}, {mm.params[2]})"
            ctx.check(rv == want, key, f"returns {rv}, expected {want}", mm.loc())
    ctx.floor(8)


@rule("C03.R13", "a macro name met while it is being replaced is painted before it is put back, whatever follows it")
def r13(ctx):
    """Table specification over the body of expand()'s scanning loop (one iteration, inner loops not entered): on
    every path that puts the *raw* token back (`replace_tok(tok)`, not a copy) although the token names a macro
    (`get_macro(tok.token)` holds), `not_expandable(tok)` has been asked and is false.  A name that is in the
    no-expand set (or already painted) and is put back unpainted - e.g. because the test for a following `(` was
    moved in front of the paint step - becomes available for replacement again when the rescan continues in an
    outer frame (C11 6.10.3.4p2)."""
    from .. import review

    repo = ctx.repo
    f = repo.func("preprocessor", "MacroExpander.expand")
    loops = [lp for lp in review._loops(f.node) if any(isinstance(n, ast.Call) and u(n.func) == "self.not_expandable" for n in ast.walk(lp))]
    ctx.require(len(loops) >= 1, "expand(): no loop consults not_expandable()")
    lp = loops[0]
    try:
        rows = review.block_table(list(lp.body), unroll=0, fi=f, max_paths=3000)
    except AnalysisError as e:
        ctx.require(False, f"expand(): scanning loop not tabulated: {e}")
    toks = {m.group(1) for p in rows for k in p.atoms for m in [re.fullmatch(r"self\.not_expandable\((.*)\)", k)] if m}
    ctx.require(len(toks) == 1, f"expand(): not_expandable() is asked about {sorted(toks)}")
    tok = toks.pop()
    n = bad = 0
    for p in rows:
        puts = [e for e in p.effects if e[0] == "call" and e[1] == "self.replace_tok" and len(e) > 2 and str(e[2]).strip("<>") == tok]
        if not puts:
            continue
        names_macro = any(v for k, v in p.atoms.items() if re.fullmatch(r"self\.platform\.get_macro\(" + re.escape(tok) + r"\.token\)", k))
        unknown = not any(re.fullmatch(r"self\.platform\.get_macro\(" + re.escape(tok) + r"\.token\)", k) for k in p.atoms)
        if not (names_macro or unknown):
            continue
        n += 1
        asked = p.atoms.get(f"self.not_expandable({tok})")
        if asked is not False:
            bad += 1
            ctx.violation(
                "preprocessor:MacroExpander.expand:raw-put-back-unpainted",
                f"a path of the scanning loop puts the token back as it is (`replace_tok({tok})`) although it names a macro, and not_expandable() was {'true' if asked else 'never asked'} on it ({p.describe()[:200]}): the name of a macro under replacement stays replaceable",
                f.loc(lp),
            )
            break
    ctx.require(n >= 1, "expand(): no path puts a macro name back unexpanded (function-like name without `(`): idiom not recognised")
    if not bad:
        ctx.ok("preprocessor:MacroExpander.expand:raw-put-back-unpainted", f"{n} paths")
    painted = [p for p in rows if p.atoms.get(f"self.not_expandable({tok})") is True]
    ok = bool(painted) and all(any(e[0] == "call" and e[1] == "self.replace_tok" and "copy(" in str(e[2]) for e in p.effects) and any(e[0] == "store" and str(e[1]).endswith(".expandable") for e in p.effects) for p in painted)
    ctx.soft(ok, "preprocessor:MacroExpander.expand:painted-copy", "a non-expandable name is put back as a painted copy", f.loc(lp))
    ctx.floor(2)
