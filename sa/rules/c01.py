"""C01 - conditional inclusion: the control skeleton.

Decided: node-kind tables, directive dispatch, the visitor's decision table, the
traversal, tree construction, macro-table ownership, payload slices.
Not decided: the truth value of expressions (C02/C03) and equality with gcc -E.
"""

from __future__ import annotations

import ast
import re

from ..callgraph import CallGraph
from ..decision import NOTHING, Evaluator, Hooks, Sym, vtext
from ..model import AnalysisError, callee, const, dotted, strip_doc, u, walk_no_nested
from ..run import rule
from ..tables import KIND_METHODS, const_return, directive_dispatch, kind_of, node_base, node_kind_table

# ISO C 6.10.1 grammar: which directive keyword opens / continues / closes a group
KEYWORD_KIND = {
    "if": "S", "ifdef": "S", "ifndef": "S",
    "elif": "C", "else": "C",
    "endif": "E",
    "define": "N", "undef": "N", "include": "N", "pragma": "N",
}


# ----------------------------------------------------------------------
@rule("C01.R1", "node-kind table and directive keyword dispatch agree with the C grammar")
def r1(ctx):
    repo = ctx.repo
    table = node_kind_table(repo)
    rows, parse = directive_dispatch(repo)
    ctx.note(f"{parse.key} candidates={[r['keyword'] for r in rows]}")
    by_name = {c.name: c for c in table}
    role = {}  # class name -> set of kinds demanded by the keywords that create it
    seen_kw = set()
    for r in rows:
        fi, kw = r["method"], r["keyword"]
        key = f"preprocessor:DirectiveParser.{fi.name}:keyword"
        if kw is None:
            ctx.violation(key, "candidate does not start by matching an Identifier keyword", fi.loc())
            continue
        seen_kw.add(kw)
        if kw not in KEYWORD_KIND:
            ctx.violation(key, f"unknown directive keyword {kw!r} dispatched", fi.loc())
            continue
        if len(set(r["classes"])) != 1:
            ctx.violation(key, f"candidate for {kw!r} returns {r['classes']} (expected exactly one node class)", fi.loc())
            continue
        cname = r["classes"][0]
        if cname not in by_name:
            ctx.violation(key, f"{kw!r} creates {cname}, which is not a Node subclass", fi.loc())
            continue
        role.setdefault(cname, set()).add(KEYWORD_KIND[kw])
        ctx.ok(key, f"{kw} -> {cname}", fi.loc())
    for kw in KEYWORD_KIND:
        ctx.check(
            kw in seen_kw,
            f"preprocessor:DirectiveParser.parse:candidates:{kw}",
            f"directive keyword {kw!r} has no candidate in DirectiveParser.parse",
            parse.loc(),
        )
    # kind table
    for c, row in sorted(table.items(), key=lambda kv: kv[0].name):
        k = kind_of(row)
        want = role.get(c.name, {"N"})
        ctx.note(f"{c.key} kind={k}")
        key = f"{c.key}:kind"
        if len(k) > 1:
            ctx.violation(key, f"more than one of start/cont/end is true ({k})", c.loc())
        elif len(want) != 1:
            ctx.violation(key, f"class is created for directives of different kinds {sorted(want)}", c.loc())
        else:
            w = next(iter(want))
            ctx.check(
                k == w,
                key,
                f"{c.name} is kind {k!r} but the directives that create it require {w!r} (S=start, C=cont, E=end, N=none)",
                c.loc(),
            )
    # ifdef / ifndef synthesised prefixes
    dp = repo.cls("preprocessor", "DirectiveParser")
    for name, want in (("ifdef", ["defined", "("]), ("ifndef", ["!", "defined", "("])):
        fi = dp.find_method(name)
        key = f"preprocessor:DirectiveParser.{name}:expr"
        if fi is None:
            ctx.violation(key, "method missing", dp.loc())
            continue
        got = _synth_expr(fi)
        ctx.check(
            got == want + ["<identifier>", ")"],
            key,
            f"synthesised expression tokens are {got}, expected {want + ['<identifier>', ')']}",
            fi.loc(),
        )
    ctx.floor(10 + 10 + 13 + 2)


def _synth_expr(fi):
    """Token spellings of the IfNode expression built by ifdef/ifndef."""
    env = {}
    ident = None
    for n in walk_no_nested(fi.node):
        if isinstance(n, ast.Assign) and len(n.targets) == 1 and isinstance(n.targets[0], ast.Name):
            env[n.targets[0].id] = n.value
            if isinstance(n.value, ast.Call) and callee(n.value) == "self.match_type" and u(n.value.args[0]) == "Identifier":
                ident = n.targets[0].id

    def toks(e):
        if isinstance(e, ast.Name) and e.id in env and e.id != ident:
            return toks(env[e.id])
        if isinstance(e, ast.Name) and e.id == ident:
            return ["<identifier>"]
        if isinstance(e, ast.BinOp) and isinstance(e.op, ast.Add):
            return toks(e.left) + toks(e.right)
        if isinstance(e, ast.List):
            out = []
            for x in e.elts:
                out += toks(x)
            return out
        if isinstance(e, ast.Call) and isinstance(e.func, ast.Name) and len(e.args) == 4:
            return [const(e.args[3], "?")]
        return ["?" + u(e)[:30]]

    for n in walk_no_nested(fi.node):
        if isinstance(n, ast.Return) and isinstance(n.value, ast.Call) and len(n.value.args) == 2:
            return toks(n.value.args[1])
    return ["?"]


# ----------------------------------------------------------------------
def find_visitor(repo):
    """The callback handed to tree.visit inside ParserState.associate (by role,
    not by name)."""
    assoc = repo.func("finder", "ParserState.associate")
    visit_calls = [c for c in assoc.calls() if isinstance(c.func, ast.Attribute) and c.func.attr == "visit"]
    if len(visit_calls) != 1 or len(visit_calls[0].args) != 1 or not isinstance(visit_calls[0].args[0], ast.Name):
        raise AnalysisError("ParserState.associate: expected exactly one `<tree>.visit(<callback>)` call")
    cbname = visit_calls[0].args[0].id
    q = f"ParserState.associate.{cbname}"
    if q not in assoc.module.functions:
        raise AnalysisError(f"ParserState.associate: callback {cbname} is not a nested function")
    return assoc, assoc.module.functions[q], visit_calls[0]


class VisitorHooks(Hooks):
    def __init__(self, repo, cls, row, nodeparam):
        self.repo = repo
        self.cls = cls
        self.row = row
        self.nodeparam = nodeparam

    def resolve(self, expr, st):
        # type(node) is K / type(node) == K
        if isinstance(expr, ast.Compare) and len(expr.ops) == 1 and isinstance(expr.ops[0], (ast.Is, ast.Eq, ast.IsNot, ast.NotEq)):
            sides = [expr.left, expr.comparators[0]]
            for a, b in (sides, sides[::-1]):
                if isinstance(a, ast.Call) and u(a.func) == "type" and len(a.args) == 1 and u(a.args[0]) == self.nodeparam:
                    c = self.repo.resolve_class(self.repo.mod("finder"), u(b))
                    if c is not None:
                        same = c is self.cls
                        return same if isinstance(expr.ops[0], (ast.Is, ast.Eq)) else not same
        return NOTHING

    def on_call(self, call, ftext, args, kwargs, st):
        if ftext.startswith(self.nodeparam + ".") and ftext.split(".")[-1] in KIND_METHODS and not args:
            return self.row[ftext.split(".")[-1]]
        if ftext == "isinstance" and len(args) == 2 and vtext(args[0]) == self.nodeparam:
            names = args[1] if isinstance(args[1], tuple) else (args[1],)
            res = False
            for nm in names:
                c = self.repo.resolve_class(self.cls.module.repo.mod("finder"), vtext(nm))
                if c is None:
                    return NOTHING
                if self.cls.is_subclass_of(c):
                    res = True
            return res
        if ftext == self.nodeparam + ".evaluate_for_platform":
            st.effect("EVAL", tuple(sorted((k, vtext(v)) for k, v in kwargs.items())), tuple(vtext(a) for a in args))
            return Sym("A")
        if ftext == "bool" and len(args) == 1 and vtext(args[0]) == "A":
            return Sym("A")
        return NOTHING


@rule("C01.R2", "decision table of the association visitor (node class x branch-taken x active)")
def r2(ctx):
    repo = ctx.repo
    assoc, cb, vcall = find_visitor(repo)
    table = node_kind_table(repo)
    params = cb.params
    ctx.require(len(params) == 1, "visitor callback must take exactly the node")
    nodep = params[0]
    ctx.note(f"{cb.key} (callback of {u(vcall)})")
    rows = 0
    for c, krow in sorted(table.items(), key=lambda kv: kv[0].name):
        kind = kind_of(krow)
        if len(kind) != 1:
            continue  # reported by R1
        hooks = VisitorHooks(repo, c, krow, nodep)
        paths = Evaluator(hooks).paths(cb.node)
        for p in paths:
            rows += 1
            _check_visitor_row(ctx, cb, c, kind, p, nodep)
    ctx.stats["table_rows"] = rows
    ctx.floor(13 * 2)
    # the tree and the map handed to the visitor belong to the same file
    env = {}
    for n in walk_no_nested(assoc.node):
        if isinstance(n, ast.Assign) and len(n.targets) == 1 and isinstance(n.targets[0], ast.Name):
            env[n.targets[0].id] = n.value
    tree_expr = env.get(dotted(vcall.func.value) or "", None)
    key = "finder:ParserState.associate:tree-and-map-same-file"
    amap = None
    for p in Evaluator(VisitorHooks(repo, node_base(repo), table[node_base(repo)], nodep)).paths(cb.node)[:1]:
        for e in p.effects:
            if e[0] == "call" and e[1].endswith(f"[{nodep}].add"):
                amap = e[1][: -len(f"[{nodep}].add")]
    if tree_expr is None or amap is None or amap not in env:
        ctx.violation(key, "cannot identify the tree and the association map used by the visitor", assoc.loc())
    else:
        t, m = tree_expr, env[amap]
        okshape = (
            isinstance(t, ast.Call) and isinstance(m, ast.Call) and callee(t) == "self.get_tree" and callee(m) == "self.get_map"
            and [u(a) for a in t.args] == [u(a) for a in m.args] == [assoc.params[1]]
        )
        ctx.soft(okshape, key, f"tree is {u(t)}, map is {u(m)}: both must be looked up for the file being associated", assoc.loc())


def _check_visitor_row(ctx, cb, c, kind, p, nodep):
    atoms = dict(p.atoms)
    names = p.eff_names()
    # identify atoms
    T = None
    unknown = []
    for k, v in atoms.items():
        if k == "A":
            continue
        if k.endswith("[-1]") and "(" not in k:
            T = (k, v)
        else:
            unknown.append(k)
    A = atoms.get("A")
    key = f"finder:ParserState.associate.<visitor>:{c.name}:" + ",".join(
        f"{'T' if k.endswith('[-1]') else k}={int(v)}" for k, v in sorted(atoms.items())
    )
    loc = cb.loc()
    desc = p.describe()

    def bad(msg):
        ctx.violation(key, msg + f"  [row: {desc}]", loc, node_class=c.name, kind=kind)

    if unknown:
        bad(f"the visitor's decision depends on {unknown}, not only on node kind, branch-taken and the evaluation result")
        return
    # ASSOC first and on every row
    assoc_eff = [e for e in p.effects if e[0] == "call" and e[1].endswith(f"[{nodep}].add")]
    if len(assoc_eff) != 1 or vtext(assoc_eff[0][2]) != "platform.name" or p.effects.index(assoc_eff[0]) != 0:
        bad("node is not associated with platform.name exactly once before anything else (directive lines of every reached chain must be attributed)")
        return
    evals = [e for e in p.effects if e[0] == "EVAL"]
    stack_ops = [e for e in p.effects if e[0] in ("call", "store", "aug", "del") and e not in assoc_eff and e[0] != "EVAL"]
    ret = p.result
    if ret[0] != "return":
        bad(f"visitor does not return a Visit value ({ret[0]})")
        return
    rv = vtext(ret[1])
    nxt, sib = "Visit.NEXT", "Visit.NEXT_SIBLING"
    if rv not in (nxt, sib):
        bad(f"visitor returns {rv}")
        return

    def descends_iff_A():
        if A is None:
            # return does not depend on A: only fine if no evaluation could be truthy
            return False
        return rv == (nxt if A else sib)

    if kind == "S":
        ok = (
            len(evals) == 1 and len(stack_ops) == 1 and stack_ops[0][0] == "call" and stack_ops[0][1].endswith(".append")
            and len(stack_ops[0]) == 3 and vtext(stack_ops[0][2]) == "A" and descends_iff_A()
        )
        if not ok:
            bad("start node (#if): must evaluate once, push the result on the branch stack, and descend iff it is true")
            return
    elif kind == "C":
        if T is None:
            bad("continuation node (#elif/#else): decision does not consult the top of the branch stack")
            return
        if T[1]:
            ok = not evals and not stack_ops and rv == sib
            if not ok:
                bad("continuation node after a taken branch: must not be evaluated, must leave the stack unchanged and must be skipped (NEXT_SIBLING)")
                return
        else:
            ok = (
                len(evals) == 1 and len(stack_ops) == 1 and stack_ops[0][0] == "store" and stack_ops[0][1] == T[0]
                and vtext(stack_ops[0][2]) == "A" and descends_iff_A()
            )
            if not ok:
                bad("continuation node, no branch taken yet: must evaluate once, record the result as the top of the branch stack, and descend iff it is true")
                return
    elif kind == "E":
        ok = len(stack_ops) == 1 and stack_ops[0][0] == "call" and stack_ops[0][1].endswith(".pop") and len(stack_ops[0]) == 2
        if not ok:
            bad("end node (#endif): must pop the branch stack exactly once")
            return
    else:
        ok = len(evals) == 1 and not stack_ops and descends_iff_A()
        if not ok:
            bad("plain node: must be evaluated once (define/undef/include take effect), must not touch the branch stack, descend iff active")
            return
    if T is not None and kind != "C":
        # decision consulted T for a non-continuation node; harmless only if both T rows agree - they are
        # separate rows and each was checked against the same reference, so nothing more to do
        pass
    # evaluation must receive the platform, the file and the state
    for e in evals:
        kw = dict(e[1])
        if not (kw.get("platform") == "platform" and kw.get("state") == "self" and "filename" in kw):
            bad(f"evaluate_for_platform is not given platform=platform, filename=<file>, state=self: {kw}")
            return
        fn_txt = kw["filename"]
        if "filename" not in fn_txt and re.fullmatch(r"\w+", fn_txt):
            # a closure variable of the enclosing associate(): what it was bound to there
            try:
                assoc_f = ctx.repo.func("finder", "ParserState.associate")
                vals = [u(n.value) for n in walk_no_nested(assoc_f.node) if isinstance(n, ast.Assign) and len(n.targets) == 1 and u(n.targets[0]) == fn_txt]
                if len(vals) == 1:
                    fn_txt = vals[0]
            except AnalysisError:
                pass
        if "filename" not in fn_txt:
            bad(f"evaluate_for_platform receives filename={kw['filename']} (must be derived from the file being associated)")
            return
    ctx.ok(key, "", loc)


# ----------------------------------------------------------------------
class _Plain(Hooks):
    def pure(self, ftext):
        return True


@rule("C01.R3", "pre-order traversal: visitor applied once before the children, children in list order")
def r3(ctx):
    repo = ctx.repo
    node = node_base(repo)
    visit = node.find_method("visit")
    walk = node.find_method("walk")
    add_child = node.find_method("add_child")
    for f, nm in ((visit, "visit"), (walk, "walk"), (add_child, "add_child")):
        ctx.require(f is not None, f"Node.{nm} missing")

    # --- visit
    vp = visit.params[1]

    class VH(Hooks):
        def on_call(self, call, ftext, args, kwargs, st):
            if ftext == vp:
                st.effect("VISITOR", *args)
                return Sym("R")
            if ftext == "callable":
                return True
            return NOTHING

    paths = Evaluator(VH()).paths(visit.node)
    ctx.note(f"{visit.key}: {len(paths)} paths")
    for p in paths:
        key = "preprocessor:Node.visit:" + ",".join(f"{k}={int(v)}" for k, v in p.atoms.items())
        vis = [e for e in p.effects if e[0] == "VISITOR"]
        childcalls = [e for e in p.effects if e[0] == "call" and e[1].endswith(".visit")]
        other = [e for e in p.effects if e not in vis and e not in childcalls and e[0] != "loop-bound"]
        if len(vis) != 1 or [vtext(a) for a in vis[0][1:]] != ["self"] or p.effects.index(vis[0]) != 0:
            ctx.violation(key, f"visitor is not applied to self exactly once before the children: {p.describe()}", visit.loc())
            continue
        skip = None
        for k, v in p.atoms.items():
            if "R" in k.split() and "Visit.NEXT_SIBLING" in k:
                skip = v
            elif "R" in k.split() and "Visit.NEXT" in k.split():
                skip = not v
        n_more = sum(1 for k, v in p.atoms.items() if k.startswith("more(") and v)
        exp = [] if skip else [f"self.children[{i}].visit" for i in range(n_more)]
        got = [e[1] for e in childcalls]
        argok = all([vtext(a) for a in e[2:]] == [vp] for e in childcalls)
        if skip is None:
            ctx.violation(key, f"descent does not depend on the visitor's result being NEXT_SIBLING: {p.describe()}", visit.loc())
        elif got != exp or not argok or other:
            ctx.violation(key, f"children visited {got}, expected {exp} (in list order, unfiltered, same visitor; none when NEXT_SIBLING): {p.describe()}", visit.loc())
        else:
            ctx.ok(key, "", visit.loc())

    # --- walk
    paths = Evaluator(_Plain()).paths(walk.node)
    for p in paths:
        key = "preprocessor:Node.walk:" + ",".join(f"{k}={int(v)}" for k, v in p.atoms.items())
        n_more = sum(1 for k, v in p.atoms.items() if k.startswith("more(") and v)
        exp = [("yield", "self")] + [("yield_from", f"self.children[{i}].walk()") for i in range(n_more)]
        got = [(e[0], vtext(e[1])) for e in p.effects if e[0] != "loop-bound"]
        ctx.check(got == exp, key, f"walk yields {got}, expected {exp}", walk.loc())

    # --- add_child
    paths = Evaluator(_Plain()).paths(add_child.node)
    cp = add_child.params[1]
    for p in paths:
        effs = sorted((e[0], e[1], vtext(e[2])) for e in p.effects)
        exp = sorted([("call", "self.children.append", cp), ("store", f"{cp}.parent", "self")])
        ctx.check(effs == exp and not p.atoms, "preprocessor:Node.add_child", f"add_child effects {effs}, expected {exp}", add_child.loc())

    # --- SourceTree delegates
    st = repo.cls("preprocessor", "SourceTree")
    for nm, exp in (("visit", [("call", "self.root.visit")]), ("walk", [("yield_from", "self.root.walk()")])):
        f = st.find_method(nm)
        ctx.require(f is not None, f"SourceTree.{nm} missing")
        for p in Evaluator(_Plain()).paths(f.node):
            got = [(e[0], e[1] if e[0] == "call" else vtext(e[1])) for e in p.effects]
            ctx.check(got == exp and not p.atoms, f"preprocessor:SourceTree.{nm}", f"effects {got}, expected {exp}", f.loc())
    # children is a plain list created per node
    ctx.floor(4 + 3 + 1 + 2)


# ----------------------------------------------------------------------
@rule("C01.R4", "tree construction: #if opens a level, #elif/#else/#endif become siblings of their #if")
def r4(ctx):
    repo = ctx.repo
    st = repo.cls("preprocessor", "SourceTree")
    ins = st.find_method("insert")
    ctx.require(ins is not None, "SourceTree.insert missing")
    newp = ins.params[1]
    helpers = {f"self.{n}": m for n, m in st.methods.items()}

    kinds = {"S": (True, False, False), "C": (False, True, False), "E": (False, False, True), "N": (False, False, False)}

    def make_hooks(nk, lk, latest_attr_holder):
        class IH(Hooks):
            def on_call(self, call, ftext, args, kwargs, s):
                last = ftext.split(".")[-1]
                if last in KIND_METHODS and not args:
                    recv = ftext[: -len(last) - 1]
                    idx = KIND_METHODS.index(last)
                    if recv == newp:
                        return kinds[nk][idx]
                    if recv in latest_attr_holder:
                        return kinds[lk][idx]
                    return NOTHING
                if last == "walk_to_tree_insertion_point":
                    s.effect("WALK")
                    s.bump("self")
                    return None
                return NOTHING

            def inline(self, call, ftext, s):
                m = helpers.get(ftext)
                if m is not None and m.name not in ("walk_to_tree_insertion_point", "insert"):
                    return m.node
                return None

        return IH()

    # which attribute is "latest"?  the one compared with self.root in insert
    latest = None
    # a local that merely names an attribute of self (`latest = self._latest_node`, never re-bound) is that attribute
    local_alias = {}
    for n in walk_no_nested(ins.node):
        if isinstance(n, ast.Assign) and len(n.targets) == 1 and isinstance(n.targets[0], ast.Name):
            nm = n.targets[0].id
            local_alias[nm] = u(n.value) if nm not in local_alias and re.fullmatch(r"self\.\w+", u(n.value)) else None
    local_alias = {k: v for k, v in local_alias.items() if v}
    for n in walk_no_nested(ins.node):
        if isinstance(n, ast.Compare) and len(n.ops) == 1 and isinstance(n.ops[0], (ast.Eq, ast.Is)):
            l, r = u(n.left), u(n.comparators[0])
            l, r = local_alias.get(l, l), local_alias.get(r, r)
            if r == "self.root" and l.startswith("self."):
                latest = l
            elif l == "self.root" and r.startswith("self."):
                latest = r
    ctx.require(latest is not None, "SourceTree.insert: comparison of the latest node with self.root not found")
    holder = [latest] + [k for k, v in local_alias.items() if v == latest]
    rows = 0
    for nk in "SCEN":
        for lk in "SCEN":
            paths = Evaluator(make_hooks(nk, lk, holder)).paths(ins.node)
            for p in paths:
                rows += 1
                R = None
                unknown = []
                for k, v in p.atoms.items():
                    if latest in k and "self.root" in k and " Eq " in k:
                        R = v
                    else:
                        unknown.append(k)
                key = f"preprocessor:SourceTree.insert:new={nk},latest={lk},root={'?' if R is None else int(R)}"
                adds = [e for e in p.effects if e[0] == "call" and e[1].endswith(".add_child")]
                stores = [e for e in p.effects if e[0] == "store" and e[1] == latest]
                walks = [e for e in p.effects if e[0] == "WALK"]
                if unknown:
                    ctx.violation(key, f"insertion depends on {unknown}: {p.describe()}", ins.loc())
                    continue
                if R is None:
                    ctx.violation(key, f"insertion does not test whether the tree is still empty (latest is root): {p.describe()}", ins.loc())
                    continue
                if R:
                    exp_parent, exp_walk = latest, 0
                elif nk in "CE":
                    exp_parent, exp_walk = latest + ".parent@1", 1
                elif lk in "SC":
                    exp_parent, exp_walk = latest, 0
                else:
                    exp_parent, exp_walk = latest + ".parent", 0
                got_parent = adds[0][1][: -len(".add_child")] if len(adds) == 1 else None
                if R and got_parent == "self.root":
                    got_parent = latest  # on this path the latest node IS the root
                ok = (
                    len(adds) == 1 and vtext(adds[0][2]) == newp and got_parent == exp_parent and len(walks) == exp_walk
                    and len(stores) == 1 and vtext(stores[0][2]) == newp
                    and (not walks or p.effects.index(walks[0]) < p.effects.index(adds[0]))
                )
                ctx.check(
                    ok,
                    key,
                    f"inserted under {got_parent} with {len(walks)} walk(s); expected parent {exp_parent}, {exp_walk} walk(s), and latest := new node.  [{p.describe()}]",
                    ins.loc(),
                )
    ctx.stats["table_rows"] = rows
    # --- walk_to_tree_insertion_point: climb while not (start or cont)
    wk = st.find_method("walk_to_tree_insertion_point")
    ctx.require(wk is not None, "walk_to_tree_insertion_point missing")

    class WH(Hooks):
        unroll = 2

        def on_call(self, call, ftext, args, kwargs, s):
            if ftext.startswith("log."):
                s.effect("LOG")
                return None
            return NOTHING

    paths = Evaluator(WH()).paths(wk.node)
    nok = 0
    for p in paths:
        key = "preprocessor:SourceTree.walk_to_tree_insertion_point:" + ",".join(
            f"{k.replace(latest, 'L')}={int(v)}" for k, v in p.atoms.items()
        )
        # replay: iteration i tests start/cont of the current latest; climbs iff both false
        climbs = [e for e in p.effects if e[0] == "store" and e[1] == latest]
        ok = True
        cur = latest
        i = 0
        why = ""
        items = list(p.atoms.items())
        pos = 0
        while True:
            # atoms for this iteration
            s_key = None
            vals = {}
            while pos < len(items) and ("is_start_node" in items[pos][0] or "is_cont_node" in items[pos][0]):
                vals["S" if "is_start_node" in items[pos][0] else "C"] = items[pos][1]
                pos += 1
            if not vals:
                break
            stop = vals.get("S", False) or vals.get("C", False)
            if stop:
                break
            if i >= len(climbs):
                if any(e[0] == "loop-bound" for e in p.effects):
                    break
                ok, why = False, "loop continues without climbing to the parent"
                break
            if not re.fullmatch(re.escape(latest) + r"(\.parent)*(@\d+)?\.parent(@\d+)?", vtext(climbs[i][2])) or vtext(climbs[i][2]).count(".parent") != i + 1:
                ok, why = False, f"climb assigns {vtext(climbs[i][2])}, expected <latest>.parent"
                break
            i += 1
            # optional root test
            if pos < len(items) and "self.root" in items[pos][0]:
                hit_root = items[pos][1]
                pos += 1
                if hit_root:
                    break
        if ok and len(climbs) != i:
            ok, why = False, f"{len(climbs)} climbs for {i} non-matching levels"
        nok += ok
        ctx.check(ok, key, f"{why}: {p.describe()}", wk.loc())
    ctx.floor(20 + 3)


# ----------------------------------------------------------------------
@rule("C01.R5", "macro-table ownership and the return value of every evaluate_for_platform")
def r5(ctx):
    repo = ctx.repo
    plat = repo.cls("platform", "Platform")
    # --- writers of the definitions table
    table_attr = None
    init = plat.find_method("__init__")
    ctx.require(init is not None, "Platform.__init__ missing")
    define = plat.find_method("define")
    ctx.require(define is not None, "Platform.define missing")
    for n in walk_no_nested(define.node):
        if isinstance(n, ast.Subscript) and isinstance(n.ctx, ast.Store) and dotted(n.value) and dotted(n.value).startswith("self."):
            table_attr = dotted(n.value)
    ctx.require(table_attr is not None, "Platform.define does not store into a self.<table>[...]")
    attr = table_attr.split(".", 1)[1]
    writers = set()
    for f in repo.all_functions():
        for n in f.body_nodes():
            tgt = None
            if isinstance(n, (ast.Subscript, ast.Attribute)) and isinstance(n.ctx, (ast.Store, ast.Del)):
                base = n.value if isinstance(n, ast.Subscript) else n
                d = dotted(base)
                if d and d.split(".")[-1] == attr:
                    tgt = f
            if isinstance(n, ast.Call) and isinstance(n.func, ast.Attribute) and n.func.attr in (
                "pop", "clear", "update", "setdefault", "popitem", "__setitem__", "__delitem__"
            ):
                d = dotted(n.func.value)
                if d and d.split(".")[-1] == attr:
                    tgt = f
            if tgt:
                writers.add(f.key)
    allowed = {"platform:Platform.__init__", "platform:Platform.define", "platform:Platform.undefine"}
    for w in sorted(writers):
        ctx.check(w in allowed, f"{w}:writes:{attr}", f"{w} writes Platform.{attr}; only __init__/define/undefine may", "")
    # --- semantics of the four accessors by decision table
    ev = Evaluator(_Plain())
    for name in ("define", "undefine", "is_defined", "get_macro"):
        f = plat.find_method(name)
        key = f"platform:Platform.{name}:table-effect"
        if f is None:
            ctx.violation(key, "method missing", plat.loc())
            continue
        kp = f.params[1]
        paths = ev.paths(f.node)
        inkey = f"{kp} In {table_attr}"
        msg = None
        for p in paths:
            extra = [k for k in p.atoms if k != inkey]
            if extra:
                msg = f"depends on {extra}"
                break
            present = p.atoms.get(inkey)
            stores = [e for e in p.effects if e[0] == "store" and e[1] == f"{table_attr}[{kp}]"]
            dels = [e for e in p.effects if e[0] == "del" and e[1] == f"{table_attr}[{kp}]"]
            others = [e for e in p.effects if e not in stores and e not in dels]
            if others and not (name == "undefine" and present is None):
                msg = f"unexpected effects {others}"
                break
            if name == "define":
                mp = f.params[2]
                if present is False or present is None:
                    if not (len(stores) == 1 and vtext(stores[0][2]) == mp and not dels):
                        msg = f"an undefined name is not stored as {table_attr}[{kp}] = {mp}: {p.describe()}"
                        break
                else:
                    if dels or any(vtext(s[2]) != mp for s in stores):
                        msg = f"defining an already defined name corrupts the table: {p.describe()}"
                        break
            elif name == "undefine":
                if present is None:
                    popped = [e for e in others if e[0] == "call" and e[1] == f"{table_attr}.pop" and len(e) == 4 and vtext(e[2]) == kp]
                    if not (len(popped) == 1 and not dels and not stores):
                        msg = f"deletes without testing membership: #undef of a name that is not defined (legal C) raises KeyError: {p.describe()}"
                        break
                    others = [e for e in others if e not in popped]
                    if others:
                        msg = f"unexpected effects {others}"
                        break
                elif present is True:
                    if not (len(dels) == 1 and not stores):
                        msg = f"a defined name is not deleted: {p.describe()}"
                        break
                elif stores or dels:
                    msg = f"undefining an undefined name touches the table: {p.describe()}"
                    break
            elif name == "is_defined":
                if stores or dels or present is None or p.result[0] != "return":
                    msg = f"not a pure membership test: {p.describe()}"
                    break
                want = "1" if present else "0"
                if p.result[1] != want:
                    msg = f"returns {p.result[1]!r} when the name is {'defined' if present else 'undefined'} (the expander turns this into the value of defined(X); expected {want!r})"
                    break
            elif name == "get_macro":
                if stores or dels or p.result[0] not in ("return", "fall"):
                    msg = f"not a pure lookup: {p.describe()}"
                    break
                rv = p.result[1] if p.result[0] == "return" else None
                if present:
                    if vtext(rv) != f"{table_attr}[{kp}]":
                        msg = f"returns {vtext(rv)} for a defined name, expected the stored macro"
                        break
                elif present is False and rv is not None:
                    msg = f"returns {vtext(rv)} for an undefined name, expected None"
                    break
                elif present is None:
                    # e.g. `return self._definitions.get(identifier)`
                    if vtext(rv) not in (f"{table_attr}.get({kp})", f"{table_attr}.get({kp}, None)"):
                        msg = f"lookup without membership test returns {vtext(rv)}"
                        break
        ctx.check(msg is None, key, msg or "", f.loc())
    # --- callers: DefineNode / UndefNode / finder.find
    dn = repo.cls("preprocessor", "DefineNode").find_method("evaluate_for_platform")
    un = repo.cls("preprocessor", "UndefNode").find_method("evaluate_for_platform")
    for f, meth in ((dn, "define"), (un, "undefine")):
        key = f"{f.key}:calls:{meth}"
        msg = None
        for p in ev.paths(f.node):
            calls = [e for e in p.effects if e[0] == "call" and e[1].endswith("." + meth)]
            if len(calls) != 1:
                msg = f"platform.{meth} is called {len(calls)} times on path {p.describe()} (the directive must take effect whenever it is reached)"
                break
            e = calls[0]
            if e[1] != f"kwargs['platform'].{meth}" or vtext(e[2]) != "self.identifier.token":
                msg = f"calls {e[1]}({', '.join(vtext(a) for a in e[2:])}), expected kwargs['platform'].{meth}(self.identifier.token, ...)"
                break
            if meth == "define" and vtext(e[3]) != "make_macro(self.identifier, self.args, self.value)":
                msg = f"macro stored is {vtext(e[3])}, expected make_macro(self.identifier, self.args, self.value)"
                break
        ctx.check(msg is None, key, msg or "", f.loc())
    # --- return-value table of evaluate_for_platform
    base = node_base(repo)
    n_rows = 0
    for c in sorted(repo.subclasses(base), key=lambda c: c.name):
        f = c.find_method("evaluate_for_platform")
        key = f"{c.key}:evaluate_for_platform:result"
        rets = [n for n in walk_no_nested(f.node) if isinstance(n, ast.Return)]
        vals = [r.value for r in rets]
        truthy_const = all(isinstance(v, ast.Constant) and bool(v.value) for v in vals) and vals
        falsy = all(v is None or (isinstance(v, ast.Constant) and not v.value) for v in vals)
        is_if = c.is_subclass_of(repo.cls("preprocessor", "IfNode"))
        is_else = c.name == "ElseNode" or (kind_of(node_kind_table(repo)[c]) == "C" and not is_if)
        is_file = c.name == "FileNode"
        n_rows += 1
        if is_if:
            ok = len(vals) == 1 and isinstance(vals[0], ast.Call) and u(vals[0]).endswith(".evaluate()")
            ctx.check(ok, key, f"conditional node must return the evaluator's result, returns {[u(v) for v in vals]}", f.loc())
        elif is_else or is_file:
            ctx.check(bool(truthy_const) and _falls_off(f) is False, key, f"{c.name} must always be active (truthy constant), returns {[u(v) for v in vals]}", f.loc())
        else:
            ctx.check(falsy, key, f"{c.name} must never be descended into (falsy result), returns {[u(v) for v in vals]}", f.loc())
    ctx.floor(3 + 4 + 2 + 13)


def _falls_off(f):
    body = strip_doc(f.node.body)
    return not (body and isinstance(body[-1], (ast.Return, ast.Raise)))


# ----------------------------------------------------------------------
@rule("C01.R6", "directive payloads are the open token slice after the keyword; #if feeds expander then evaluator")
def r6(ctx):
    repo = ctx.repo
    # Decided on decision tables with events (state-changing parser calls kept in order, reads carry version marks):
    # on every successful path the payload handed to the node is `self.tokens[self.pos@k:]` with k >= number of
    # consuming calls made before it - the open slice from the position AFTER the keyword (and the macro head), never a
    # slice taken before the keyword was consumed, never a bounded one.
    from .. import review
    from ..spec import vt as _vt

    dp = repo.cls("preprocessor", "DirectiveParser")
    for name in ("if_", "elif_", "pragma", "define", "include"):
        f = dp.find_method(name)
        key = f"preprocessor:DirectiveParser.{name}:payload-slice"
        if f is None:
            ctx.violation(key, "method missing", dp.loc())
            continue
        t = review.table(f, unroll=1, events=True)
        if isinstance(t, Exception) or not t:
            raise AnalysisError(f"DirectiveParser.{name}: decision table not available ({t})")
        n_ok = 0
        for p in t:
            if p.result[0] != "return":
                continue
            res = vtext(p.result[1])
            consumed = sum(1 for e in p.effects if e[0] == "call" and str(e[1]).startswith("self.match"))
            for m in re.finditer(r"self\.tokens\[([^\[\]]*)\]", res):
                sl = m.group(1)
                if ":" not in sl:
                    continue
                lo, _, hi = sl.partition(":")
                mm = re.fullmatch(r"self\.pos(?:@(\d+))?", lo)
                ok = mm is not None and hi == "" and int(mm.group(1) or 0) >= max(1, consumed)
                n_ok += ok
                ctx.check(ok, key, f"the payload is `self.tokens[{sl}]`; it must be the open slice from the position after the keyword (`self.tokens[self.pos:]` read after the keyword was consumed): a token is dropped or kept twice otherwise", f.loc())
        if name in ("if_", "elif_", "pragma", "define") and not n_ok:
            raise AnalysisError(f"DirectiveParser.{name}: no path hands an open token slice to its node: idiom not recognised")
    # IfNode pipeline (ElIfNode inherits it)
    ifn = repo.cls("preprocessor", "IfNode").find_method("evaluate_for_platform")
    key = "preprocessor:IfNode.evaluate_for_platform:pipeline"
    t = review.table(ifn, unroll=1)
    if isinstance(t, Exception) or not t:
        raise AnalysisError(f"IfNode.evaluate_for_platform: decision table not available ({t})")
    for p in t:
        res = _vt(p.result[1]) if p.result[0] == "return" else ""
        ok = res == "ExpressionEvaluator(MacroExpander(kwargs['platform']).expand(self.expr)).evaluate()" and not [k for k in p.atoms if not k.startswith("raises(")]
        ctx.check(ok, key, f"#if must evaluate ExpressionEvaluator(MacroExpander(platform).expand(self.expr)).evaluate() - the complete expression, expanded for this platform: returns `{res[:120]}` under {list(p.atoms)[:2]}", ifn.loc())
    ctx.floor(6)


def _kw_line(f):
    for n in walk_no_nested(f.node):
        if isinstance(n, ast.Call) and callee(n) == "self.match_value":
            return n.lineno
    return 0


# ----------------------------------------------------------------------
@rule("C01.R7", "every accepted source extension maps to a language that has a line source (C/C++/asm)")
def r7(ctx):
    from .c17 import language_tables

    exts, ext_lang, served = language_tables(ctx.repo)
    f = ctx.repo.func("source", "is_source_file")
    n = 0
    for e in exts:
        lang = ext_lang.get(e)
        if lang is not None and lang.startswith("fortran"):
            continue  # C17.R4
        n += 1
        key = f"source:is_source_file:{e}"
        if lang is None:
            ctx.violation(key, f"extension {e} is accepted as source but FileLanguage knows no language for it (get_file_source raises)", f.loc())
        else:
            ctx.check(lang in served, key, f"extension {e} -> language {lang!r}, for which get_file_source has no source (raises)", f.loc())
    ctx.floor(20)


@rule("C01.R8", "command-line definitions: -DNAME is 1, -DNAME=value takes the whole value, an empty value stays empty (= C03.R7)")
def r8(ctx):
    from .c03 import r7 as c03r7

    c03r7(ctx)
