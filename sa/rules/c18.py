"""C18 - nothing is dropped silently: unhonoured input is always reported."""

from __future__ import annotations

import ast
import re

from ..callgraph import CallGraph
from ..cfg import cfg_of
from ..decision import Evaluator, Hooks, NOTHING, Sym
from ..decision import vtext as _vtext
from ..flow import loop_carried
from ..model import AnalysisError, callee, const, dotted, u, walk_no_nested
from ..run import rule


def vtext(v):
    return re.sub(r"@\d+", "", _vtext(v))


@rule("C18.R1", "a miss at every call site of the include resolver reaches a warning, a hit does not")
def r1(ctx):
    repo = ctx.repo
    cg = CallGraph(repo)
    sites = cg.callers_of("platform:Platform.find_include_file")
    fkeys = sorted({f.key for f, _ in sites})
    ctx.note(f"resolver call sites: {fkeys}")
    for fk in fkeys:
        ctx.check(fk in ("finder:find", "preprocessor:IncludeNode.evaluate_for_platform"), f"{fk}:resolver-call-site", "new caller of find_include_file: its miss branch is not covered by a warning rule", "")
    # --- #include
    from .c04 import include_paths_table

    f, paths = include_paths_table(repo)
    for p in paths:
        found = p.atoms.get("FOUND")
        key = "preprocessor:IncludeNode.evaluate_for_platform:warn:" + ",".join(f"{k}={int(v)}" for k, v in p.atoms.items() if k in ("FOUND", "ISLITERAL", "PROCESS") or k.endswith(".system"))
        warns = [e for e in p.effects if e[0] == "WARN"]
        extra = [k for k in p.atoms if k not in ("FOUND", "ISLITERAL", "PROCESS") and not k.endswith(".system")]
        if found is None:
            ctx.violation(key, f"path does not look at the resolver's result: {p.describe()[:200]}", f.loc())
        elif found:
            ctx.check(not warns, key, "a warning is issued although the include was found", f.loc())
        else:
            ok = len(warns) == 1 and warns[0][1] == "log.warning" and not extra
            ctx.check(ok, key, f"an #include that resolves to no file must produce exactly one log.warning, unconditionally (got {len(warns)}; extra conditions {extra})", f.loc())
    # --- -include: decided on the decision table of finder.find (C18.R8 = C04.R4)
    # R5: the resolver itself never logs (so its memo cannot swallow or duplicate a warning)
    fif = repo.cls("platform", "Platform").find_method("find_include_file")
    logs = [c for c in fif.calls() if (dotted(c.func) or "").startswith("log.")]
    ctx.check(not logs, "platform:Platform.find_include_file:no-logging", "warnings must be issued by the caller for every miss, not inside the memoised resolver", fif.loc())
    ctx.floor(5)


@rule("C18.R2", "every place where config.py drops part of its input is preceded by a warning or error; nothing is remembered across entries")
def r2(ctx):
    repo = ctx.repo
    from .c13 import r3 as c13r3, _entry_loop

    c13r3(ctx)
    # ArgumentParser.__init__: every early return is preceded by a log call in its block
    init = repo.cls("config", "ArgumentParser").find_method("__init__")
    n = 0
    for blk in _blocks(init.node):
        for i, s in enumerate(blk):
            if isinstance(s, ast.Return):
                n += 1
                logged = any(isinstance(x, ast.Expr) and isinstance(x.value, ast.Call) and u(x.value.func) in ("log.warning", "log.error") for x in blk[:i])
                ctx.check(logged, f"config:ArgumentParser.__init__:return:{_cond_of(init.node, s)}", "the constructor gives up on the compiler without reporting it", init.loc(s))
    ctx.soft(n >= 3, "config:ArgumentParser.__init__:early-returns", f"expected the unknown-compiler / alias-loop / dangling-alias exits, found {n}", init.loc())
    pa = repo.cls("config", "ArgumentParser").find_method("parse_args")
    for blk in _blocks(pa.node):
        for i, s in enumerate(blk):
            if isinstance(s, ast.Continue):
                logged = any(isinstance(x, ast.Expr) and isinstance(x.value, ast.Call) and u(x.value.func) in ("log.warning", "log.error") for x in blk[:i])
                ctx.check(logged, f"config:ArgumentParser.parse_args:continue:{_cond_of(pa.node, s)}", "a pass / mode is dropped without being reported", pa.loc(s))
    # one ArgumentParser per entry: the unknown-compiler warning is per occurrence
    ld, loop = _entry_loop(repo)
    ctors = [c for c in ast.walk(loop) if isinstance(c, ast.Call) and callee(c) == "ArgumentParser"]
    ok = len(ctors) == 1 and any(isinstance(s, ast.Assign) and s.value is ctors[0] for s in loop.body)
    ctx.check(ok, "config:load_database:parser-per-entry", "the compiler must be looked up (and an unknown compiler reported) unconditionally for every entry: caching the parser reports an unknown compiler once instead of once per occurrence", ld.loc(loop))
    carried, cfg = loop_carried(ld, loop)
    for name in sorted(carried):
        if name != "configuration":
            ctx.violation(f"config:load_database:remembered-across-entries:{name}", f"`{name}` survives from one entry to the next: what was reported (or resolved) for one entry suppresses the report for a later one", ld.loc(loop))
    # unknown options
    t = u(pa.node)
    # table specification: the arguments parse_known_args() hands back as unknown are reported, exactly when there are any
    from ..spec import atoms as _atoms2, tab as _tab2, vt

    n_un = 0
    for p in _tab2(pa, unroll=1):
        at = _atoms2(p)
        rest = [(k, v) for k, v in at.items() if re.search(r"\.parse_known_args\(.*\)\[1\]$", k)]
        if not rest:
            continue
        n_un += 1
        k_, v_ = rest[0]
        warns = [vt(e[2]) for e in p.effects if e[0] == "call" and str(e[1]) in ("log.warning", "log.warn") and len(e) > 2 and k_ in vt(e[2])]
        ctx.check(len(warns) == (1 if v_ else 0), "config:ArgumentParser.parse_args:unrecognized-warned", f"unrecognised arguments must be reported with a warning that names them (exactly when there are any): {len(warns)} such warning(s) when there are {'some' if v_ else 'none'}", pa.loc())
    if not n_un:
        raise AnalysisError("parse_args: no decision on the unrecognised arguments of parse_known_args() found")
    ctx.floor(8)


def _blocks(fn):
    for n in walk_no_nested(fn):
        for fld in ("body", "orelse", "finalbody"):
            b = getattr(n, fld, None)
            if isinstance(b, list) and b and isinstance(b[0], ast.stmt):
                yield b


def _cond_of(root, stmt):
    for n in ast.walk(root):
        if isinstance(n, ast.If) and (stmt in n.body or stmt in n.orelse):
            return u(n.test)[:60]
    return "?"


@rule("C18.R3", "warnings name what could not be honoured: file, line, requested name, quote/angle form; exemption list is exactly line/warning/error")
def r3(ctx):
    repo = ctx.repo
    f = repo.cls("preprocessor", "IncludeNode").find_method("evaluate_for_platform")
    # the text of the not-found warning on every path of the decision table (helpers inlined, locals substituted)
    from ..spec import call_args, tab, vt

    n_warn = 0
    for p in tab(f, unroll=1):
        ws = [e for e in p.effects if e[0] == "call" and e[1] == "log.warning"]
        if not ws:
            continue
        n_warn += 1
        text = vt(ws[0][2]) if len(ws[0]) > 2 else ""
        look = [k for k in p.atoms if re.match(r"^[^()]*\.find_include_file\(", k)]
        sysflag = [v for k, v in p.atoms.items() if vt(k).endswith(".system")]
        if len(look) != 1 or len(sysflag) != 1:
            raise AnalysisError(f"IncludeNode.evaluate_for_platform: lookup / form test not recognised on a warning path: {p.describe()[:160]}")
        lk = vt(look[0])
        ca = call_args(lk, lk[: lk.index(".find_include_file(")] + ".find_include_file")
        req = ca[0][0] if ca and ca[0] else None
        want_kind = "system include" if sysflag[0] else "user include"
        other_kind = "user include" if sysflag[0] else "system include"
        need = {
            "file": "{kwargs['filename']}" in text,
            "line": "{self.start_line}" in text,
            "requested name": req is not None and "{" + req + "}" in text,
            "quote/angle form": want_kind in text and other_kind not in text,
        }
        for what, ok in need.items():
            ctx.check(ok, f"preprocessor:IncludeNode.evaluate_for_platform:message:{what}:system={int(sysflag[0])}", f"the warning for an include that resolves to no file does not state the {what} ({'<> form' if sysflag[0] else 'quote form'}; expected `{want_kind}`, the file, the line and `{req}`): {text[:160]}", f.loc())
    if n_warn < 2:
        raise AnalysisError(f"IncludeNode.evaluate_for_platform: {n_warn} warning paths found, expected both forms")
    # directive warning, as a table specification: a directive is warned about exactly when it is unrecognised, has a
    # name (second token) and that name is not one of line / warning / error; the message states file, line, column
    # and the directive's spelling
    g = repo.func("file_parser", "FileParser.insert_directive_node")
    from ..spec import atoms as _atoms, tab as _tab1

    EXEMPT = {"line", "warning", "error"}
    n_dir = 0
    for p in _tab1(g, unroll=1):
        at = _atoms(p)
        unrec = next((v for k, v in at.items() if re.fullmatch(r"isinstance\((.+), (preprocessor\.)?UnrecognizedDirectiveNode\)", k)), None)
        node = next((re.fullmatch(r"isinstance\((.+), (preprocessor\.)?UnrecognizedDirectiveNode\)", k).group(1) for k in at if re.fullmatch(r"isinstance\((.+), (preprocessor\.)?UnrecognizedDirectiveNode\)", k)), None)
        if unrec is None:
            raise AnalysisError(f"insert_directive_node: no test for UnrecognizedDirectiveNode on {p.describe()[:120]}")
        n_dir += 1
        warns = [e for e in p.effects if e[0] == "call" and str(e[1]) in ("log.warning", "log.warn")]
        T = f"{node}.tokens"
        short = next((v for k, v in at.items() if k in (f"len({T}) Lt 2", f"2 Gt len({T})")), None)
        if short is None:
            short = next((not v for k, v in at.items() if k in (f"len({T}) Gt 1", f"1 Lt len({T})")), None)
        names = {m.group(1): v for k, v in at.items() for m in [re.fullmatch(r"'(\w+)' Eq str\(" + re.escape(T) + r"\[1\]\)", k) or re.fullmatch(r"'(\w+)' Eq " + re.escape(T) + r"\[1\]\.token", k)] if m}
        other = [k for k in at if k not in [kk for kk in at if "UnrecognizedDirectiveNode" in kk] and T not in k]
        key = f"file_parser:FileParser.insert_directive_node:unrecognized={vt(str(int(unrec)))},short={short},name={[n_ for n_, v in names.items() if v]}"
        if other:
            ctx.violation("file_parser:FileParser.insert_directive_node:unrecognized-only", f"whether an unrecognised directive is reported depends on {other[:2]}", g.loc())
            continue
        ctx.check(set(names) <= EXEMPT, "file_parser:FileParser.insert_directive_node:exemptions", f"only #line, #warning and #error may be ignored silently: the function also exempts {sorted(set(names) - EXEMPT)}", g.loc())
        if not unrec:
            ctx.check(not warns, key, "a recognised directive is warned about", g.loc())
            continue
        if short is None:
            ctx.violation("file_parser:FileParser.insert_directive_node:exemption-test", "the directive's name is read (tokens[1]) on a path that does not establish that there is a second token", g.loc())
            continue
        exempt_hit = any(v for v in names.values())
        decided = short or exempt_hit or set(names) == EXEMPT
        if not decided:
            continue
        want = (not short) and not exempt_hit
        ctx.check(len(warns) == (1 if want else 0), "file_parser:FileParser.insert_directive_node:unrecognized-only", f"an unrecognised directive (has a name: {not short}, exempted: {exempt_hit}) is reported {len(warns)} time(s); exactly the unrecognised directives other than #line/#warning/#error must be reported once", g.loc())
        for e in warns:
            txt = vt(e[2]) if len(e) > 2 else ""
            need = {"filename": "tree.root.filename" in txt, "line": f"{T}[0].line" in txt or f"{node}.start_line" in txt or "line_group.start_line" in txt, "column": f"{T}[0].col" in txt, "message": f"{node}.spelling()" in txt}
            for what, ok in need.items():
                ctx.check(ok, f"file_parser:FileParser.insert_directive_node:message:{what}", f"the unrecognised-directive warning does not state the {what}: `{txt[:120]}`", g.loc())
    if n_dir < 4:
        raise AnalysisError(f"insert_directive_node: only {n_dir} rows understood")
    ctx.floor(11)


from ..spec import tab as _tab0, tv as _tv


def _tab(review, f):
    return _tab0(f)


@rule("C18.R4", "warning totals: category regexes, level test, and the aggregator installed as a filter on exactly one handler")
def r4(ctx):
    repo = ctx.repo
    wa = repo.cls("_detail.logging", "WarningAggregator")
    init = wa.find_method("__init__")
    metas = [c for c in init.calls() if callee(c) == "MetaWarning"]
    regs = [const(c.args[0]) for c in metas]
    ctx.check(len(regs) == 3 and all(isinstance(r, str) for r in regs), "_detail.logging:WarningAggregator:meta-warnings", f"expected the catch-all, user-include and system-include categories: {regs}", init.loc())
    comp = [re.compile(r) for r in regs if isinstance(r, str)]
    # message templates as emitted
    templates = {
        "user include": "/p/a.c:3: user include 'x.h' not found\n    3 | #include \"x.h\"",
        "system include": "/p/a.c:3: system include 'x.h' not found\n    3 | #include <x.h>",
        "unrecognized directive": "/p/a.c:3:0: unrecognized directive '['#foo']'",
        "missing file": "Ignoring non-existent file: /p/a.c",
        "unknown compiler": "Compiler 'mycc' not recognized.",
        "unknown option": "Unrecognized arguments: '-fx'",
    }
    # the kind strings really used by IncludeNode
    f = repo.cls("preprocessor", "IncludeNode").find_method("evaluate_for_platform")
    kinds = [n.value for n in ast.walk(repo.cls("preprocessor", "IncludeNode").node) if isinstance(n, ast.Constant) and isinstance(n.value, str) and n.value.endswith(" include")]
    ctx.check(sorted(kinds) == ["system include", "user include"], "preprocessor:IncludeNode:kind-strings", f"kind strings are {kinds}", f.loc())
    insp = repo.cls("_detail.logging", "MetaWarning").find_method("inspect")
    uses_search = any(u(c.func) == "self.regex.search" for c in insp.calls())
    ctx.soft(uses_search and any(u(c.args[0]) == "record.msg" for c in insp.calls() if u(c.func) == "self.regex.search"), "_detail.logging:MetaWarning.inspect:search-msg", "a category matches when its regex is found in the record's message", insp.loc())
    for name, msg in templates.items():
        hits = [r.pattern for r in comp if r.search(msg)]
        want = ["."] + ([name] if name in ("user include", "system include") else [])
        ctx.check(sorted(hits) == sorted(want), f"_detail.logging:WarningAggregator:category:{name}", f"a '{name}' warning is counted by categories {hits}, expected {want}", init.loc())
    for k in kinds:
        specific = [r.pattern for r in comp if r.pattern != "." and r.search(k)]
        ctx.check(len(specific) == 1, f"_detail.logging:WarningAggregator:kind:{k}", f"kind string {k!r} matches {specific}", init.loc())
    # meta-warning texts must not match another category's regex
    for c in metas:
        text = "".join(n.value for n in ast.walk(c.args[1]) if isinstance(n, ast.Constant) and isinstance(n.value, str)) if len(c.args) > 1 else ""
        own = const(c.args[0])
        others = [r.pattern for r in comp if r.pattern not in (".", own) and r.search(text.format(1))]
        ctx.check(not others, f"_detail.logging:WarningAggregator:meta-text:{own}", f"the closing message of category {own!r} is itself matched by {others}", init.loc())
    # counts: +1 per matching record; filter inspects exactly the WARNING records with every category and keeps
    # every record; warn prints the count iff non-zero  (decided on the decision tables: robust to re-arrangement)
    from .. import review

    mw = repo.cls("_detail.logging", "MetaWarning")
    for p in _tab(review, insp):
        hit = p.atoms.get("self.regex.search(record.msg)")
        incs = [e for e in p.effects if e[0] in ("aug", "store") and e[1] == "self._count"]
        key = f"_detail.logging:MetaWarning.inspect:counts:match={_tv(hit)}"
        if hit is None or len(p.atoms) != 1:
            raise AnalysisError(f"MetaWarning.inspect: table shape not recognised: {p.describe()[:160]}")
        if hit:
            ok = len(incs) == 1 and incs[0][0] == "aug" and incs[0][2] == "Add" and vtext(incs[0][3]) == "1"
        else:
            ok = not incs
        ctx.check(ok, key, f"every record whose message matches the category (and no other) must increase the count by exactly one: {p.describe()[:160]}", insp.loc())
    flt = wa.find_method("filter")
    for p in _tab(review, flt):
        lvl = p.atoms.get("logging.WARNING Eq record.levelno")
        other = [k for k in p.atoms if not k.startswith("more(self.meta_warnings#") and k != "logging.WARNING Eq record.levelno"]
        n_cat = sum(1 for k, v in p.atoms.items() if k.startswith("more(self.meta_warnings#") and v)
        calls = [e for e in p.effects if e[0] == "call" and str(e[1]).endswith(".inspect")]
        key = f"_detail.logging:WarningAggregator.filter:level-equals-warning:warning={_tv(lvl)},categories={n_cat}"
        ok = lvl is not None and not other and p.result == ("return", True)
        if ok and lvl:
            ok = [e[1] for e in calls] == [f"self.meta_warnings[{i}].inspect" for i in range(n_cat)] and all(vtext(e[2]) == flt.params[1] for e in calls)
        elif ok:
            ok = not calls
        ctx.check(ok, key, f"the filter must hand exactly the records whose level equals WARNING to every category once, and never drop a record: {p.describe()[:200]}", flt.loc())
    w = mw.find_method("warn")
    for p in _tab(review, w):
        zero = p.atoms.get("0 Eq self._count")
        if zero is None:
            t0 = p.atoms.get("self._count")
            zero = None if t0 is None else (not t0)
        calls = [e for e in p.effects if e[0] == "call" and str(e[1]).endswith(".warning")]
        key = f"_detail.logging:MetaWarning.warn:prints-count:zero={_tv(zero)}"
        if zero is None or len(p.atoms) != 1:
            raise AnalysisError(f"MetaWarning.warn: table shape not recognised: {p.describe()[:160]}")
        ok = (not calls) if zero else (len(calls) == 1 and vtext(calls[0][2]) == "self.msg.format(self._count)")
        ctx.check(ok, key, f"a category is reported iff its count is non-zero, with that count: {p.describe()[:160]}", w.loc())
    aw = wa.find_method("warn")
    for p in _tab(review, aw):
        n_cat = sum(1 for k, v in p.atoms.items() if k.startswith("more(self.meta_warnings#") and v)
        calls = [e for e in p.effects if e[0] == "call" and str(e[1]).endswith(".warn")]
        ok = [e[1] for e in calls] == [f"self.meta_warnings[{i}].warn" for i in range(n_cat)] and all(k.startswith("more(self.meta_warnings#") for k in p.atoms)
        ctx.check(ok, f"_detail.logging:WarningAggregator.warn:every-category:{n_cat}", f"every category must be asked to report, unconditionally: {p.describe()[:160]}", aw.loc())
    # wiring in the front ends
    for short, q in (("__main__", "_main"), ("coverage.__main__", "cli")):
        g = repo.func(short, q)
        adds = [c for c in g.calls() if isinstance(c.func, ast.Attribute) and c.func.attr == "addFilter" and len(c.args) == 1 and u(c.args[0]) in ("aggregator", "warning_aggregator", "filter_")]
        key = f"{g.key}:aggregator-on-one-handler"

        def _is_file_handler(call):
            # the receiver is the log-file handler: named so, or built by logging.FileHandler(...) in the same function
            if u(call.func.value) == "file_handler":
                return True
            for fn in [g] + g.new_helpers():
                if any(x is call for x in ast.walk(fn.node)):
                    name = u(call.func.value)
                    return any(isinstance(s_, ast.Assign) and u(s_.targets[0]) == name and isinstance(s_.value, ast.Call) and u(s_.value.func).endswith("FileHandler") for s_ in ast.walk(fn.node))
            return False

        ok = len(adds) == 1 and _is_file_handler(adds[0])
        ctx.check(ok, key, f"the aggregator must be a filter of exactly one handler (the log-file handler): installed on {[u(c.func.value) for c in adds]} - every additional handler (or the logger itself) counts each warning again", g.loc())
        made = [s for s in walk_no_nested(g.node) if isinstance(s, ast.Assign) and u(s.targets[0]) == "aggregator"]
        ctx.soft(len(made) == 1 and u(made[0].value) == "WarningAggregator()", f"{g.key}:aggregator-fresh", "a fresh WarningAggregator per run", g.loc())
        lvl = [c for c in g.calls() if u(c.func) == "file_handler.setLevel"]
        ok = len(lvl) == 1 and u(lvl[0].args[0]) in ("min_log_level", "logging.INFO", "logging.DEBUG", "logging.WARNING")
        ctx.soft(ok, f"{g.key}:file-handler-level", "the log-file handler must let warnings through (level <= WARNING)", g.loc())
    m = repo.func("__main__", "_main")
    order = [u(c.func) for c in sorted(m.calls(), key=lambda c: (c.lineno, c.col_offset)) if u(c.func) in ("finder.find", "aggregator.warn")]
    ctx.soft(order == ["finder.find", "aggregator.warn"], "__main__:_main:totals-after-analysis", f"the totals must be printed once, after the analysis: {order}", m.loc())
    if True:
        mn = [s for s in walk_no_nested(m.node) if isinstance(s, ast.If) and u(s.test) == "args.debug"]
        levels = {u(s.targets[0]): u(s.value) for s in walk_no_nested(m.node) if isinstance(s, ast.Assign) and u(s.targets[0]) == "min_log_level"}
    ctx.floor(20)


@rule("C18.R5", "the include memo cannot turn a miss into a hit or vice versa (= C04.R2)")
def r5(ctx):
    from .c04 import r2 as c04r2

    c04r2(ctx)


@rule("C18.R12", "the formatter and the warning categories read record.msg: every logging call passes the finished text (no lazy %-arguments)")
def r12(ctx):
    """Formatter.format prints `record.msg` and MetaWarning.inspect matches its regex against `record.msg`: neither
    calls getMessage(), so a call `log.warning("... %s", x)` reaches the log file and the category tests as the
    template, without the file / name it is about.  Who-may-call rule over the whole package."""
    repo = ctx.repo
    lg = repo.mod("_detail.logging")
    raw = [n for n in ast.walk(lg.tree) if isinstance(n, ast.Attribute) and n.attr == "msg" and isinstance(n.ctx, ast.Load)]
    formatted = [n for n in ast.walk(lg.tree) if isinstance(n, ast.Call) and isinstance(n.func, ast.Attribute) and n.func.attr == "getMessage"]
    if not raw:
        ctx.ok("_detail.logging:reads-record.msg", f"no reader of record.msg ({len(formatted)} getMessage() calls): lazy arguments are formatted")
        ctx.floor(1)
        return
    # debug / info lines are not what the property is about (a lazily formatted debug line is ugly, nothing is lost)
    levels = {"warning": 1, "warn": 1, "error": 1, "critical": 1, "exception": 1, "log": 2}
    n = 0
    for m in [None]:
        for f in repo.all_functions():
            for c in f.calls():
                if not (isinstance(c.func, ast.Attribute) and c.func.attr in levels and isinstance(c.func.value, ast.Name) and c.func.value.id in ("log", "logger", "logging", "_log")):
                    continue
                n += 1
                key = f"{f.key}:log-call:{c.func.attr}:{u(c.args[levels[c.func.attr] - 1])[:40] if len(c.args) >= levels[c.func.attr] else ''}"
                lazy = len(c.args) > levels[c.func.attr] or any(isinstance(a, ast.Starred) for a in c.args)
                ctx.check(not lazy, key, f"`{u(c)[:90]}` passes %-arguments, but the log-file formatter and the warning categories read record.msg (line {raw[0].lineno} of _detail/logging.py), not getMessage(): the message is printed and classified as the bare template and no longer names what was dropped", f.loc(c))
    ctx.stats["log_calls"] = n
    ctx.floor(max(1, int(n * 0.6)) if n < 20 else 12)
