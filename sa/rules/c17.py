"""C17 - Fortran sources (language tables here; automaton rules in fsm-based part)."""

from __future__ import annotations

from re import fullmatch as re_fullmatch

import ast

from ..model import AnalysisError, callee, dotted, u, walk_no_nested
from ..run import rule
from ..tables import str_list


def language_tables(repo):
    """(accepted extensions, {ext: language}, languages served by get_file_source)"""
    f = repo.func("source", "is_source_file")
    exts = None
    for n in walk_no_nested(f.node):
        if isinstance(n, ast.Assign) and isinstance(n.value, (ast.List, ast.Tuple, ast.Set)) and len(n.value.elts) > 5:
            exts = str_list(n.value) if not isinstance(n.value, ast.Set) else [e.value for e in n.value.elts]
    if exts is None:
        raise AnalysisError("source.is_source_file: extension list literal not found")
    fl = repo.cls("language", "FileLanguage")
    order = None
    if "_supported_languages" in fl.class_attrs:
        order = str_list(fl.class_attrs["_supported_languages"])
    ext_lang = {}
    table = {}
    v = fl.class_attrs.get("_language_extensions")
    if isinstance(v, ast.Dict):
        for k, val in zip(v.keys, v.values):
            table[k.value] = str_list(val)
    for sl, val in fl.class_attrs.get("_language_extensions[]", []):
        if not isinstance(sl, ast.Constant):
            raise AnalysisError("FileLanguage._language_extensions: non-constant key")
        table[sl.value] = str_list(val)
    if not table or order is None:
        raise AnalysisError("FileLanguage tables not found")
    dup = {}
    for lang in order:
        for e in table.get(lang, []):
            if e in ext_lang and ext_lang[e] != lang:
                dup.setdefault(e, [ext_lang[e]]).append(lang)
            ext_lang.setdefault(e, lang)
    language_tables.duplicates = dup
    # languages served by get_file_source
    g = repo.func("file_source", "get_file_source")
    served = set()
    for n in walk_no_nested(g.node):
        if isinstance(n, ast.If):
            t = n.test
            if isinstance(t, ast.Compare) and len(t.ops) == 1 and dotted(t.left) == "lang":
                body_returns = any(isinstance(s, ast.Return) and s.value is not None for s in n.body)
                if not body_returns:
                    continue
                if isinstance(t.ops[0], ast.Eq) and isinstance(t.comparators[0], ast.Constant):
                    served.add(t.comparators[0].value)
                elif isinstance(t.ops[0], ast.In):
                    served.update(str_list(t.comparators[0]))
    if not served:
        raise AnalysisError("get_file_source: no `lang == ...: return <source>` arms found")
    return exts, ext_lang, served


def r4_dups(ctx):
    exts, ext_lang, served = language_tables(ctx.repo)
    fl = ctx.repo.cls("language", "FileLanguage")
    for e, langs in sorted(getattr(language_tables, "duplicates", {}).items()):
        ctx.violation(f"language:FileLanguage:extension-in-two-languages:{e}", f"extension {e} is listed for {langs}: the first language in _supported_languages wins, so files of the other language are scanned with the wrong line source (comment syntax, directives)", fl.loc())
    ctx.ok("language:FileLanguage:extensions-unambiguous")
    for e in exts:
        ctx.ok(f"language:FileLanguage:extension:{e}:{ext_lang.get(e)}")


@rule("C17.R4", "language tables: every accepted Fortran extension has a line source")
def r4(ctx):
    exts, ext_lang, served = language_tables(ctx.repo)
    f = ctx.repo.func("source", "is_source_file")
    r4_dups(ctx)
    n = 0
    for e in exts:
        lang = ext_lang.get(e)
        if lang is None or not lang.startswith("fortran"):
            continue
        n += 1
        ctx.check(
            lang in served,
            f"source:is_source_file:{e}",
            f"extension {e} is accepted as a source file but its language {lang!r} has no line source: get_file_source raises and the whole analysis aborts",
            f.loc(),
        )
    ctx.floor(2)


# ----------------------------------------------------------------------
import re as _re

from ..decision import NOTHING, Evaluator, Hooks, Sym
from ..decision import vtext as _vtext
from ..fsm import Extracted, FortranExtracted, explore_fortran, C_ALPHABET


def _vt(v):
    if isinstance(v, str):
        return v
    return _re.sub(r"@\d+", "", _vtext(v))


@rule("C17.R1", "fortran_cleaner automaton x reference free-form scanner: counted lines and statement ends agree on every reachable well-formed state")
def r1(ctx):
    repo = ctx.repo
    ex = FortranExtracted(repo)
    seen, ntrans, disc = explore_fortran(ex)
    ctx.stats.update({"product_states": len(seen), "product_transitions": ntrans, "cleaner_steps_interpreted": ex.steps, "exhaustive": True})
    ctx.note(f"file_source:fortran_cleaner.process/dir_check: {len(seen)} product states, {ntrans} transitions")
    by = {}
    for kind, msg, tr, stack, rm in disc:
        by.setdefault(f"file_source:fortran_cleaner:{kind}:top={stack[-1]}:ref={rm}", []).append((msg, tr, stack))
    for key, items in sorted(by.items()):
        msg, tr, stack = min(items, key=lambda x: len(x[1]))
        ctx.violation(key, f"{msg}; shortest witness {tr!r} (mode stack {list(stack)}); {len(items)} reachable product states affected", ex.process.loc(), witness=tr)
    ctx.ok("file_source:fortran_cleaner:product-explored", f"{len(seen)} states")
    for st in sorted({s[0] for s in seen}):
        ctx.ok(f"file_source:fortran_cleaner:stack:{'/'.join(st)}")
    handled, pushed = ex.handled_modes(), ex.modes_pushed
    for m in sorted(pushed - handled):
        ctx.violation(f"file_source:fortran_cleaner:mode-without-arm:{m}", f"mode {m} can be entered but process() has no arm for it", ex.process.loc())
    ctx.floor(8)


class _FDriver(Hooks):
    unroll = 1

    def on_call(self, call, ftext, args, kwargs, st):
        if ftext == "next":
            return Sym("SRC")
        if ftext == "len":
            return Sym(f"len({_vt(args[0])})")
        if ftext in ("it.islice", "itertools.islice"):
            return Sym("SLICE(" + ", ".join(_vt(a) for a in args) + ")")
        return NOTHING

    def pure(self, ftext):
        return not ftext.endswith(".physical_reset")


@rule("C17.R1b", "per-line protocol of fortran_file_source: directives flush and pass through; statement text is cleaned, counted with the C pass's line numbers, and ended when not continued")
def r1b(ctx):
    repo = ctx.repo
    f = repo.func("file_source", "fortran_file_source")
    loops = [n for n in walk_no_nested(f.node) if isinstance(n, ast.While) and n.body and isinstance(n.body[0], ast.Assign) and u(n.body[0].value).startswith("next(")]
    ctx.require(len(loops) == 1, "fortran_file_source: `while True: src_c_line = next(c_walker)` loop not found")
    loop = loops[0]
    paths = Evaluator(_FDriver()).paths(f.node, body=loop.body, params={"current_physical_start": Sym("CPS")})
    ctx.note(f"{f.key}: {len(paths)} paths")
    for p in paths:
        a = {_re.sub(r"@\d+", "", k): v for k, v in p.atoms.items()}
        isdir = next((v for k, v in a.items() if "'CPP_DIRECTIVE' Eq SRC.category" in k), None)
        pblank = next((v for k, v in a.items() if "current_physical_line.category()" in k), None)
        lblank = next((v for k, v in a.items() if "curr_line.category" in k), None)
        cont = next((v for k, v in a.items() if "'CONTINUING_FROM_SOL' Eq cleaner.state[-1]" in k), None)
        known = ("'CPP_DIRECTIVE' Eq SRC.category", "current_physical_line.category()", "curr_line.category", "'CONTINUING_FROM_SOL' Eq cleaner.state[-1]", "CPS Eq None", "None Eq CPS")
        extra = [k for k in a if not any(x in k for x in known)]
        key = f"file_source:fortran_file_source:line:directive={isdir},pblank={pblank},continuing={cont},lblank={lblank}"
        if extra or isdir is None:
            ctx.violation(key, f"the per-line protocol depends on {extra}: {p.describe()[:300]}", f.loc(loop))
            continue
        calls = [(e[1], tuple(_vt(x) for x in e[2:])) for e in p.effects if e[0] == "call"]
        ys = [_vt(e[1]) for e in p.effects if e[0] == "yield"]
        names = [c[0] for c in calls]
        if isdir:
            ok = (
                names[:1] == ["curr_line.physical_update"] and calls[0][1] == ("SRC.current_physical_end",)
                and "curr_line.physical_reset" in names and ys == ([] if lblank else ["curr_line"]) + ["SRC"]
                and "cleaner.process" not in names and p.result[0] == "continue" and lblank is not None
            )
            ctx.check(ok, key, f"a preprocessor directive must first flush the pending statement text (yielded iff not blank), then be passed on itself, unconditionally: {p.describe()[:300]}", f.loc(loop))
        else:
            exp = ["current_physical_line.__init__", "cleaner.process"]
            if pblank is False:
                exp.append("curr_line.add_physical_lines")
            exp.append("curr_line.join")
            if cont is False:
                exp += ["curr_line.physical_update", "curr_line.physical_reset"]
            proc = [c for c in calls if c[0] == "cleaner.process"]
            okp = len(proc) == 1 and proc[0][1] == ("SLICE(SRC.flushed_line, len(SRC.flushed_line))",)
            addl = [c for c in calls if c[0] == "curr_line.add_physical_lines"]
            oka = all(c[1] == ("SRC.lines",) for c in addl)
            oky = ys == (["curr_line"] if (cont is False and lblank is False) else [])
            ok = names == exp and okp and oka and oky and pblank is not None and cont is not None
            ctx.check(ok, key, f"statement text: clean the C pass's text, count its physical lines iff the cleaned text is not blank, join, and end the statement iff the cleaner is not continuing: steps {names}, yields {ys}; expected {exp}", f.loc(loop))
    ctx.floor(6)


@rule("C17.R2", "the C pass feeding the Fortran cleaner only recognises directive lines (no comment / quote handling at top level)")
def r2(ctx):
    repo = ctx.repo
    f = repo.func("file_source", "fortran_file_source")
    cw = [c for c in f.calls() if callee(c) == "c_file_source"]
    ok = len(cw) == 1 and u(cw[0].args[0]) == f.params[0] and {k.arg: u(k.value) for k in cw[0].keywords}.get("directives_only") == "True"
    ctx.soft(ok, "file_source:fortran_file_source:c-pass-directives-only", f"the Fortran source must be fed by c_file_source(fp, directives_only=True): {[u(c) for c in cw]}", f.loc())
    c = repo.func("file_source", "c_file_source")
    mk = [x for x in c.calls() if callee(x) == "c_cleaner"]
    ok = len(mk) == 1 and u(mk[0].args[1] if len(mk[0].args) > 1 else mk[0].keywords[0].value) == c.params[2]
    ctx.soft(ok, "file_source:c_file_source:passes-directives_only", "directives_only must reach the cleaner", c.loc())
    ex = Extracted(repo, "c_cleaner")
    for ch in C_ALPHABET:
        for cat in ("EMPTY", "BLANK", "SRC"):
            st2, cat2, out, events, _vc, _dc = ex.step(("TOPLEVEL",), cat, ch, True)
            key = f"file_source:c_cleaner:directives_only:TOPLEVEL:{ch!r}:{cat}"
            if ch == "#" and cat in ("EMPTY", "BLANK"):
                ok = st2 == ("TOPLEVEL", "CPP_DIRECTIVE") and events == (("ns", "#"),)
            elif ch == "\\":
                ok = st2 == ("TOPLEVEL", "ESCAPING") and events == (("ns", "\\"),)
            else:
                ok = st2 == ("TOPLEVEL",) and out == "next" and len(events) == 1 and (events[0] == ("sp",) if ch == " " else events[0] == ("ns", ch))
            ctx.check(ok, key, f"in directives-only mode Fortran text must pass through untouched (no comment or literal handling): {ch!r} -> stack {st2}, events {events}", ex.process.loc())
    ctx.floor(10)


@rule("C17.R3", "Fortran files go through the same directive parser; included files inherit the including file's language at every level")
def r3(ctx):
    repo = ctx.repo
    ps = repo.cls("finder", "ParserState")
    ins = ps.find_method("insert_file")
    fnp, lp = ins.params[1], ins.params[2]

    class H(Hooks):
        def on_call(self, call, ftext, args, kwargs, st):
            if ftext == "self._get_realpath":
                return Sym("FN")
            if ftext.endswith("FileParser"):
                return Sym("PARSER")
            return NOTHING

    for p in Evaluator(H()).paths(ins.node):
        a = p.atoms
        new = a.get("FN In self.trees")
        lang = a.get(lp)
        key = f"finder:ParserState.insert_file:known={new},language-given={lang}"
        stores = {e[1]: _vt(e[2]) for e in p.effects if e[0] == "store"}
        if new:
            ctx.check(not stores, key, "an already parsed file must not be parsed or re-registered again", ins.loc())
            continue
        extra = [k for k in a if k not in ("FN In self.trees", lp)]
        okp = any(_vt(v).startswith("PARSER.parse_file(") and f"language={lp}" in _vt(v) for k, v in stores.items() if k == "self.trees[FN]")
        if lang is True:
            okl = stores.get("self.langs[FN]") == lp
        elif lang is False:
            okl = stores.get("self.langs[FN]") == "FileLanguage(FN).get_language()"
        else:
            okl = False
        ctx.check(okp and okl and not extra, key, f"a new file must be parsed with the language it was given and THAT language recorded for its own includes (the extension decides only when no language is inherited): {stores}", ins.loc())
    inc = repo.cls("preprocessor", "IncludeNode").find_method("evaluate_for_platform")
    t = u(inc.node)
    ok = "lang = kwargs['state'].langs[kwargs['filename']]" in t and "kwargs['state'].insert_file(include_file, lang)" in t
    ctx.soft(ok, "preprocessor:IncludeNode.evaluate_for_platform:passes-language", "the language recorded for the including file must be handed to insert_file", inc.loc())
    from ..spec import atoms as _atoms, call_args as _call_args, tab as _tab, vt as _vtt

    pf = repo.func("file_parser", "FileParser.parse_file")
    n_src = 0
    for p in _tab(pf, unroll=1):
        for k in _atoms(p):
            i = k.find("get_file_source(")
            if i < 0:
                continue
            depth = 0
            for j in range(i + len("get_file_source"), len(k)):
                depth += k[j] == "("
                depth -= k[j] == ")"
                if depth == 0:
                    break
            ca = _call_args(k[i : j + 1], "get_file_source")
            n_src += 1
            pos, kw = ca if ca else ([], {})
            lang_arg = pos[1] if len(pos) > 1 else kw.get("assumed_lang")
            ctx.check(lang_arg == pf.params[2] if len(pf.params) > 2 else False, "file_parser:FileParser.parse_file:language-to-source", f"the inherited language must select the line source: get_file_source({', '.join(pos)}{', ' if kw else ''}{', '.join(f'{a}={b}' for a, b in kw.items())})", pf.loc())
            break
    if not n_src:
        raise AnalysisError("parse_file: no decision on get_file_source(...) found")
    # get_file_source, as a decision table: the subject is the inherited language when there is one, else the language
    # of the extension; subject -> source by the table below; anything else raises
    g = repo.func("file_source", "get_file_source")
    pth, al = g.params[0], g.params[1]
    EXT = f"FileLanguage({pth}).get_language()"
    SRC = {"fortran-free": "fortran_file_source", "c": "c_file_source", "c++": "c_file_source", "asm": "asm_file_source"}
    n_arm = 0
    for p in _tab(g, unroll=1):
        at = _atoms(p)
        inh = at.get(al)
        if inh is None:
            inh = next((not v for k, v in at.items() if k in (f"None Eq {al}", f"{al} Eq None")), None)
        subj_want = al if inh else EXT
        tests = {}
        bad = None
        for k, v in at.items():
            m = re_fullmatch(r"'([\w+-]+)' Eq (.+)", k) or None
            if m is None:
                m2 = re_fullmatch(r"(.+) Eq '([\w+-]+)'", k)
                m = (m2.group(2), m2.group(1)) if m2 else None
            else:
                m = (m.group(1), m.group(2))
            if m is None:
                continue
            if m[1] != subj_want:
                bad = m[1]
            tests[m[0]] = v
        if inh is None and tests:
            raise AnalysisError(f"get_file_source: whether a language was inherited is not examined on {p.describe()[:120]}")
        if bad is not None:
            ctx.violation("file_source:get_file_source:assumed-language-wins", f"with{'' if inh else 'out'} an inherited language the source is chosen by `{bad}`: an inherited language must override the extension (and only then)", g.loc())
            continue
        hit = [x for x, v in tests.items() if v]
        n_arm += 1
        if p.result[0] == "return":
            got = _vtt(p.result[1])
            ctx.check(len(hit) == 1 and SRC.get(hit[0]) == got, f"file_source:get_file_source:arms:{hit[0] if hit else '-'}", f"language {hit} -> {got}; the table is {SRC}", g.loc())
        else:
            ctx.check(not hit and p.result[0] == "raise", "file_source:get_file_source:arms:unknown", f"an unknown language must raise: {p.describe()[:160]}", g.loc())
    if n_arm < 6:
        raise AnalysisError(f"get_file_source: only {n_arm} arms understood")
    ctx.floor(7)
