"""C17 - Fortran sources (language tables here; automaton rules in fsm-based part)."""

from __future__ import annotations

import ast

from ..model import AnalysisError, callee, dotted, u, walk_no_nested
from ..run import rule
from ..tables import str_list


def language_tables(repo):
    """(accepted extensions, {ext: language}, languages served by get_file_source)"""
    f = repo.func("source", "is_source_file")
    exts = None
    for n in walk_no_nested(f.node):
        if isinstance(n, ast.Assign) and isinstance(n.value, (ast.List, ast.Tuple, ast.Set)) and len(n.value.elts) > 5:
            exts = str_list(n.value) if not isinstance(n.value, ast.Set) else [e.value for e in n.value.elts]
    if exts is None:
        raise AnalysisError("source.is_source_file: extension list literal not found")
    fl = repo.cls("language", "FileLanguage")
    order = None
    if "_supported_languages" in fl.class_attrs:
        order = str_list(fl.class_attrs["_supported_languages"])
    ext_lang = {}
    table = {}
    v = fl.class_attrs.get("_language_extensions")
    if isinstance(v, ast.Dict):
        for k, val in zip(v.keys, v.values):
            table[k.value] = str_list(val)
    for sl, val in fl.class_attrs.get("_language_extensions[]", []):
        if not isinstance(sl, ast.Constant):
            raise AnalysisError("FileLanguage._language_extensions: non-constant key")
        table[sl.value] = str_list(val)
    if not table or order is None:
        raise AnalysisError("FileLanguage tables not found")
    for lang in order:
        for e in table.get(lang, []):
            ext_lang.setdefault(e, lang)
    # languages served by get_file_source
    g = repo.func("file_source", "get_file_source")
    served = set()
    for n in walk_no_nested(g.node):
        if isinstance(n, ast.If):
            t = n.test
            if isinstance(t, ast.Compare) and len(t.ops) == 1 and dotted(t.left) == "lang":
                body_returns = any(isinstance(s, ast.Return) and s.value is not None for s in n.body)
                if not body_returns:
                    continue
                if isinstance(t.ops[0], ast.Eq) and isinstance(t.comparators[0], ast.Constant):
                    served.add(t.comparators[0].value)
                elif isinstance(t.ops[0], ast.In):
                    served.update(str_list(t.comparators[0]))
    if not served:
        raise AnalysisError("get_file_source: no `lang == ...: return <source>` arms found")
    return exts, ext_lang, served


@rule("C17.R4", "language tables: every accepted Fortran extension has a line source")
def r4(ctx):
    exts, ext_lang, served = language_tables(ctx.repo)
    f = ctx.repo.func("source", "is_source_file")
    n = 0
    for e in exts:
        lang = ext_lang.get(e)
        if lang is None or not lang.startswith("fortran"):
            continue
        n += 1
        ctx.check(
            lang in served,
            f"source:is_source_file:{e}",
            f"extension {e} is accepted as a source file but its language {lang!r} has no line source: get_file_source raises and the whole analysis aborts",
            f.loc(),
        )
    ctx.floor(2)
