"""C05 - a physical line is counted iff it holds code outside comments."""

from __future__ import annotations

import ast
import re

from ..decision import NOTHING, Evaluator, Hooks, Sym
from ..decision import vtext as _vtext
from ..fsm import Extracted, explore_c
from ..model import AnalysisError, callee, dotted, u, walk_no_nested
from ..run import rule


def vtext(v):
    if isinstance(v, str):
        return v
    return re.sub(r"@\d+", "", _vtext(v))


# ----------------------------------------------------------------------
@rule("C05.R0", "one_space_line: space-normalising buffer and its BLANK / CPP_DIRECTIVE / SRC_NONBLANK classification")
def r0(ctx):
    repo = ctx.repo
    osl = repo.cls("file_source", "one_space_line")
    from ..spec import class_hooks

    ev = Evaluator(class_hooks(osl))

    def effs(p):
        return [(e[0], e[1], tuple(vtext(x) for x in e[2:])) for e in p.effects]

    # append_char
    f = osl.find_method("append_char")
    c = f.params[1]
    for p in ev.paths(f.node):
        sp = p.atoms.get(f"{c}.isspace()")
        tr = p.atoms.get("self.trailing_space")
        key = f"file_source:one_space_line.append_char:space={sp},trailing={tr}"
        e = effs(p)
        if sp is False:
            ok = e == [("call", "self.parts.append", (c,)), ("store", "self.trailing_space", ("False",))]
        elif sp is True and tr is False:
            ok = e == [("call", "self.parts.append", (" ",)), ("store", "self.trailing_space", ("True",))]
        elif sp is True and tr is True:
            ok = e == []
        else:
            ok = False
        ctx.check(ok, key, f"a non-space is appended as is; a space is appended (as ' ') only if the line does not already end in a space: {p.describe()}", f.loc())
    f = osl.find_method("append_space")
    for p in ev.paths(f.node):
        tr = p.atoms.get("self.trailing_space")
        e = effs(p)
        ok = (e == [] if tr else e == [("call", "self.parts.append", (" ",)), ("store", "self.trailing_space", ("True",))]) and tr is not None
        ctx.check(ok, f"file_source:one_space_line.append_space:trailing={tr}", f"{p.describe()}", f.loc())
    f = osl.find_method("append_nonspace")
    for p in ev.paths(f.node):
        e = effs(p)
        ok = e == [("call", "self.parts.append", (f.params[1],)), ("store", "self.trailing_space", ("False",))] and not p.atoms
        ctx.check(ok, "file_source:one_space_line.append_nonspace", f"{p.describe()}", f.loc())
    # category
    f = osl.find_method("category")
    paths = ev.paths(f.node)
    for p in paths:
        key = "file_source:one_space_line.category:" + ",".join(f"{k}={int(v)}" for k, v in p.atoms.items())
        res = p.result[1] if p.result[0] == "return" else None
        a = p.atoms
        empty = a.get("self.parts")
        if empty is False:
            want = "BLANK"
        else:
            one = a.get("1 Eq len(self.parts)")
            first_sp = a.get("' ' Eq self.parts[0]")
            first_hash = a.get("'#' Eq self.parts[0]")
            two_sp_hash = a.get("[' ', '#'] Eq self.parts[:2]", a.get("self.parts[:2] Eq [' ', '#']"))
            if one:
                want = "BLANK" if first_sp else "CPP_DIRECTIVE" if first_hash else "SRC_NONBLANK"
                if first_sp is None and first_hash is None:
                    want = None
            else:
                want = "CPP_DIRECTIVE" if (two_sp_hash or first_hash) else "SRC_NONBLANK"
                if two_sp_hash is None and first_hash is None:
                    want = None
        known = {"self.parts", "1 Eq len(self.parts)", "' ' Eq self.parts[0]", "'#' Eq self.parts[0]", "[' ', '#'] Eq self.parts[:2]", "self.parts[:2] Eq [' ', '#']"}
        extra = [k for k in a if k not in known]
        ctx.check(not extra and want is not None and res == want, key, f"category() returns {res!r}, expected {want!r} (BLANK: empty or a single space; CPP_DIRECTIVE: first non-space is '#'): {p.describe()}", f.loc())
    # join
    f = osl.find_method("join")
    o = f.params[1]
    for p in ev.paths(f.node):
        a = p.atoms
        key = "file_source:one_space_line.join:" + ",".join(f"{k}={int(v)}" for k, v in a.items())
        e = effs(p)
        has = a.get(f"{o}.parts")
        if has is False:
            ok = e == []
        else:
            lead = a.get(f"' ' Eq {o}.parts[0]")
            tr = a.get("self.trailing_space")
            if lead and tr:
                exp = [("aug", "self.parts", ("Add", f"{o}.parts[1:]"))]
            else:
                exp = [("aug", "self.parts", ("Add", f"{o}.parts[:]"))]
            exp.append(("store", "self.trailing_space", (f"{o}.trailing_space",)))
            got = [(x[0], x[1], tuple(vtext(y) for y in x[2:])) for x in p.effects]
            ok = got == exp and has is True
        ctx.check(ok, key, f"join must append the other buffer, dropping its leading space iff this one ends in a space, and take over its trailing_space: {p.describe()}", f.loc())
    ctx.floor(3 + 2 + 1 + 5 + 3)


# ----------------------------------------------------------------------
class DriverHooks(Hooks):
    unroll = 1

    def on_call(self, call, ftext, args, kwargs, st):
        if ftext == "len":
            return Sym(f"len({vtext(args[0])})")
        if ftext == "it.islice" or ftext == "itertools.islice":
            return Sym("SLICE(" + ", ".join(vtext(a) for a in args) + ")")
        if ftext == "RuntimeError":
            return Sym("RuntimeError")
        return NOTHING

    def pure(self, ftext):
        return not ftext.endswith(".physical_reset")


def _driver_loop(f):
    loops = [n for n in f.node.body if isinstance(n, ast.For) and "enumerate(fp" in u(n.iter)]
    if len(loops) != 1:
        raise AnalysisError(f"{f.key}: `for n, line in enumerate(fp, start=1)` loop not found")
    return loops[0]


@rule("C05.R1b", "per-line protocol of c_file_source (decision table): what is processed, when logical_newline runs, when a line is counted, when the logical line ends")
def r1b(ctx):
    repo = ctx.repo
    f = repo.func("file_source", "c_file_source")
    loop = _driver_loop(f)
    ok = u(loop.iter) == "enumerate(fp, start=1)" and isinstance(loop.target, ast.Tuple) and len(loop.target.elts) == 2
    ctx.soft(ok, "file_source:c_file_source:enumerates-from-1", "physical lines must be numbered from 1 in file order", f.loc(loop))
    num, line = [u(e) for e in loop.target.elts]
    paths = Evaluator(DriverHooks()).paths(f.node, body=loop.body, params={num: Sym(num), line: Sym(line)})
    ctx.note(f"{f.key}: {len(paths)} paths through the per-line loop body")
    n = 0
    for p in paths:
        NL = BS = None
        endpos = []
        inbc = []
        pblank = lblank = None
        unknown = []
        for k, v in p.atoms.items():
            kk = re.sub(r"@\d+", "", k)
            if "'\\n'" in kk and " Eq " in kk and f"{line}[-1]" in kk:
                NL = v
            elif "'\\\\'" in kk and " Eq " in kk and f"{line}[" in kk:
                BS = v if BS is None else BS
                if BS != v:
                    unknown.append(k + " (inconsistent)")
            elif re.search(r" Gt 0$|^0 Lt ", kk) and "len(" in kk:
                endpos.append(v)
            elif "'IN_BLOCK_COMMENT' Eq cleaner.state[-1]" in kk or "cleaner.state[-1] Eq 'IN_BLOCK_COMMENT'" in kk:
                inbc.append(v)
            elif "current_physical_line.category()" in kk and "'BLANK'" in kk:
                pblank = v
            elif "curr_line.category" in kk and "'BLANK'" in kk:
                lblank = v
            else:
                unknown.append(k)
        key = "file_source:c_file_source:line:" + ",".join(
            f"{n_}={int(v)}" for n_, v in (("NL", NL), ("BS", BS), ("pblank", pblank), ("lblank", lblank)) if v is not None
        ) + ",inbc=" + "".join(str(int(x)) for x in inbc) + ",pos=" + "".join(str(int(x)) for x in endpos)
        n += 1
        if unknown:
            ctx.violation(key, f"the per-line protocol depends on {unknown}: every physical line must go through the same reset / process / count / join / end-of-logical-line steps  [{p.describe()[:300]}]", f.loc(loop))
            continue
        effs = []
        for e in p.effects:
            if e[0] == "call":
                effs.append((e[1], tuple(vtext(a) for a in e[2:])))
            elif e[0] == "yield" or (e[0] == "aug" and e[1] != "end"):
                effs.append((e[0], tuple(vtext(a) for a in e[1:])))
        nonempty = all(endpos) if endpos else None
        if p.result[0] == "raise":
            ok = NL is False and nonempty and BS is True
            ctx.check(ok, key, f"the driver raises on an ordinary line: {p.describe()[:200]}", f.loc(loop))
            continue
        if p.result[0] != "fall":
            ctx.violation(key, f"the per-line body leaves the loop early ({p.result[0]}): {p.describe()[:250]}", f.loc(loop))
            continue
        continued = bool(nonempty and BS)
        nsub = (1 if NL else 0) + (1 if continued else 0)
        end = f"len({line})"
        for _ in range(nsub):
            end = f"({end} Sub 1)"
        exp = [("current_physical_line.__init__", ()), ("cleaner.process", (f"SLICE({line}, {end})",))]
        i1 = inbc[0] if inbc else None
        lnl = (not continued) and (i1 is False)
        if lnl:
            exp.append(("cleaner.logical_newline", ()))
        if pblank is False:
            exp.append(("curr_line.add_physical_line", (num,)))
        exp.append(("curr_line.join", ("current_physical_line",)))
        i2 = inbc[-1] if inbc else None
        ends = (not continued) and (i2 is False)
        if ends:
            exp.append(("curr_line.physical_update", (f"({num} Add 1)",)))
            if lblank is False:
                exp.append(("yield", ("curr_line",)))
            exp.append(("curr_line.physical_reset", ()))
            exp.append(("aug", ("total_sloc", "Add", "curr_line.physical_reset()")))
        got = [e for e in effs]
        # normalise the reset accumulation: call + aug
        got_n = [(a, tuple(re.sub(r"#\d+", "", x) for x in b)) for a, b in got]
        ctx.check(got_n == exp, key, f"per-line steps are {got_n}; expected {exp}", f.loc(loop))
    # ---- epilogue after the loop (end of file)
    idx = f.node.body.index(loop)
    tail = f.node.body[idx + 1 :]

    class TH(DriverHooks):
        pass

    tp = Evaluator(TH()).paths(f.node, body=tail, params={num: Sym(num)})
    for p in tp:
        a = {re.sub(r"@\d+", "", k): v for k, v in p.atoms.items()}
        key = "file_source:c_file_source:eof:" + ",".join(f"{k[:40]}={int(v)}" for k, v in a.items())
        lbl = next((v for k, v in a.items() if "curr_line.category" in k), None)
        relaxed = a.get("relaxed")
        top = next((v for k, v in a.items() if "cleaner.state" in k and "TOPLEVEL" in k), None)
        ys = [e for e in p.effects if e[0] == "yield"]
        upd = [e for e in p.effects if e[0] == "call" and e[1] == "curr_line.physical_update"]
        ok = len(upd) == 1 and vtext(upd[0][2]) == f"({num} Add 1)" and (len(ys) == (0 if lbl else 1)) and lbl is not None
        if p.result[0] == "raise":
            ok = ok and relaxed is False and top is False
        else:
            ok = ok and p.result[0] == "return" and (relaxed is True or top is True)
        ctx.check(ok, key, f"at end of file the pending logical line must be flushed (yielded iff not blank) and an unfinished comment/literal reported unless relaxed: {p.describe()[:250]}", f.loc())
    ctx.floor(10 + 3)


@rule("C05.R1", "c_cleaner automaton x reference C scanner: code marks, logical-line ends and directive-ness agree on every reachable well-formed state")
def r1(ctx):
    repo = ctx.repo
    ex = Extracted(repo, "c_cleaner")
    seen, ntrans, disc = explore_c(ex)
    ctx.stats.update({"product_states": len(seen), "product_transitions": ntrans, "cleaner_steps_interpreted": ex.steps, "cbi_mode_stacks": len({s[0] for s in seen}), "exhaustive": True})
    ctx.note(f"file_source:c_cleaner.process/logical_newline: {len(seen)} product states, {ntrans} transitions")
    f = ex.process
    by = {}
    for kind, msg, tr, stack, rm in disc:
        if kind == "D10":
            key = "file_source:c_cleaner:FOUND_SLASH-pending-at-line-continuation"
        else:
            key = f"file_source:c_cleaner:{kind}:top={stack[-1]}:ref={rm}"
        by.setdefault(key, []).append((msg, tr, stack))
    for key, items in sorted(by.items()):
        msg, tr, stack = min(items, key=lambda x: len(x[1]))
        ctx.violation(key, f"{msg}; shortest witness {tr!r} (mode stack {list(stack)}); {len(items)} reachable product states affected", f.loc(), witness=tr, count=len(items))
    # every reachable (stack, buffer, char) that agreed is an obligation
    ctx.ok("file_source:c_cleaner:product-explored", f"{len(seen)} states")
    for st in sorted({s[0] for s in seen}):
        ctx.ok(f"file_source:c_cleaner:stack:{'/'.join(st)}")
    # every pushed mode has an arm and vice versa
    handled, pushed = ex.handled_modes(), ex.modes_pushed
    for m in sorted(pushed - handled):
        ctx.violation(f"file_source:c_cleaner:mode-without-arm:{m}", f"mode {m} can be pushed but process() has no arm for it (RuntimeError('Unknown parser state'))", f.loc())
    for m in sorted(handled - pushed):
        ctx.ok(f"file_source:c_cleaner:arm-never-entered:{m}", "dead arm (reported, not a violation)")
    ctx.floor(15)


def _uncopy(t):
    """`list(x)`, `[*x]`, `x.copy()`, `x[:]` hold what x holds (the node gets its own list, the group's list is re-bound at reset anyway)"""
    if not isinstance(t, str):
        return t
    for pat in (r"list\((.+)\)", r"\[\*(.+)\]", r"(.+)\.copy\(\)", r"(.+)\[:\]"):
        m = re.fullmatch(pat, t)
        if m:
            return m.group(1)
    return t


@rule("C05.R3", "line lists and line counts are updated together; lists handed out are re-bound, never mutated afterwards")
def r3(ctx):
    repo = ctx.repo
    li = repo.cls("file_source", "line_info")
    ev = Evaluator(Hooks())
    f = li.find_method("add_physical_lines")
    p = ev.paths(f.node)
    a = f.params[1]
    e = [(x[0], x[1], tuple(vtext(y) for y in x[2:])) for x in p[0].effects]
    ok = len(p) == 1 and e == [("call", "self.lines.extend", (a,)), ("aug", "self.local_sloc", ("Add", f"len({a})"))]
    ctx.check(ok, "file_source:line_info.add_physical_lines", f"must extend lines and add len(lines) to local_sloc: {e}", f.loc())
    f = li.find_method("add_physical_line")
    p = ev.paths(f.node)
    ok = len(p) == 1 and [(x[0], x[1], tuple(vtext(y) for y in x[2:])) for x in p[0].effects] == [("call", "self.add_physical_lines", (f"[{f.params[1]}]",))]
    ctx.check(ok, "file_source:line_info.add_physical_line", "must add exactly the given line", f.loc())
    f = li.find_method("physical_reset")
    p = ev.paths(f.node)
    st = {x[1]: vtext(x[2]) for x in p[0].effects if x[0] == "store"}
    ok = len(p) == 1 and st.get("self.lines") == "[]" and st.get("self.local_sloc") == "0" and vtext(p[0].result[1]) == "self.local_sloc" and not any(x[0] == "call" and x[1].startswith("self.lines.") for x in p[0].effects)
    ctx.check(ok, "file_source:line_info.physical_reset", f"must return the counted lines, RE-BIND lines to a new list (the old one is owned by a tree node) and zero the count: {p[0].describe()}", f.loc())
    from ..spec import tab as _tab, vt as _vt

    def _effs(p):
        out = []
        for e in p.effects:
            if e[0] in ("store", "call"):
                out.append((e[0], _vt(e[1]), tuple(_vt(x) for x in e[2:] if not isinstance(x, tuple))))
            elif e[0] == "aug":
                out.append(("aug", _vt(e[1]), (e[2], _vt(e[3]))))
        return out

    # table specifications (what is done on every path, however it is written)
    f = li.find_method("physical_update")
    for p in _tab(f, unroll=1):
        ef = _effs(p)
        cat = [i for i, e in enumerate(ef) if e[:2] == ("store", "self.category")]
        fl = [i for i, e in enumerate(ef) if e[0] == "store" and e[2] and e[2][0].endswith("current_logical_line.flush()")] + [i for i, e in enumerate(ef) if e[0] == "call" and e[1].endswith("current_logical_line.flush")]
        ok = len(cat) == 1 and ef[cat[0]][2] == ("self.current_logical_line.category()",) and bool(fl) and cat[0] < min(fl)
        ctx.check(ok, "file_source:line_info.physical_update", f"the category of the logical line must be taken from the buffer BEFORE the buffer is flushed (a flushed buffer is blank): {p.describe()[:200]}", f.loc())
    lg = repo.cls("file_parser", "LineGroup")
    f = lg.find_method("add_line")
    pc, pl = f.params[2], f.params[4]
    n_al = 0
    for p in _tab(f, unroll=1):
        ef = _effs(p)
        at = {_vt(k): v for k, v in p.atoms.items()}
        n_al += 1
        cnt = [e for e in ef if e[0] == "aug" and e[1] == "self.line_count"]
        ok = cnt == [("aug", "self.line_count", ("Add", pc))]
        has_lines = next((not v for k, v in at.items() if k in (f"None Eq {pl}", f"{pl} Eq None")), None)
        if has_lines is None:
            has_lines = at.get(pl)
        ext = [e for e in ef if e[0] == "call" and e[1] in ("self.lines.extend",) or (e[0] == "aug" and e[1] == "self.lines")]
        if has_lines is False:
            ok = ok and not ext
        else:
            ok = ok and len(ext) == 1 and (ext[0][2] == (pl,) or ext[0][2] == ("Add", pl))
        ctx.check(ok, "file_parser:LineGroup.add_line", f"a logical line adds its sloc count to the group's count and its counted line numbers to the group's line list, once each: {p.describe()[:220]}", f.loc())
    if not n_al:
        raise AnalysisError("LineGroup.add_line: no path")
    f = lg.find_method("merge")
    g = f.params[1]
    for p in _tab(f, unroll=1):
        ef = _effs(p)
        ok = [e for e in ef if e[0] == "aug" and e[1] == "self.line_count"] == [("aug", "self.line_count", ("Add", f"{g}.line_count"))]
        ext = [e for e in ef if (e[0] == "call" and e[1] == "self.lines.extend") or (e[0] == "aug" and e[1] == "self.lines")]
        ok = ok and len(ext) == 1 and ext[0][2] in ((f"{g}.lines",), ("Add", f"{g}.lines"))
        rs = [i for i, e in enumerate(ef) if e[0] == "call" and e[1] == f"{g}.reset"]
        ok = ok and len(rs) == 1 and rs[0] > max(i for i, e in enumerate(ef) if e in ext or (e[0] == "aug" and e[1] == "self.line_count"))
        ctx.check(ok, "file_parser:LineGroup.merge", f"merging adds the other group's count and its lines, once each, and resets the other group afterwards: {p.describe()[:220]}", f.loc())
    f = lg.find_method("reset")
    p = ev.paths(f.node)
    st = {x[1]: vtext(x[2]) for x in p[0].effects if x[0] == "store"}
    ok = st.get("self.lines") == "[]" and st.get("self.line_count") == "0" and st.get("self.body") == "[]"
    ctx.check(ok, "file_parser:LineGroup.reset", "must re-bind lines/body to new lists (the old ones were handed to a node) and zero the count", f.loc())
    # nodes get num_lines and lines from the same group
    fp = repo.cls("file_parser", "FileParser")
    from ..spec import call_args as _call_args

    f = fp.find_method("insert_code_node")
    g = next((p_ for p_ in f.params if any(isinstance(x, ast.Attribute) and x.attr == "line_count" and u(x.value) == p_ for x in ast.walk(f.node))), f.params[1])
    n_cn = 0
    for p in _tab(f, unroll=1):
        for e in p.effects:
            txt = " ".join(_vt(x) for x in e[1:] if not isinstance(x, tuple))
            i = txt.find("CodeNode(")
            if i < 0:
                continue
            j0 = txt.rfind(" ", 0, i) + 1
            name = txt[j0 : i + len("CodeNode")]
            depth = 0
            for j in range(i + len("CodeNode"), len(txt)):
                depth += txt[j] == "("
                depth -= txt[j] == ")"
                if depth == 0:
                    break
            ca = _call_args(txt[j0 : j + 1], name)
            if not ca:
                continue
            n_cn += 1
            pos, kw = ca
            num = pos[2] if len(pos) > 2 else kw.get("num_lines")
            lines = kw.get("lines", pos[4] if len(pos) > 4 else None)
            lines = _uncopy(lines)
            ctx.check(num == f"{g}.line_count" and lines == f"{g}.lines", "file_parser:FileParser.insert_code_node", f"a code node must take its count and its line list from the same group ({g}.line_count / {g}.lines): num_lines={num}, lines={lines}", f.loc())
    if not n_cn:
        raise AnalysisError("insert_code_node: no CodeNode(...) construction found in the decision table")
    f = fp.find_method("insert_directive_node")
    # the group parameter is the one whose line count is read (whatever its position)
    g = next((p_ for p_ in f.params if any(isinstance(x, ast.Attribute) and x.attr == "line_count" and u(x.value) == p_ for x in ast.walk(f.node))), f.params[1])
    n_dn = 0
    for p in _tab(f, unroll=1):
        st_ = {_vt(e[1]).rsplit(".", 1)[-1]: _vt(e[2]) for e in p.effects if e[0] == "store" and "." in _vt(e[1])}
        if "num_lines" not in st_ and "lines" not in st_:
            continue
        n_dn += 1
        ctx.check(st_.get("num_lines") == f"{g}.line_count" and _uncopy(st_.get("lines")) == f"{g}.lines", "file_parser:FileParser.insert_directive_node:count-and-lines", f"a directive node must take its count and its line list from the same group ({g}.line_count / {g}.lines): num_lines={st_.get('num_lines')}, lines={st_.get('lines')}", f.loc())
    if not n_dn:
        raise AnalysisError("insert_directive_node: no path sets num_lines / lines")
    ctx.floor(9)


@rule("C05.R4", "every logical line goes to exactly one of the directive / code groups; pending code is flushed before each directive and at end of file")
def r4(ctx):
    repo = ctx.repo
    f = repo.func("file_parser", "FileParser.parse_file")
    loops = [n for n in walk_no_nested(f.node) if isinstance(n, ast.While)]
    ctx.require(len(loops) == 1, "parse_file: `while True: logical_line = next(source)` loop not found")
    body = loops[0].body

    class H(Hooks):
        def on_call(self, call, ftext, args, kwargs, st):
            if ftext == "next":
                return Sym("LL")
            if ftext == "LL.phys_interval":
                return Sym("PI")
            return NOTHING

    paths = Evaluator(H()).paths(f.node, body=body)
    for p in paths:
        a = p.atoms
        isdir = next((v for k, v in a.items() if "'CPP_DIRECTIVE' Eq LL.category" in k or "LL.category Eq 'CPP_DIRECTIVE'" in k), None)
        summ = a.get("summarize_only")
        extra = [k for k in a if "CPP_DIRECTIVE" not in k and k != "summarize_only"]
        key = f"file_parser:FileParser.parse_file:line:directive={isdir},summarize={summ}"
        adds = [(e[1], [vtext(x) if not isinstance(x, tuple) else (x[0], vtext(x[1])) for x in e[2:]]) for e in p.effects if e[0] == "call" and e[1].endswith(".add_line")]
        hd = [e for e in p.effects if e[0] == "call" and e[1] == "FileParser.handle_directive"]
        if extra or isdir is None:
            ctx.violation(key, f"grouping depends on {extra}: {p.describe()[:200]}", f.loc())
            continue
        if isdir:
            ok = len(adds) == 1 and adds[0][0] == "groups['directive'].add_line" and adds[0][1][:3] == ["PI", "LL.local_sloc", "LL.flushed_line"] and ("lines", "LL.lines") in adds[0][1] and len(hd) == 1
        else:
            ok = len(adds) == 1 and adds[0][0] == "groups['code'].add_line" and adds[0][1][:2] == ["PI", "LL.local_sloc"] and ("lines", "LL.lines") in adds[0][1] and not hd
        ctx.check(ok, key, f"a logical line must be added (extent, sloc, physical line numbers) to exactly one group: {p.describe()[:250]}", f.loc())
    # table specification of handle_directive: pending code (if any) becomes a node and joins the file group BEFORE the
    # directive node is inserted; the directive group joins the file group afterwards
    from ..spec import atoms as _at4, tab as _tab4, vt as _vt4

    hd = repo.func("file_parser", "FileParser.handle_directive")
    n_hd = 0
    for p in _tab4(hd, unroll=1):
        at = _at4(p)
        empty = next((v for k, v in at.items() if re.fullmatch(r"groups\['code'\]\.empty\(\)", k)), None)
        if empty is None:
            empty = next((not v for k, v in at.items() if k in ("groups['code'].line_count", "groups['code'].lines")), None)
        if empty is None:
            raise AnalysisError(f"handle_directive: emptiness of the pending code group is not examined: {p.describe()[:160]}")
        n_hd += 1
        seq = [(str(e[1]).rsplit(".", 1)[-1], re.sub(r"@\d+", "", _vt4(e[3] if str(e[1]).endswith("_node") else e[2])) if len(e) > 2 else "") for e in p.effects if e[0] == "call"]
        want = ([("insert_code_node", "groups['code']"), ("merge", "groups['code']")] if not empty else []) + [("insert_directive_node", "groups['directive']"), ("merge", "groups['directive']")]
        ctx.check(seq == want, f"file_parser:FileParser.handle_directive:flush-code-first:pending={not empty}", f"with{'out' if empty else ''} pending code the steps must be {want}: got {seq}", hd.loc())
    if n_hd < 2:
        raise AnalysisError("handle_directive: fewer than two cases understood")
    # end of file: the path of parse_file that leaves the line loop flushes pending code the same way
    n_eof = 0
    for p in _tab4(f, unroll=1):
        at = _at4(p)
        emp = [(k, v) for k, v in at.items() if re.search(r"\['code'\]\.empty\(\)", k)]
        if not emp or p.result[0] == "raise":
            continue
        n_eof += 1
        ins = [e for e in p.effects if e[0] == "call" and str(e[1]).endswith("insert_code_node")]
        pending = not emp[-1][1]
        ctx.check(len(ins) == (1 if pending else 0), "file_parser:FileParser.parse_file:flush-at-eof", f"at end of file pending code (pending: {pending}) must become a node exactly once: {len(ins)} insertion(s)", f.loc())
    if not n_eof:
        raise AnalysisError("parse_file: no path examines the pending code group at end of file")
    gs = [c for c in f.calls() if callee(c) == "get_file_source"]
    ok = len(gs) == 1 and [u(a) for a in gs[0].args] == ["filename", "language"]
    ctx.soft(ok, "file_parser:FileParser.parse_file:source-by-language", "the line source must be chosen for the file and the (inherited) language", f.loc())
    ctx.floor(6)
