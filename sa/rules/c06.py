"""C06 - every counted line lands in exactly one platform set; reports agree."""

from __future__ import annotations

import ast
import re

from ..decision import NOTHING, Evaluator, Hooks, Sym, vtext
from ..flow import provenance, stmt_of
from ..model import AnalysisError, callee, dotted, u, walk_no_nested
from ..run import rule
from .c10 import AGGREGATORS, codebase_names


def _outer_loop(repo, f):
    cbn = codebase_names(repo, f)
    loops = [n for n in walk_no_nested(f.node) if isinstance(n, ast.For) and isinstance(n.iter, ast.Name) and n.iter.id in cbn]
    if len(loops) != 1:
        raise AnalysisError(f"{f.key}: loop over the code base not found")
    return loops[0], cbn


def _node_loops(loop):
    """Inner iteration over the CodeNodes of the file's tree: returns
    (iter-source text, node var, body statements) for loop or filter forms."""
    out = []
    for n in ast.walk(loop):
        if isinstance(n, ast.For) and n is not loop:
            it = n.iter
            src = None
            var = u(n.target)
            # [n for n in tree.walk() if isinstance(n, CodeNode)]
            if isinstance(it, ast.ListComp) and len(it.generators) == 1:
                g = it.generators[0]
                if len(g.ifs) == 1 and _is_codenode_test(g.ifs[0], u(g.target)) and u(it.elt) == u(g.target):
                    src = u(g.iter)
            # filter(lambda x: isinstance(x, CodeNode), tree.walk())
            if isinstance(it, ast.Call) and u(it.func) == "filter" and len(it.args) == 2 and isinstance(it.args[0], ast.Lambda):
                lam = it.args[0]
                if _is_codenode_test(lam.body, lam.args.args[0].arg):
                    src = u(it.args[1])
            # for node in tree.walk(): if isinstance(node, CodeNode): ...
            if src is None and isinstance(it, ast.Call) and u(it.func).endswith(".walk"):
                if len(n.body) == 1 and isinstance(n.body[0], ast.If) and _is_codenode_test(n.body[0].test, var) and not n.body[0].orelse:
                    out.append((u(it), var, n.body[0].body, n))
                    continue
            if src is not None:
                out.append((src, var, n.body, n))
    return out


def _is_codenode_test(t, var):
    return isinstance(t, ast.Call) and u(t.func) == "isinstance" and len(t.args) == 2 and u(t.args[0]) == var and u(t.args[1]) == "CodeNode"


_NODE_RE = re.compile(r"isinstance\((?P<node>(?P<state>.+?)\.get_tree\((?P<file>.+?)\)\.walk\(\)\[(?P<j>\d+)\]), CodeNode\)$")


def visits(repo, f):
    """Per path of the aggregator's decision table: the (file, node) pairs visited with the outcome
    of the CodeNode test, and the effects that mention each node.  Loop forms (comprehension filter,
    filter(lambda), for+if, for+continue, local helpers) are canonicalised by the engine."""
    from .. import review

    paths = review.table(f)
    if not paths:
        raise AnalysisError(f"{f.key}: decision table not available (path explosion)")
    out = []
    for p in paths:
        nodes = []
        for k, v in p.atoms.items():
            m = _NODE_RE.match(k)
            if m:
                nodes.append((m.group("state"), m.group("file"), m.group("node"), v))
        out.append((p, nodes))
    return out


def _mentions(e, text):
    return any(text in vtext(x) for x in e[1:])


@rule("C06.R1", "per-file aggregation: every CodeNode of the file's tree adds node.num_lines exactly once to setmap[frozenset(association_of_that_file[node])]; nothing else is added")
def r1(ctx):
    repo = ctx.repo
    for short, q in AGGREGATORS[:2]:
        f = repo.func(short, q)
        seen_t = seen_f = 0
        for p, nodes in visits(repo, f):
            augs = [e for e in p.effects if e[0] == "aug" and "frozenset(" in str(e[1])]
            want = []
            for state, file, node, v in nodes:
                if v:
                    want.append((f"[frozenset({state}.get_map({file})[{node}])]", f"{node}.num_lines"))
            key = f"{f.key}:per-file-aggregation:" + ",".join(f"{_abbr(k)}={int(v)}" for k, v in p.atoms.items() if "CodeNode" in k or "get_map" in k)
            ok = len(augs) == len(want)
            why = f"{len(augs)} additions for {len(want)} CodeNodes visited"
            if ok:
                for (tgt_sfx, val), e in zip(want, augs):
                    if not (str(e[1]).endswith(tgt_sfx) and e[2] == "Add" and vtext(e[3]) == val):
                        ok = False
                        why = f"`{e[1]} += {vtext(e[3])}`; expected `<setmap>{tgt_sfx} += {val}`"
            for state, file, node, v in nodes:
                if not _is_loop_item(p, file):
                    ok = False
                    why = f"the tree walked is that of `{file}`, which is not the file being visited by the loop over the code base"
            seen_t += bool(want)
            seen_f += any(not v for _, _, _, v in nodes)
            ctx.check(ok, key, f"each CodeNode (and nothing else) must add its num_lines once to the set of platforms associated with it IN THE MAP OF THE SAME FILE: {why}", f.loc())
        if not (seen_t and seen_f):
            raise AnalysisError(f"{f.key}: no path visits a CodeNode / a non-CodeNode of `<state>.get_tree(<file>).walk()`: aggregation idiom not recognised")
    ctx.floor(8)


def _is_loop_item(p, file):
    m = re.match(r"(.+)\[(\d+)\]$", file)
    return m is not None and any(k.startswith(f"more({m.group(1)}#L") and v for k, v in p.atoms.items())


def _tv(v):
    return "-" if v is None else int(v)


def _abbr(k):
    return re.sub(r"\w+\.get_tree\((.+?)\)\.walk\(\)", r"walk(\1)", k)[:80]


@rule("C06.R2", "coverage export: every node's lines go to exactly one of used / unused; id is the hash of the listed file")
def r2(ctx):
    repo = ctx.repo
    f = repo.func("coverage.__main__", "_compute")
    loop, cbn = _outer_loop(repo, f)
    fv = u(loop.target)
    seen = set()
    for p, nodes in visits(repo, f):
        from ..spec import appended

        exts = [("call", f"{nm}.extend", t[1:]) for nm in ("used_lines", "unused_lines") for t in appended(p, nm) if t.startswith("*")]
        for state, file, node, v in nodes:
            mine = [e for e in exts if e[2] == f"{node}.lines"]
            amap = f"{state}.get_map({file})[{node}]"
            tests = {k: val for k, val in p.atoms.items() if amap in k}
            key = f"{f.key}:partition:codenode={int(v)}," + ",".join(f"{_abbr(k).replace(_abbr(amap), 'ASSOC')[:40]}={int(val)}" for k, val in tests.items())
            if not v:
                ctx.check(not mine, key, f"a node that is not a CodeNode must not contribute lines: {[e[1] for e in mine]}", f.loc(loop))
                continue
            ok = len(mine) == 1 and len(tests) == 1 and _is_loop_item(p, file)
            if ok:
                k, val = next(iter(tests.items()))
                empty = None
                form = k.replace(amap, "A")
                if form in ("A", "len(A)", "0 Lt len(A)", "len(A) Gt 0", "0 NotEq len(A)", "len(A) NotEq 0", "bool(A)"):
                    empty = not val
                elif re.fullmatch(r"(0 Eq len\(A\)|len\(A\) Eq 0|(frozenset\()?A\)? Eq (frozenset|set)\((\[\])?\)|(frozenset|set)\((\[\])?\) Eq (frozenset\()?A\)?)", form):
                    empty = val
                ok = empty is not None and mine[0][1] == ("unused_lines.extend" if empty else "used_lines.extend")
                seen.add(empty)
            ctx.check(ok, key, f"a CodeNode's lines must be appended once: to unused_lines iff no platform is associated with it in the map OF THE SAME FILE, else to used_lines: {[(e[1], vtext(e[2])) for e in exts]} under {tests}", f.loc(loop))
    if seen != {True, False}:
        raise AnalysisError(f"{f.key}: used/unused partition idiom not recognised ({seen})")
    # entry: one record per (non-skipped) file; path and digest refer to that same file (decision table)
    from ..spec import appended, call_args, dict_fields, tab, vt
    from ..flow import loop_carried

    n_entries = 0
    for p in tab(f, unroll=1):
        files = [(m.group(1), f"{m.group(1)}[0]") for k, v in p.atoms.items() for m in [re.match(r"more\((.+)#L\d+,0\)$", k)] if m and v and not m.group(1).endswith(".walk()")]
        if not files:
            continue
        cb, F = files[0]
        skipped = p.atoms.get(f"Path({F}).is_symlink()") and p.atoms.get(f"Path({F}).resolve() In {cb}")
        recs = [t for t in appended(p, "covarray") if t.startswith("dict:")]
        key = f"{f.key}:entry-fields:skipped={int(bool(skipped))}"
        if skipped:
            ctx.check(not recs, key, "a skipped link still contributes a record", f.loc())
            continue
        n_entries += 1
        ok = len(recs) == 1
        why = f"{len(recs)} records for one file"
        if ok:
            rec = recs[0]
            flds = dict_fields(rec)
            if flds is None or "file" not in flds or "id" not in flds:
                raise AnalysisError(f"{f.key}: record layout not recognised: {rec[:160]}")
            rp = call_args(flds["file"], "os.path.relpath")
            if rp is None or not rp[0]:
                raise AnalysisError(f"{f.key}: 'file' is not an os.path.relpath(...) value: {flds['file'][:100]}")
            if rp[0][0] != F:
                ok, why = False, f"'file' is derived from `{rp[0][0][:60]}`, not from the file being processed"
            want_id = f"hashlib.file_digest(with(open({F}, 'rb')), 'sha512').hexdigest()"
            if ok and flds["id"] != want_id:
                ok, why = False, f"'id' is `{flds['id'][:100]}`; it must be the sha512 of the bytes of the same file: `{want_id}`"
            if ok and not ("'used_lines':" in rec and "'unused_lines':" in rec):
                ok, why = False, "the record lacks used_lines / unused_lines"
        ctx.check(ok, key, f"each file contributes one record {{file: path relative to the source dir, id: sha512 of that file, used_lines, unused_lines}}: {why}", f.loc())
    if not n_entries:
        raise AnalysisError(f"{f.key}: no path appends a record to covarray")
    # fresh lists per file: nothing but the result list is carried from one file to the next
    carried, cfg = loop_carried(f, loop)
    for name in sorted(carried):
        if name == "covarray":
            continue
        d, use = carried[name][0]
        ctx.violation(f"{f.key}:fresh-lists-per-file:{name}", f"`{name}` set at `{u(cfg.nodes[d].ast)[:60]}` for one file is still in effect at `{u(cfg.nodes[use].ast)[:60]}` for the next file: lines of one file leak into another's record", f.loc(cfg.nodes[use].ast))
    ctx.ok(f"{f.key}:fresh-lists-per-file")
    ctx.floor(4)


@rule("C06.R4", "summary: one row per platform set, total = sum of all rows, percentage = row / total * 100")
def r4(ctx):
    """table specification: on the path that prints one row, the row of platform set K (an element of the table's keys,
    none filtered out) is [sorted platforms of K, setmap[K], setmap[K] / sum(setmap.values()) * 100] and the total line
    shows the sum of the rows; how the function computes this (locals, loop form, float(), order of factors) is free"""
    from ..spec import _strip_parens, atoms, product_form, split_top, tab, vt

    repo = ctx.repo
    f = repo.func("report", "summary")
    sm = f.params[0]
    TOTAL = f"sum({sm}.values())"
    n_rows = 0
    for p in tab(f, unroll=1):
        its = [(m.group(1), v) for k, v in p.atoms.items() for m in [re.match(r"more\((.+)#L\d+,(\d+)\)$", vt(k))] if m]
        taken = [i for i, v in its if v]
        if len(taken) != 1:
            continue
        ITER = taken[0]
        # the rows are the table's keys, each once: the iterable is the key view (or the table / its items), at most sorted
        core = ITER
        m = re.match(r"sorted\((.+?)(, key=.*)?\)$", core)
        if m:
            core = m.group(1)
        ok_iter = core in (sm, f"{sm}.keys()", f"{sm}.items()", f"list({sm})", f"list({sm}.keys())")
        ctx.check(ok_iter, "report:summary:rows-iterate-all-keys", f"rows must iterate every key of the setmap once: iterates `{ITER[:80]}`", f.loc())
        if not ok_iter:
            continue
        items = core.endswith(".items()")
        K = f"{ITER}[0][0]" if items else f"{ITER}[0]"
        CNT = [f"{sm}[{K}]"] + ([f"{ITER}[0][1]"] if items else [])
        other = [k for k in atoms(p) if TOTAL not in k and "total" not in k.lower()]
        ctx.check(not other, "report:summary:rows-iterate-all-keys", f"a row is printed only if {other[:2]}: every platform set of the table must have a row", f.loc())
        zero = next((v for k, v in atoms(p).items() if k in (f"0 Eq {TOTAL}", f"{TOTAL} Eq 0", f"{TOTAL} Gt 0", f"0 Lt {TOTAL}", TOTAL)), None)
        if zero is not None and any(k in (f"{TOTAL} Gt 0", f"0 Lt {TOTAL}", TOTAL) for k in atoms(p)):
            zero = not zero
        outs = [vt(x) for e in p.effects if e[0] == "call" and e[1] in ("print", f"{f.params[1]}.write") for x in e[2:] if not isinstance(x, tuple)]
        text = "\n".join(outs)
        i = text.find("tabulate(")
        if i < 0:
            raise AnalysisError("summary: no tabulate(...) in what is printed")
        depth, j = 0, i + len("tabulate")
        for j in range(i + len("tabulate"), len(text)):
            depth += text[j] == "("
            depth -= text[j] == ")"
            if depth == 0:
                break
        args = split_top(text[i + len("tabulate(") : j])
        rows = split_top(_strip_parens(args[0])[1:-1]) if args and args[0].startswith("[") else None
        if not rows or len(rows) != 1 or not rows[0].startswith("["):
            raise AnalysisError(f"summary: rows of the table not recognised: {args[:1]}")
        cells = split_top(rows[0][1:-1])
        if len(cells) != 3:
            raise AnalysisError(f"summary: a row has {len(cells)} cells, expected [name, count, percent]")
        n_rows += 1
        name, count, pct = cells
        ctx.check(f"sorted({K})" in name and "', '.join(" in name, "report:summary:row-name-sorted", f"the platform set must be printed with its platforms sorted: `{name[:80]}`", f.loc())
        c = re.fullmatch(r"(?:str\((.+)\)|f'\{(.+)\}')", count)
        cval = (c.group(1) or c.group(2)) if c else count
        ctx.check(cval in CNT, "report:summary:row-count", f"row count must be the setmap entry of the row's platform set (`{CNT[0][-40:]}`): `{cval[:80]}`", f.loc())
        m = re.fullmatch(r"f'\{(.+)\}'", pct)
        pv = m.group(1) if m else pct
        if zero:
            ctx.check("nan" in pv, "report:summary:percent", f"with an empty table (total 0) the percentage must be NaN, not `{pv[:60]}`", f.loc())
        else:
            num, den = product_form(pv)
            if len(num) + len(den) < 2:
                raise AnalysisError(f"summary: percentage `{pv[:80]}` is not a product/quotient")
            want = [(sorted(["100.0", cn]), [TOTAL]) for cn in CNT]
            ctx.check((num, den) in want, "report:summary:percent", f"percentage must be row / total * 100 = `{CNT[0][-30:]} / {TOTAL} * 100`: numerator factors {[x[-40:] for x in num]}, denominator factors {[x[-40:] for x in den]}", f.loc())
            ctx.check(zero is False, "report:summary:total", f"the percentage divides by {TOTAL} on a path that does not establish that it is non-zero", f.loc())
        m = re.search(r"Total SLOC: \{(.+?)\}'", text)
        if not m:
            raise AnalysisError("summary: `Total SLOC:` line not found in what is printed")
        tot = _strip_parens(m.group(1))
        ctx.check(tot in [f"0 Add {cn}" for cn in CNT] + [TOTAL], "report:summary:total_count", f"Total SLOC must be the sum of every row's count: `{tot[:80]}`", f.loc())
    if not n_rows:
        raise AnalysisError("summary: no path prints a row: idiom not recognised")
    ctx.floor(6)


@rule("C06.R5", "tree view: each file's setmap is added once to every ancestor directory; prune drops exactly unused files; printing does not change figures")
def r5(ctx):
    repo = ctx.repo
    ft = repo.cls("report", "FileTree")
    ins = ft.find_method("insert")
    ctx.require(ins is not None, "FileTree.insert missing")
    fnp, smp = ins.params[1], ins.params[2]
    # the propagation statement and its guard
    # table specification of the walk (decision table for up to two ancestors + the file itself):
    #   a component is skipped iff it is the root or not below the root; every other component's PARENT receives, once,
    #   every (platform set, count) of the file's own setmap - unless the inserted file is a symlink - and only then
    #   does the walk descend; the first receiver is the root node
    from ..spec import atoms as _atoms, tab as _tab, vt as _vt

    FN = f"Path({fnp})"
    n_walk = 0
    for p in _tab(ins, unroll=2):
        at = _atoms(p, drop_more=False)
        its = sorted({(m.group(1), int(m.group(2))) for k, v in at.items() for m in [re.match(r"more\((.+)#L\d+,(\d+)\)$", k)] if m and v and "parents" in m.group(1)})
        iters = {i for i, _ in its}
        if len(iters) > 1:
            raise AnalysisError(f"FileTree.insert: ancestors come from several collections: {sorted(iters)}")
        ITER = next(iter(iters), None)
        if ITER is not None and ITER not in (f"list(reversed({FN}.parents))", f"reversed({FN}.parents)", f"{FN}.parents[::-1]", f"list({FN}.parents)[::-1]"):
            ctx.violation("report:FileTree.insert:ancestors", f"the walk must visit every ancestor directory from the top down to the file (`reversed({FN}.parents)` then the file): visits `{ITER[:80]}`", ins.loc())
            continue
        comps = [f"{ITER}[{i}]" for _, i in its] + [FN]
        ROOT = "self.root.path"
        active = []
        bad_skip = None
        for c in comps:
            eq = next((v for k, v in at.items() if k in (f"{c} Eq {ROOT}", f"{ROOT} Eq {c}")), None)
            rel = at.get(f"{c}.is_relative_to({ROOT})")
            others = [k for k in at if ROOT in k and not k.startswith("more(") and k not in (f"{c} Eq {ROOT}", f"{ROOT} Eq {c}", f"{c}.is_relative_to({ROOT})")
                      and (k.startswith(c + " ") or k.startswith(c + ".") or k.endswith(" " + c) or k.endswith(f"({c})"))]
            if others or (eq is None and rel is None):
                bad_skip = (c, others)
                break
            if eq is True or rel is False:
                continue
            if eq is None or rel is None:
                bad_skip = (c, ["only one of (is the root, is below the root) is examined"])
                break
            active.append(c)
        if bad_skip:
            ctx.violation("report:FileTree.insert:skip-above-root", f"a component is skipped exactly when it is the root or not below the root; for `{bad_skip[0][-50:]}` the walk examines {bad_skip[1][:2]}", ins.loc())
            continue
        n_walk += 1
        sym = at.get(f"{FN}.is_symlink()")
        if sym is None:
            sym = next((v for k, v in at.items() if k in (f"os.path.islink({fnp})", f"{FN}.resolve() NotEq {FN}")), None)
        groups = []
        for e in p.effects:
            if e[0] != "aug" or ".setmap[" not in _vt(e[1]):
                continue
            m = re.fullmatch(r"(.+)\.setmap\[(.+)\]", _vt(e[1]))
            if not m:
                continue
            if not groups or groups[-1][0] != m.group(1):
                groups.append((m.group(1), []))
            groups[-1][1].append((m.group(2), e[2], _vt(e[3])))
        if sym is True:
            ctx.check(not groups, "report:FileTree.insert:symlink-guard", "the counts of a symbolic link are added to its ancestors (the link's target is counted where it really is)", ins.loc())
            continue
        if not active:
            ctx.check(not groups, "report:FileTree.insert:skip-above-root", "counts are added although every component is above the root", ins.loc())
            continue
        sym_other = [k for k in at if ("is_symlink" in k or "islink" in k) and k not in (f"{FN}.is_symlink()", f"os.path.islink({fnp})")]
        if sym_other:
            ctx.violation("report:FileTree.insert:symlink-guard", f"`{sym_other[0][:80]}` must test whether the INSERTED FILE is a symlink (not the directory component being visited): a link below a sub-directory would be counted in some ancestors and not in others", ins.loc())
            continue
        if sym is None:
            ctx.check(not groups, "report:FileTree.insert:symlink-guard", "propagation is not guarded by a symlink test: a link and its target would both be added to every directory", ins.loc())
            continue
        firsts = [v for k, v in at.items() if re.match(r"more\(" + re.escape(smp) + r"[^#]*#L\d+,0\)$", k)]
        if not firsts or not all(firsts) or len(firsts) != len(active):
            continue  # an empty setmap - or the same setmap empty for one ancestor and not for the next: not a case
        ctx.check(len(groups) == len(active), "report:FileTree.insert:ancestors", f"{len(active)} component(s) below the root are visited but {len(groups)} node(s) receive the file's counts: every ancestor directory (and the root) must receive them exactly once", ins.loc())
        if groups:
            ctx.check(groups[0][0] == "self.root", "report:FileTree.insert:propagate-then-descend", f"the first receiver of the counts is `{groups[0][0][:60]}`, not the root node: the counts must be added to the parent BEFORE the walk descends (otherwise the root never receives anything and the file's own node is counted twice)", ins.loc())
        for base, items in groups:
            for K, op, V in items:
                mk = re.fullmatch(re.escape(smp) + r"\.items\(\)\[(\d+)\]\[0\]", K)
                okv = op == "Add" and mk is not None and V in (f"{smp}.items()[{mk.group(1)}][1]", f"{smp}[{K}]")
                ctx.check(okv, "report:FileTree.insert:propagation", f"`{base[-30:]}.setmap[{K[-40:]}] {op} {V[-50:]}`: each ancestor must ADD the file's own count for every platform set of the file's setmap", ins.loc())
    if n_walk < 6:
        raise AnalysisError(f"FileTree.insert: only {n_walk} walks understood")
    # files(): prune
    fl = repo.func("report", "files")
    loop, cbn = _outer_loop(repo, fl)
    # table specification (one code-base file F): F is inserted, once, with the setmap built for it - unless pruning is
    # on and no platform uses any of its lines; nothing else decides whether a file appears
    cbp_ = fl.params[0]
    F = f"{cbp_}[0]"
    n_files = 0
    for p in _tab(fl, unroll=1):
        at = _atoms(p, drop_more=False)
        if not at.get(f"more({cbp_}#L1,0)"):
            continue
        ins_ = [e for e in p.effects if e[0] == "call" and str(e[1]).endswith(".insert")]
        prune = at.get("prune")
        used = next((v for k, v in at.items() if re.fullmatch(r"set\(\)\.union\(\*.+\)", k)), None)
        if used is None:
            used = next((not v for k, v in at.items() if re.fullmatch(r"(0 Eq len\(set\(\)\.union\(\*.+\)\))|(len\(set\(\)\.union\(\*.+\)\) Eq 0)", k)), None)
        other = [k for k in at if F in k and not k.startswith("more(") and "isinstance(" not in k and ".walk()" not in k and not re.search(r"set\(\)\.union", k)]
        n_files += 1
        if other:
            ctx.violation("report:files:insert-every-file", f"whether a code-base file appears in the tree depends on `{other[0][:80]}`: every file of the code base is listed (pruning apart)", fl.loc())
            continue
        if prune and used is None:
            ctx.violation("report:files:prune", "with --prune, a file must be skipped exactly when the union of the platform sets using its lines is empty: the path does not examine it", fl.loc())
            continue
        want = not (prune and used is False)
        ctx.check(len(ins_) == (1 if want else 0), "report:files:prune" if prune else "report:files:insert-every-file", f"a file is inserted {len(ins_)} time(s) with prune={prune}, used by some platform={used}: it must be inserted once unless pruning is on and nothing uses it", fl.loc())
        for e in ins_:
            a0 = _vt(e[2]) if len(e) > 2 else None
            a1 = _vt(e[3]) if len(e) > 3 else ""
            ctx.check(a0 == F and a1.startswith("defaultdict(int)"), "report:files:insert-every-file", f"the file must be inserted under its own name with the setmap built for it in this iteration: insert({a0}, {a1[:50]})", fl.loc())
    if n_files < 8:
        raise AnalysisError(f"report.files: only {n_files} per-file rows understood")
    # nothing but the tree is carried from one file to the next (reaching definitions through the loop's back edge)
    from ..flow import loop_carried as _lc

    carried, cfg_ = _lc(fl, loop)
    for name in sorted(carried):
        d_, use_ = carried[name][0]
        if isinstance(cfg_.nodes[d_].ast, (ast.For,)) or name in ("tree",):
            continue
        ctx.violation(f"report:files:fresh-setmap-per-file:{name}", f"`{name}` set at `{u(cfg_.nodes[d_].ast)[:60]}` for one file is still in effect at `{u(cfg_.nodes[use_].ast)[:60]}` for the next file: counts of one file leak into the next one's row", fl.loc(cfg_.nodes[use_].ast))
    ctx.ok("report:files:fresh-setmap-per-file")
    # printing is pure: _print/_meta_str/write_to/_sloc_str do not write setmap
    for name in ("_print", "write_to"):
        g = ft.find_method(name)
        w = [n for n in g.body_nodes() if isinstance(n, (ast.Subscript, ast.Attribute)) and isinstance(n.ctx, ast.Store) and "setmap" in u(n)]
        ctx.check(not w, f"report:FileTree.{name}:pure", "printing must not modify any figure (limiting the depth only hides rows)", g.loc())
    node = repo.mod("report").classes.get("FileTree.Node")
    ctx.require(node is not None, "FileTree.Node missing")
    for g in node.methods.values():
        if g.name == "__init__":
            continue
        w = [n for n in g.body_nodes() if isinstance(n, (ast.Subscript, ast.Attribute)) and isinstance(n.ctx, ast.Store) and "setmap" in u(n)]
        ctx.check(not w, f"report:FileTree.Node.{g.name}:pure", "must not modify setmap", g.loc())
    # levels only cuts the recursion
    pr = ft.find_method("_print")
    first = [s for s in pr.node.body if isinstance(s, ast.If)][0]
    ctx.soft(u(first.test) == "levels and depth > levels" and u(first.body[0]) == "return []", "report:FileTree._print:levels", "-L must only stop the recursion below the given depth", pr.loc(first))
    # _sloc_str / root totals: sum of all values
    ss = node.methods.get("_sloc_str")
    ctx.soft(ss is not None and "sum(self.setmap.values())" in u(ss.node), "report:FileTree.Node._sloc_str:sum", "a row's SLOC must be the sum of its setmap", ss.loc() if ss else node.loc())
    ctx.floor(14)


@rule("C06.R6", "symlink guard siblings: every consumer of the code base skips links whose target is in the code base")
def r6(ctx):
    repo = ctx.repo
    from .. import review

    for short, q in (("finder", "ParserState.get_setmap"), ("coverage.__main__", "_compute")):
        f = repo.func(short, q)
        key = f"{f.key}:symlink-guard"
        paths = review.table(f)
        if not paths:
            raise AnalysisError(f"{f.key}: decision table not available")
        n_skip = n_keep = 0
        for p in paths:
            files = []
            for k, v in p.atoms.items():
                m = re.match(r"more\((.+)#L\d+,(\d+)\)$", k)
                if m and v and not m.group(1).endswith(".walk()"):
                    files.append((m.group(1), f"{m.group(1)}[{m.group(2)}]"))
            for cb, file in files:
                link = p.atoms.get(f"Path({file}).is_symlink()")
                inside = p.atoms.get(f"Path({file}).resolve() In {cb}")
                touched = [e for e in p.effects if e[0] in ("aug", "call", "store") and e[0] != "loop-bound" and _mentions(e, f"({file})")]
                walked = any(f".get_tree({file}).walk()#L" in k for k in p.atoms)
                k2 = f"{key}:link={_tv(link)},target-in-codebase={_tv(inside)}"
                if link is None:
                    ctx.violation(k2, "the per-file loop does not ask whether the file is a symbolic link before counting it: a link and its target are both counted / listed", f.loc())
                    continue
                if link and inside is None:
                    ctx.violation(k2, "a symbolic link is decided without asking whether its fully resolved target (`Path(file).resolve() in codebase`) is in the code base", f.loc())
                    continue
                if link and inside:
                    n_skip += 1
                    ctx.check(not walked and not touched, k2, f"a link whose target is in the code base must be skipped before anything is counted: {[e[1] for e in touched][:3]}", f.loc())
                else:
                    n_keep += 1
                    ctx.check(walked, k2, "only links whose resolved target is in the code base may be skipped: this file is not walked", f.loc())
        if not (n_skip and n_keep):
            raise AnalysisError(f"{f.key}: symlink guard idiom not recognised (skip={n_skip}, keep={n_keep})")
    fd = repo.func("report", "find_duplicates")
    loop, cbn = _outer_loop(repo, fd)
    guards = [s for s in loop.body if isinstance(s, ast.If) and "is_symlink" in u(s.test)]
    ok = len(guards) == 1 and u(guards[0].test).endswith(".is_symlink()") and isinstance(guards[0].body[0], ast.Continue)
    ctx.check(ok, f"{fd.key}:symlink-guard", "symbolic links must be skipped when looking for duplicates", fd.loc(loop))
    ctx.floor(3)
