"""C06 - every counted line lands in exactly one platform set; reports agree."""

from __future__ import annotations

import ast

from ..decision import NOTHING, Evaluator, Hooks, Sym, vtext
from ..flow import provenance, stmt_of
from ..model import AnalysisError, callee, dotted, u, walk_no_nested
from ..run import rule
from .c10 import AGGREGATORS, codebase_names


def _outer_loop(repo, f):
    cbn = codebase_names(repo, f)
    loops = [n for n in walk_no_nested(f.node) if isinstance(n, ast.For) and isinstance(n.iter, ast.Name) and n.iter.id in cbn]
    if len(loops) != 1:
        raise AnalysisError(f"{f.key}: loop over the code base not found")
    return loops[0], cbn


def _node_loops(loop):
    """Inner iteration over the CodeNodes of the file's tree: returns
    (iter-source text, node var, body statements) for loop or filter forms."""
    out = []
    for n in ast.walk(loop):
        if isinstance(n, ast.For) and n is not loop:
            it = n.iter
            src = None
            var = u(n.target)
            # [n for n in tree.walk() if isinstance(n, CodeNode)]
            if isinstance(it, ast.ListComp) and len(it.generators) == 1:
                g = it.generators[0]
                if len(g.ifs) == 1 and _is_codenode_test(g.ifs[0], u(g.target)) and u(it.elt) == u(g.target):
                    src = u(g.iter)
            # filter(lambda x: isinstance(x, CodeNode), tree.walk())
            if isinstance(it, ast.Call) and u(it.func) == "filter" and len(it.args) == 2 and isinstance(it.args[0], ast.Lambda):
                lam = it.args[0]
                if _is_codenode_test(lam.body, lam.args.args[0].arg):
                    src = u(it.args[1])
            # for node in tree.walk(): if isinstance(node, CodeNode): ...
            if src is None and isinstance(it, ast.Call) and u(it.func).endswith(".walk"):
                if len(n.body) == 1 and isinstance(n.body[0], ast.If) and _is_codenode_test(n.body[0].test, var) and not n.body[0].orelse:
                    out.append((u(it), var, n.body[0].body, n))
                    continue
            if src is not None:
                out.append((src, var, n.body, n))
    return out


def _is_codenode_test(t, var):
    return isinstance(t, ast.Call) and u(t.func) == "isinstance" and len(t.args) == 2 and u(t.args[0]) == var and u(t.args[1]) == "CodeNode"


@rule("C06.R1", "the three per-file aggregations walk the same tree, filter CodeNodes, key by the association set and weigh by the node's lines")
def r1(ctx):
    repo = ctx.repo
    for short, q in AGGREGATORS[:3]:
        f = repo.func(short, q)
        loop, cbn = _outer_loop(repo, f)
        fv = u(loop.target)
        key = f"{f.key}:per-file-aggregation"
        nl = _node_loops(loop)
        if len(nl) != 1:
            ctx.violation(key, f"expected one loop over `[n for n in <tree>.walk() if isinstance(n, CodeNode)]` per file, found {len(nl)}", f.loc(loop))
            continue
        src, var, body, node = nl[0]
        # tree and association both looked up for the loop's file
        env = {}
        for s in ast.walk(loop):
            if isinstance(s, ast.Assign) and isinstance(s.targets[0], ast.Name):
                env[s.targets[0].id] = s.value
        tree_src = src[: -len(".walk()")] if src.endswith(".walk()") else src
        tree_expr = u(env[tree_src]) if tree_src in env else tree_src
        state_names = ("self", "state")
        ok_tree = any(tree_expr == f"{s}.get_tree({fv})" for s in state_names)
        assoc_names = [k for k, v in env.items() if any(u(v) == f"{s}.get_map({fv})" for s in state_names)]
        ctx.check(ok_tree and len(assoc_names) == 1, key + ":same-file", f"tree is {tree_expr}; the tree and the association map must both be looked up for the file being counted ({fv})", f.loc(node))
        if not assoc_names:
            continue
        am = assoc_names[0]
        btxt = u(body)
        if q == "_compute":
            continue  # partition checked in R2
        # setmap[frozenset(association[node])] += node.num_lines
        ok = False
        why = btxt
        envb = {}
        for s in body:
            if isinstance(s, ast.Assign) and isinstance(s.targets[0], ast.Name):
                envb[s.targets[0].id] = s.value
        augs = [s for s in body if isinstance(s, ast.AugAssign)]
        if len(augs) == 1 and isinstance(augs[0].op, ast.Add) and isinstance(augs[0].target, ast.Subscript):
            k = augs[0].target.slice
            k = envb.get(k.id, k) if isinstance(k, ast.Name) else k
            ok = u(k) == f"frozenset({am}[{var}])" and u(augs[0].value) == f"{var}.num_lines" and u(augs[0].target.value) == "setmap"
        ctx.check(ok, key + ":key-and-weight", f"each CodeNode must add node.num_lines to setmap[frozenset(association[node])] exactly once: `{why[:120]}`", f.loc(node))
    ctx.floor(5)


@rule("C06.R2", "coverage export: every node's lines go to exactly one of used / unused; id is the hash of the listed file")
def r2(ctx):
    repo = ctx.repo
    f = repo.func("coverage.__main__", "_compute")
    loop, cbn = _outer_loop(repo, f)
    fv = u(loop.target)
    nl = _node_loops(loop)
    ctx.require(len(nl) == 1, "_compute: node loop not found")
    src, var, body, node = nl[0]

    class H(Hooks):
        pass

    wrapper = ast.parse("def _f():\n    pass").body[0]
    wrapper.body = body
    paths = Evaluator(H()).paths(wrapper)
    for p in paths:
        key = f"{f.key}:partition:" + ",".join(f"{k[:50]}={int(v)}" for k, v in p.atoms.items())
        ext = [e for e in p.effects if e[0] == "call" and e[1].endswith(".extend")]
        ok = len(ext) == 1 and vtext(ext[0][2]) == f"{var}.lines" and len(p.atoms) == 1
        if ok:
            k, v = next(iter(p.atoms.items()))
            empty = None
            if " Eq " in k and ("frozenset([])" in k or "frozenset()" in k or "set()" in k) and f"[{var}]" in k:
                empty = v
            elif k.endswith(f"[{var}]") or k.startswith("len("):
                empty = not v
            ok = empty is not None and ext[0][1] == ("unused_lines.extend" if empty else "used_lines.extend")
        ctx.check(ok, key, f"a node's lines must be appended to unused_lines iff no platform uses it, else to used_lines: {p.describe()[:200]}", f.loc(node))
    # entry: file path and digest refer to the same file
    opens = [w for w in ast.walk(loop) if isinstance(w, ast.With) and any(isinstance(i.context_expr, ast.Call) and u(i.context_expr.func) == "open" for i in w.items)]
    ok = len(opens) == 1
    if ok:
        oc = opens[0].items[0].context_expr
        ok = u(oc.args[0]) == fv and len(oc.args) > 1 and u(oc.args[1]) == "'rb'" and "hashlib.file_digest" in u(opens[0].body) and "'sha512'" in u(opens[0].body)
    ctx.check(ok, f"{f.key}:id-is-sha512-of-file", "the entry's id must be the sha512 of the bytes of the file it names (opened 'rb')", f.loc(loop))
    app = [c for c in ast.walk(loop) if isinstance(c, ast.Call) and u(c.func) == "covarray.append"]
    ok = len(app) == 1 and isinstance(app[0].args[0], ast.Dict)
    if ok:
        d = {k.value: u(v) for k, v in zip(app[0].args[0].keys, app[0].args[0].values)}
        ok = d.get("used_lines") == "used_lines" and d.get("unused_lines") == "unused_lines" and d.get("id") == "digest.hexdigest()" and d.get("file") == "relative_path"
        rel = [s for s in ast.walk(loop) if isinstance(s, ast.Assign) and u(s.targets[0]) == "relative_path"]
        ok = ok and len(rel) == 1 and u(rel[0].value) == f"os.path.relpath({fv}, start=source_dir)"
    ctx.check(ok, f"{f.key}:entry-fields", "each file contributes one entry {file: path relative to the source dir, id, used_lines, unused_lines}", f.loc(loop))
    # fresh lists per file
    fresh = [s for s in loop.body if isinstance(s, ast.Assign) and u(s.targets[0]) in ("used_lines", "unused_lines") and isinstance(s.value, ast.List) and not s.value.elts]
    ctx.check(len(fresh) == 2, f"{f.key}:fresh-lists-per-file", "used_lines / unused_lines must be re-created for every file", f.loc(loop))
    ctx.floor(4)


@rule("C06.R4", "summary: one row per platform set, total = sum of all rows, percentage = row / total * 100")
def r4(ctx):
    repo = ctx.repo
    f = repo.func("report", "summary")
    sm = f.params[0]
    loops = [n for n in walk_no_nested(f.node) if isinstance(n, ast.For) and sm in u(n.iter)]
    ctx.require(len(loops) == 1, "summary: row loop not found")
    lp = loops[0]
    it = lp.iter
    ok = isinstance(it, ast.Call) and u(it.func) == "sorted" and u(it.args[0]) in (f"{sm}.keys()", sm)
    ctx.check(ok, "report:summary:rows-iterate-all-keys", f"rows must iterate every key of the setmap once: {u(it)}", f.loc(lp))
    v = u(lp.target)
    body = u(lp.body)
    tot = [s for s in walk_no_nested(f.node) if isinstance(s, ast.Assign) and u(s.targets[0]) == "total"]
    ctx.check(len(tot) == 1 and u(tot[0].value) == f"sum({sm}.values())", "report:summary:total", "total must be the sum of all setmap values", f.loc())
    ctx.check(f"total_count += {sm}[{v}]" in body, "report:summary:total_count", "Total SLOC must accumulate every row's count", f.loc(lp))
    ctx.check(f"count = {sm}[{v}]" in body and "str(count)" in body, "report:summary:row-count", "row count must be the setmap entry of the row's platform set", f.loc(lp))
    ctx.check(f"float({sm}[{v}]) / float(total) * 100" in body, "report:summary:percent", "percentage must be row / total * 100", f.loc(lp))
    ctx.check("', '.join(sorted(" + v + "))" in body, "report:summary:row-name-sorted", "the platform set must be printed with its platforms sorted", f.loc(lp))
    ctx.floor(6)


@rule("C06.R5", "tree view: each file's setmap is added once to every ancestor directory; prune drops exactly unused files; printing does not change figures")
def r5(ctx):
    repo = ctx.repo
    ft = repo.cls("report", "FileTree")
    ins = ft.find_method("insert")
    ctx.require(ins is not None, "FileTree.insert missing")
    fnp, smp = ins.params[1], ins.params[2]
    # the propagation statement and its guard
    augs = [n for n in walk_no_nested(ins.node) if isinstance(n, ast.AugAssign) and "setmap" in u(n.target)]
    ctx.require(len(augs) == 1, "FileTree.insert: propagation `parent.setmap[ps] += setmap[ps]` not found")
    aug = augs[0]
    ok = u(aug.target) == "parent.setmap[ps]" and u(aug.value) == f"{smp}[ps]" and isinstance(aug.op, ast.Add)
    ctx.check(ok, "report:FileTree.insert:propagation", f"`{u(aug)}` must add the file's own setmap entry to the ancestor's", ins.loc(aug))
    # enclosing loops / guards
    enc_for = [n for n in walk_no_nested(ins.node) if isinstance(n, ast.For) and any(x is aug for x in ast.walk(n))]
    ps_loop = [n for n in enc_for if u(n.target) == "ps"]
    ok = len(ps_loop) == 1 and u(ps_loop[0].iter) in (f"{smp}.keys()", smp)
    ctx.check(ok, "report:FileTree.insert:all-platform-sets", "every platform set of the file must be propagated", ins.loc(aug))
    guards = [n for n in walk_no_nested(ins.node) if isinstance(n, ast.If) and any(x is aug for x in ast.walk(n))]
    sym = [g for g in guards if "is_symlink" in u(g.test)]
    key = "report:FileTree.insert:symlink-guard"
    if len(sym) != 1:
        ctx.violation(key, "propagation is not guarded by a symlink test: a link and its target would both be added to every directory", ins.loc(aug))
    else:
        t = sym[0].test
        ok = isinstance(t, ast.UnaryOp) and isinstance(t.op, ast.Not) and isinstance(t.operand, ast.Call) and isinstance(t.operand.func, ast.Attribute)
        if ok:
            recv = t.operand.func.value
            leaves = provenance(ins, recv, sym[0])
            txt = {u(l) for l, c in leaves}
            chains = [c for _, c in leaves]
            ok = txt == {fnp} and all("<iter>" not in c for c in chains)
        ctx.check(ok, key, f"`{u(t)}` must test whether the INSERTED FILE is a symlink (not the directory component being visited): a link below a sub-directory would be counted in some ancestors and not in others", ins.loc(sym[0]))
    # the walk covers every ancestor below the root and the file itself, in order
    comp = [n for n in enc_for if n not in ps_loop]
    ok = len(comp) == 1 and u(comp[0].iter) == "list(reversed(filepath.parents)) + [filepath]"
    ctx.check(ok, "report:FileTree.insert:ancestors", "must walk every ancestor from the root down to the file", ins.loc())
    if ok:
        first = comp[0].body[0]
        ok2 = isinstance(first, ast.If) and u(first.test) == "path == rootpath or not path.is_relative_to(rootpath)" and isinstance(first.body[0], ast.Continue)
        ctx.check(ok2, "report:FileTree.insert:skip-above-root", "only components above (or equal to) the root may be skipped", ins.loc(first))
        # propagation happens before descending (parent is the ancestor of `path`)
        idx_aug = next(i for i, s in enumerate(comp[0].body) if any(x is aug for x in ast.walk(s)))
        idx_desc = next((i for i, s in enumerate(comp[0].body) if isinstance(s, ast.Assign) and u(s) == "parent = node"), None)
        ctx.check(idx_desc is not None and idx_aug < idx_desc, "report:FileTree.insert:propagate-then-descend", "the ancestor must receive the counts before the walk descends", ins.loc())
    # files(): prune
    fl = repo.func("report", "files")
    loop, cbn = _outer_loop(repo, fl)
    pr = [n for n in ast.walk(loop) if isinstance(n, ast.If) and u(n.test) == "prune"]
    ok = len(pr) == 1
    if ok:
        b = u(pr[0].body)
        ok = "platforms = set().union(*setmap.keys())" in b and "if len(platforms) == 0:\n    continue" in b
    ctx.check(ok, "report:files:prune", "--prune must skip exactly the files whose platform union is empty", fl.loc(loop))
    insc = [c for c in ast.walk(loop) if isinstance(c, ast.Call) and u(c.func) == "tree.insert"]
    ctx.check(len(insc) == 1 and [u(a) for a in insc[0].args] == [u(loop.target), "setmap"], "report:files:insert-every-file", "every (non-pruned) code-base file must be inserted with its own setmap", fl.loc(loop))
    fresh = [s for s in loop.body if isinstance(s, ast.Assign) and u(s.targets[0]) == "setmap" and u(s.value) == "defaultdict(int)"]
    ctx.check(len(fresh) == 1, "report:files:fresh-setmap-per-file", "setmap must be re-created for every file", fl.loc(loop))
    # printing is pure: _print/_meta_str/write_to/_sloc_str do not write setmap
    for name in ("_print", "write_to"):
        g = ft.find_method(name)
        w = [n for n in g.body_nodes() if isinstance(n, (ast.Subscript, ast.Attribute)) and isinstance(n.ctx, ast.Store) and "setmap" in u(n)]
        ctx.check(not w, f"report:FileTree.{name}:pure", "printing must not modify any figure (limiting the depth only hides rows)", g.loc())
    node = repo.mod("report").classes.get("FileTree.Node")
    ctx.require(node is not None, "FileTree.Node missing")
    for g in node.methods.values():
        if g.name == "__init__":
            continue
        w = [n for n in g.body_nodes() if isinstance(n, (ast.Subscript, ast.Attribute)) and isinstance(n.ctx, ast.Store) and "setmap" in u(n)]
        ctx.check(not w, f"report:FileTree.Node.{g.name}:pure", "must not modify setmap", g.loc())
    # levels only cuts the recursion
    pr = ft.find_method("_print")
    first = [s for s in pr.node.body if isinstance(s, ast.If)][0]
    ctx.check(u(first.test) == "levels and depth > levels" and u(first.body[0]) == "return []", "report:FileTree._print:levels", "-L must only stop the recursion below the given depth", pr.loc(first))
    # _sloc_str / root totals: sum of all values
    ss = node.methods.get("_sloc_str")
    ctx.check(ss is not None and "sum(self.setmap.values())" in u(ss.node), "report:FileTree.Node._sloc_str:sum", "a row's SLOC must be the sum of its setmap", ss.loc() if ss else node.loc())
    ctx.floor(14)


@rule("C06.R6", "symlink guard siblings: every consumer of the code base skips links whose target is in the code base")
def r6(ctx):
    repo = ctx.repo
    for short, q in (("finder", "ParserState.get_setmap"), ("coverage.__main__", "_compute")):
        f = repo.func(short, q)
        loop, cbn = _outer_loop(repo, f)
        fv = u(loop.target)
        key = f"{f.key}:symlink-guard"
        cb = sorted(cbn)[0]
        guards = [s for s in loop.body if isinstance(s, ast.If) and "is_symlink" in u(s.test)]
        if len(guards) != 1:
            ctx.violation(key, "no guard `if path.is_symlink() and path.resolve() in codebase: continue` at the top of the per-file loop: a symlink and its target are both counted / listed", f.loc(loop))
            continue
        g = guards[0]
        t = g.test
        ok = isinstance(t, ast.BoolOp) and isinstance(t.op, ast.And) and len(t.values) == 2 and isinstance(g.body[0], ast.Continue) and not g.orelse
        if ok:
            a, b = t.values
            env = {u(s.targets[0]): u(s.value) for s in loop.body if isinstance(s, ast.Assign)}
            ok = (
                isinstance(a, ast.Call) and isinstance(a.func, ast.Attribute) and a.func.attr == "is_symlink"
                and env.get(u(a.func.value)) == f"Path({fv})"
                and isinstance(b, ast.Compare) and isinstance(b.ops[0], ast.In) and u(b.comparators[0]) in cbn
                and u(b.left) == f"{u(a.func.value)}.resolve()"
            )
        # guard must come before anything is counted
        idx = loop.body.index(g)
        counted_before = any(isinstance(x, (ast.AugAssign,)) or (isinstance(x, ast.Call) and u(x.func).endswith(".append")) for s in loop.body[:idx] for x in ast.walk(s))
        ctx.check(ok and not counted_before, key, f"`{u(t)}` must be `Path(<file>).is_symlink() and Path(<file>).resolve() in <code base>` (the fully resolved target), skipping the file before anything is counted", f.loc(g))
    fd = repo.func("report", "find_duplicates")
    loop, cbn = _outer_loop(repo, fd)
    guards = [s for s in loop.body if isinstance(s, ast.If) and "is_symlink" in u(s.test)]
    ok = len(guards) == 1 and u(guards[0].test).endswith(".is_symlink()") and isinstance(guards[0].body[0], ast.Continue)
    ctx.check(ok, f"{fd.key}:symlink-guard", "symbolic links must be skipped when looking for duplicates", fd.loc(loop))
    ctx.floor(3)
