"""Rule modules, one per property.  load_all() imports every module present so
that their @rule decorators register."""
import importlib
import os
import pkgutil

_loaded = False


def load_all():
    global _loaded
    if _loaded:
        return
    here = os.path.dirname(__file__)
    for m in sorted(pkgutil.iter_modules([here]), key=lambda m: m.name):
        importlib.import_module(f"{__name__}.{m.name}")
    _loaded = True
