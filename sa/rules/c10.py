"""C10 - excluding files removes their lines from the counts and nothing else."""

from __future__ import annotations

import ast

from ..callgraph import CallGraph
from ..flow import provenance, stmt_of
from ..model import AnalysisError, callee, dotted, u, walk_no_nested
from ..run import rule

AGGREGATORS = [
    ("finder", "ParserState.get_setmap"),
    ("report", "files"),
    ("coverage.__main__", "_compute"),
    ("report", "find_duplicates"),
]


def codebase_names(repo, f):
    """Names in f that hold a CodeBase: annotated parameters, parameters that
    receive a CodeBase at every resolved call site, locals bound to CodeBase(...)."""
    names = set()
    a = f.node.args
    for p in a.posonlyargs + a.args + a.kwonlyargs:
        if p.annotation is not None and "CodeBase" in u(p.annotation):
            names.add(p.arg)
    for n in walk_no_nested(f.node):
        if isinstance(n, ast.Assign) and isinstance(n.value, ast.Call) and (dotted(n.value.func) or "").split(".")[-1] == "CodeBase":
            for t in n.targets:
                if isinstance(t, ast.Name):
                    names.add(t.id)
    return names


def _find_codebase_param(repo):
    """finder.find's parameter that receives the CodeBase at its call sites."""
    find = repo.func("finder", "find")
    cg = CallGraph(repo)
    idx = set()
    for caller, call in cg.callers_of(find.key):
        cbn = codebase_names(repo, caller)
        for i, a in enumerate(call.args):
            if isinstance(a, ast.Name) and a.id in cbn:
                idx.add(find.params[i])
        for k in call.keywords:
            if isinstance(k.value, ast.Name) and k.value.id in cbn:
                idx.add(k.arg)
    if len(idx) != 1:
        raise AnalysisError(f"finder.find: cannot identify the parameter receiving the CodeBase ({idx})")
    return find, next(iter(idx))


@rule("C10.R1", "code-base membership never gates preprocessing: in finder.find the code base only seeds the list of files to parse")
def r1(ctx):
    repo = ctx.repo
    cg = CallGraph(repo)
    find, cbp = _find_codebase_param(repo)
    ctx.note(f"{find.key}: code-base parameter `{cbp}`")
    # uses of the code base inside find
    uses = [n for n in walk_no_nested(find.node) if isinstance(n, ast.Name) and n.id == cbp and isinstance(n.ctx, ast.Load)]

    def seeds_only(fn, param, n, depth=0):
        """the use `n` of the code base in `fn` only seeds the parse list (possibly inside a helper it is handed to)"""
        st = stmt_of(fn, n)
        if isinstance(st, ast.Assign) and u(st.value) in (f"set({param})", f"list({param})", f"sorted({param})"):
            return True
        # handed on, as it is, to a helper of the same module: the helper's use of it is judged the same way
        for c in ast.walk(st):
            if isinstance(c, ast.Call) and isinstance(c.func, ast.Name) and any(a is n for a in c.args) and depth < 2:
                h = fn.module.functions.get(c.func.id)
                if h is None:
                    return False
                hp = h.params[[a is n for a in c.args].index(True)] if len(h.params) >= len(c.args) else None
                hu = [x for x in walk_no_nested(h.node) if isinstance(x, ast.Name) and x.id == hp and isinstance(x.ctx, ast.Load)]
                return hp is not None and bool(hu) and all(seeds_only(h, hp, x, depth + 1) for x in hu)
        return False

    for n in uses:
        st = stmt_of(find, n)
        ok = seeds_only(find, cbp, n)
        ctx.check(ok, f"finder:find:codebase-use:{u(st)[:60]}", f"`{u(st)[:80]}`: in find() the code base may only seed the set of files to parse; testing membership or iterating it elsewhere makes exclusion change what is preprocessed", find.loc(st))
    ctx.check(len(uses) >= 1, "finder:find:codebase-seeds-parse-list", "code base is not used to seed the parse list", find.loc())
    # functions reachable from find: no membership test against a CodeBase, no use of the root directory in a condition
    reach = cg.reachable([find.key])
    for k in sorted(reach):
        f = cg.funcs[k]
        if f is find:
            continue
        cbn = codebase_names(repo, f)
        for n in f.body_nodes():
            if isinstance(n, ast.Compare) and any(isinstance(o, (ast.In, ast.NotIn)) for o in n.ops):
                for c in n.comparators:
                    if isinstance(c, ast.Name) and c.id in cbn:
                        ctx.violation(f"{k}:membership-test:{u(n)[:50]}", f"`{u(n)}` on the preprocessing path: files outside the code base must still be parsed and associated", f.loc(n))
            if isinstance(n, ast.Call) and isinstance(n.func, ast.Attribute) and n.func.attr == "__contains__" and isinstance(n.func.value, ast.Name) and n.func.value.id in cbn:
                ctx.violation(f"{k}:membership-test:{u(n)[:50]}", "explicit __contains__ on the preprocessing path", f.loc(n))
    ctx.ok("reachable-from-find:no-membership-test", f"{len(reach)} functions")
    # the root directory handed to Platform is never consulted in a decision
    plat = repo.cls("platform", "Platform")
    init = plat.find_method("__init__")
    rootattr = [u(s.targets[0]) for s in init.node.body if isinstance(s, ast.Assign) and isinstance(s.value, ast.Name) and s.value.id == init.params[2]] if len(init.params) > 2 else []
    for f in repo.all_functions():
        if f.key not in reach:
            continue
        for n in f.body_nodes():
            if isinstance(n, ast.Attribute) and isinstance(n.ctx, ast.Load) and n.attr == "_root_dir":
                ctx.violation(f"{f.key}:reads:_root_dir:{u(stmt_of(f, n))[:50]}", f"`{u(stmt_of(f, n))[:80]}` consults the root directory on the preprocessing path: whether a file is inside the code base must not influence whether it is preprocessed", f.loc(n))
    ctx.ok("reachable-from-find:root-dir-not-consulted")
    # positive control: the membership matcher must see the `in codebase` of get_setmap
    gs = repo.func("finder", "ParserState.get_setmap")
    cbn = codebase_names(repo, gs)
    pos = [n for n in gs.body_nodes() if isinstance(n, ast.Compare) and any(isinstance(c, ast.Name) and c.id in cbn for c in n.comparators)]
    ctx.require(len(pos) >= 1, "positive control lost: `... in codebase` in get_setmap not matched")
    # the processing gate of an #include is exactly (found and not once-skipped): C04.R3 / C04.R5
    from .c04 import r3 as c04r3, r5 as c04r5

    c04r3(ctx)
    c04r5(ctx)
    ctx.floor(5)


@rule("C10.R2", "every report counts by iterating the code base (never the set of parsed files)")
def r2(ctx):
    repo = ctx.repo
    for short, q in AGGREGATORS:
        f = repo.func(short, q)
        cbn = codebase_names(repo, f)
        key = f"{f.key}:outer-loop-over-codebase"
        loops = [n for n in walk_no_nested(f.node) if isinstance(n, ast.For) and isinstance(n.iter, ast.Name) and n.iter.id in cbn]
        ctx.check(len(loops) == 1, key, f"expected exactly one `for ... in <CodeBase>` loop (code-base names {sorted(cbn)}), found {len(loops)}", f.loc())
        # no loop over parsed files
        for n in walk_no_nested(f.node):
            if isinstance(n, ast.For) and ("get_filenames" in u(n.iter) or ".trees" in u(n.iter) or ".maps" in u(n.iter)):
                ctx.violation(f"{f.key}:iterates-parsed-files", f"`for {u(n.target)} in {u(n.iter)}` counts every parsed file, including excluded ones", f.loc(n))
    ctx.floor(4)


@rule("C10.R3", "-x patterns and the analysis file's [codebase].exclude are concatenated into the one exclude list")
def r3(ctx):
    repo = ctx.repo
    # the front ends do `excludes += analysis["codebase"]["exclude"]`: the schema must admit exactly lists of strings
    # there (a bare string would be spliced in character by character: exclude = "*.h" becomes the patterns * . h)
    try:
        import jsonschema

        sch = repo.json("schema/analysis.schema")
        sub = sch.get("properties", {}).get("codebase")
        if sub is None:
            raise AnalysisError("analysis.schema: properties.codebase not found")
        full = dict(sub)
        for k_ in ("$defs", "definitions"):
            if k_ in sch:
                full[k_] = sch[k_]
        for inst, want, what in (
            ({"exclude": ["*.h", "!keep.h"]}, True, "a list of patterns"),
            ({"exclude": []}, True, "an empty list"),
            ({"exclude": "*.h"}, False, "a bare string"),
            ({"exclude": [1]}, False, "a list holding a number"),
            ({"exclude": [["a"]]}, False, "a nested list"),
            ({"exclude": {"a": "b"}}, False, "a table"),
        ):
            try:
                jsonschema.validate(instance=inst, schema=full)
                got = True
            except jsonschema.exceptions.ValidationError:
                got = False
            ctx.check(got is want, f"schema/analysis.schema:codebase.exclude:{what}", f"[codebase] exclude given as {what} is {'accepted' if got else 'rejected'} by the schema; the front ends concatenate it to the -x list with `+=`, which is right for lists of strings only", "codebasin/schema/analysis.schema")
    except ImportError as e:  # pragma: no cover
        raise AnalysisError(f"jsonschema unavailable: {e}")
    for short, q in (("__main__", "_main"), ("tree", "_tree")):
        f = repo.func(short, q)
        ctor = [c for c in f.calls() if (dotted(c.func) or "").split(".")[-1] == "CodeBase"]
        key = f"{f.key}:exclude-list"
        if len(ctor) != 1:
            ctx.violation(key, "CodeBase construction not found", f.loc())
            continue
        ex = next((k.value for k in ctor[0].keywords if k.arg == "exclude_patterns"), None)
        if ex is None:
            ctx.violation(key, "CodeBase is built without exclude_patterns", f.loc(ctor[0]))
            continue
        leaves = provenance(f, ex, stmt_of(f, ctor[0]))
        texts = {u(l)[:80] for l, _ in leaves}
        chains = [c for _, c in leaves]
        has_toml = any("analysis_toml['codebase']['exclude']" in t for t in texts)
        has_cli = any(t in ("args.excludes",) for t in texts) or any("args.excludes" in t for t in texts)
        # the toml list must be ADDED to (not replace) the CLI list: an augmented assignment / extend on args.excludes
        combined = False
        for n in walk_no_nested(f.node):
            if isinstance(n, ast.AugAssign) and u(n.target) == u(ex) and isinstance(n.op, ast.Add) and "['exclude']" in u(n.value):
                combined = True
            if isinstance(n, ast.Call) and u(n.func) == f"{u(ex)}.extend" and "['exclude']" in u(n.args[0]):
                combined = True
            if isinstance(n, ast.Assign) and u(n.targets[0]) == u(ex):
                if not (isinstance(n.value, ast.BinOp) and isinstance(n.value.op, ast.Add) and u(ex) in u(n.value) and "['exclude']" in u(n.value)):
                    combined = False
                    ctx.violation(key + ":rebound", f"`{u(n)[:90]}` replaces the -x patterns instead of adding the analysis file's patterns to them", f.loc(n))
                else:
                    combined = True
        ctx.check(combined and u(ex) == "args.excludes", key, f"exclude_patterns={u(ex)} must be the -x list extended by [codebase].exclude (both sources, concatenated): provenance {sorted(texts)[:6]}", f.loc(ctor[0]))
        # -x is an append option
        adds = [c for c in repo.func(short, "_main" if short == "__main__" else "_build_parser").calls() if isinstance(c.func, ast.Attribute) and c.func.attr == "add_argument" and any(isinstance(a, ast.Constant) and a.value == "-x" for a in c.args)]
        ok = len(adds) == 1 and {k.arg: u(k.value) for k in adds[0].keywords}.get("dest") == "'excludes'" and {k.arg: u(k.value) for k in adds[0].keywords}.get("action") == "'append'"
        ctx.soft(ok, f"{short}:-x:append-to-excludes", "-x/--exclude must append to `excludes`", f.loc())
        if adds:
            extra = sorted(k.arg for k in adds[0].keywords if k.arg not in ("dest", "action", "default", "metavar", "help"))
            ctx.check(not extra, f"{short}:-x:verbatim", f"-x/--exclude is registered with {extra}: a pattern must reach the CodeBase exactly as typed (gitignore syntax: trailing '/', '//' and './' are significant), like the patterns of the analysis file", f.loc(adds[0]))
    # cbi-cov: -x only
    f = repo.func("coverage.__main__", "_compute")
    ctor = [c for c in f.calls() if (dotted(c.func) or "").split(".")[-1] == "CodeBase"]
    ok = len(ctor) == 1 and u(next((k.value for k in ctor[0].keywords if k.arg == "exclude_patterns"), ast.Constant(value=None))) == "args.excludes"
    ctx.check(ok, f"{f.key}:exclude-list", "cbi-cov must pass its -x patterns to the CodeBase", f.loc())
    bp = repo.func("coverage.__main__", "_build_parser")
    adds = [c for c in bp.calls() if isinstance(c.func, ast.Attribute) and c.func.attr == "add_argument" and any(isinstance(a, ast.Constant) and a.value == "-x" for a in c.args)]
    if adds:
        extra = sorted(k.arg for k in adds[0].keywords if k.arg not in ("dest", "action", "default", "metavar", "help"))
        ctx.check(not extra, "coverage.__main__:-x:verbatim", f"-x/--exclude is registered with {extra}", bp.loc(adds[0]))
    # one registration per front end: an option registered on a parser AND on its sub-parser shares one destination, and
    # argparse lets the sub-parser's default overwrite what the parent collected (the patterns are silently dropped)
    for short in ("__main__", "tree", "coverage.__main__"):
        m = repo.mod(short)
        regs = [c for fn in m.functions.values() for c in fn.calls() if isinstance(c.func, ast.Attribute) and c.func.attr == "add_argument" and any(isinstance(a, ast.Constant) and a.value in ("-x", "--exclude") for a in c.args)]
        regs = list({id(c): c for c in regs}.values())  # a call inside an extracted helper is seen from the helper and from its caller
        ctx.check(len(regs) == 1, f"{short}:-x:registered-once", f"-x/--exclude is registered {len(regs)} times in {short}: on nested parsers the inner default replaces the patterns collected by the outer one", f"codebasin/{short.replace('.', '/')}.py")
    ctx.floor(5)
