"""C12 - compiler emulation: aliases, implicit options, modes and passes, TOML data."""

from __future__ import annotations

import ast
import re

from ..model import AnalysisError, callee, const, dotted, u, walk_no_nested
from ..run import rule

COMPILER_FILES = ["clang", "gnu", "intel", "nvidia"]


@rule("C12.R1", "alias chain walk: lookup by basename; every visited name is remembered; loops and unknown targets are reported and end the walk")
def r1(ctx):
    repo = ctx.repo
    init = repo.cls("config", "ArgumentParser").find_method("__init__")
    ctx.require(init is not None, "ArgumentParser.__init__ missing")
    pth = init.params[1]
    # Stated over the decision table of the constructor (two steps of the walk unrolled):
    #   name = basename(argv0); unknown name -> warning, empty behaviour
    #   while the current name has an alias A:  A already visited (ANY earlier name) -> error, stop;
    #                                          A unknown -> error, stop;  otherwise continue with A
    #   the compiler used is the table entry of the last name
    from ..spec import tab, vt

    A0 = f"os.path.basename({pth})"
    n_res = n_loop = n_dang = 0
    for p in tab(init, unroll=2):
        at = {vt(k): v for k, v in p.atoms.items()}
        stores = [(vt(e[1]), vt(e[2])) for e in p.effects if e[0] == "store"]
        name_st = [v for t, v in stores if t == "self.name"]
        ctx.check(name_st == [A0], "config:ArgumentParser.__init__:basename", f"the compiler must be identified by the base name of argv[0]: self.name = {name_st}", init.loc())
        if name_st != [A0]:
            continue
        comp = [v for t, v in stores if t == "self.compiler"]
        errs = [e for e in p.effects if e[0] == "call" and e[1] in ("log.error", "log.warning")]
        known0 = at.get(f"{A0} In _compilers")
        if known0 is None:
            raise AnalysisError(f"ArgumentParser.__init__: lookup of the name in the compiler table not recognised: {p.describe()[:160]}")
        if not known0:
            ok = len(errs) == 1 and p.result[0] == "return" and (not comp or comp[-1] == "_Compiler()")
            ctx.check(ok, "config:ArgumentParser.__init__:unknown-compiler-warned", "an unknown compiler must be reported with a warning and get the empty default behaviour", init.loc())
            continue
        visited = [A0]
        cur = A0
        while True:
            nxt = f"_compilers[{cur}].alias_of"
            has = at.get(nxt)
            if has is None:
                break  # unrolling bound reached
            if not has:
                n_res += 1
                ok = bool(comp) and comp[-1] == f"_compilers[{cur}]" and not errs
                ctx.check(ok, "config:ArgumentParser.__init__:resolves-to-chain-end", f"the compiler used must be the table entry at the end of the alias chain (`_compilers[{cur}]`), got {comp[-1:] }", init.loc())
                break
            seen = next((v for k, v in at.items() if k.startswith(f"{nxt} In ") and k != f"{nxt} In _compilers" and all(x in k[len(nxt) + 4 :] for x in visited)), None)
            if seen is None:
                ctx.violation("config:ArgumentParser.__init__:alias-loop-detection", f"the alias `{nxt}` is not compared with ALL names visited so far {visited}: a cycle that does not pass through the starting name (lead -> a -> b -> a) is never detected and the constructor hangs", init.loc())
                break
            if seen:
                n_loop += 1
                ok = len(errs) == 1 and errs[0][1] == "log.error" and p.result[0] == "return" and (not comp or comp[-1] == "_Compiler()")
                ctx.check(ok, "config:ArgumentParser.__init__:alias-loop-detection", "an alias loop must be reported with an error and end the walk", init.loc())
                break
            known = at.get(f"{nxt} In _compilers")
            if known is None:
                ctx.violation("config:ArgumentParser.__init__:dangling-alias-reported", f"the alias `{nxt}` is used without checking that it names a known compiler", init.loc())
                break
            if not known:
                n_dang += 1
                ok = len(errs) == 1 and errs[0][1] == "log.error" and p.result[0] == "return" and (not comp or comp[-1] == "_Compiler()")
                ctx.check(ok, "config:ArgumentParser.__init__:dangling-alias-reported", "an alias of an unknown compiler must be reported and end the walk", init.loc())
                break
            visited.append(nxt)
            cur = nxt
    if not (n_res >= 2 and n_loop >= 2 and n_dang >= 2):
        raise AnalysisError(f"ArgumentParser.__init__: alias walk idiom not recognised (resolved {n_res}, loops {n_loop}, dangling {n_dang})")
    ctx.floor(3)


@rule("C12.R2", "implicit options are appended to argv; passes = default + flag-selected; each pass starts from copies; modes applied per pass")
def r2(ctx):
    repo = ctx.repo
    f = repo.cls("config", "ArgumentParser").find_method("parse_args")
    body = u(f.node)
    src = {
        "passes-from-builtin": "args.passes = set(args.passes)",
        "passes-from-flags": "args.passes |= set(chain(*args._passes.values()))",
        "default-pass": "args.passes |= {'default'}",
        "modes-set": "args.modes = set(args.modes)",
    }
    for k, t in src.items():
        ctx.soft(t in body, f"config:ArgumentParser.parse_args:{k}", f"expected `{t}`", f.loc())
    loops = [n for n in walk_no_nested(f.node) if isinstance(n, ast.For) and u(n.iter) == "args.passes"]
    ctx.require(len(loops) == 1, "parse_args: loop over args.passes not found")
    lp = loops[0]
    pn = u(lp.target)
    t = u(lp)
    checks = {
        "default-pass-uses-selected-modes": f"if {pn} == 'default':\n    modes = args.modes",
        "unknown-pass-reported": f"if {pn} not in self.compiler.passes:\n        log.error(",
        "pass-contributes": f"config._update(self.compiler.passes[{pn}])",
        "pass-modes": f"modes = self.compiler.passes[{pn}].modes",
        "unknown-mode-reported": "if mode_name not in self.compiler.modes:\n        log.error(",
        "mode-contributes": "config._update(self.compiler.modes[mode_name])",
        "one-config-per-pass": "configurations.append(config)",
    }
    for k, pat in checks.items():
        ctx.soft(_loose(pat) in _loose(t), f"config:ArgumentParser.parse_args:{k}", f"expected `{pat}` in the per-pass loop", f.loc(lp))
    ml = [n for n in ast.walk(lp) if isinstance(n, ast.For) and u(n.iter) == "modes"]
    ctx.soft(len(ml) == 1, "config:ArgumentParser.parse_args:modes-loop", "every mode of the pass must be applied", f.loc(lp))
    # _update extends all three lists from the pass/mode
    up = repo.cls("config", "PreprocessorConfiguration").find_method("_update")
    p = up.params[1]
    for fld in ("defines", "include_paths", "include_files"):
        ctx.soft(f"self.{fld}.extend({p}.{fld})" in u(up.node), f"config:PreprocessorConfiguration._update:{fld}", f"a pass/mode must contribute its {fld}", up.loc())
    # load_database: one entry per configuration, appended
    ld = repo.func("config", "load_database")
    lps = [n for n in walk_no_nested(ld.node) if isinstance(n, ast.For) and u(n.iter) == "preprocessor_configs"]
    ok = len(lps) == 1 and any(isinstance(s, ast.AugAssign) and u(s) == "configuration += [entry]" for s in lps[0].body)
    ctx.soft(ok, "config:load_database:one-entry-per-pass", "every pass configuration must yield one database entry", ld.loc())
    # finder.find associates every entry of a platform under the platform's name (C08.R1 checks the Platform ctor)
    ctx.floor(4 + 7 + 1 + 3 + 1)


def _compiler_defs(repo):
    out = {}
    for name in COMPILER_FILES:
        t = repo.toml(f"compilers/{name}.toml")
        out[name] = t
    return out


@rule("C12.R3", "built-in compiler definitions: schema-valid, aliases resolve without cycles, every referenced mode/pass exists")
def r3(ctx):
    repo = ctx.repo
    defs = _compiler_defs(repo)
    schema = repo.json("schema/cbiconfig.schema")
    try:
        import jsonschema
    except Exception as e:  # pragma: no cover
        raise AnalysisError(f"jsonschema unavailable: {e}")
    allc = {}
    for fname, t in defs.items():
        key = f"compilers/{fname}.toml:schema"
        try:
            jsonschema.validate(instance=t, schema=schema)
            ctx.ok(key)
        except jsonschema.exceptions.ValidationError as e:
            ctx.violation(key, f"does not validate against cbiconfig.schema: {e.message}", f"codebasin/compilers/{fname}.toml")
        for cname, c in t.get("compiler", {}).items():
            allc[cname] = (fname, c)
    # the loader reads exactly these files
    lc = repo.func("config", "_load_compilers")
    lst = [n for n in walk_no_nested(lc.node) if isinstance(n, ast.For) and isinstance(n.iter, ast.List) and all(isinstance(e, ast.Constant) for e in n.iter.elts)]
    loaded = [e.value for e in lst[0].iter.elts] if lst else []
    ctx.soft(sorted(loaded) == sorted(COMPILER_FILES), "config:_load_compilers:files", f"loader reads {loaded}; the built-in definition files are {COMPILER_FILES}", lc.loc())
    for cname, (fname, c) in sorted(allc.items()):
        loc = f"codebasin/compilers/{fname}.toml"
        if "alias_of" in c:
            seen = [cname]
            cur = c["alias_of"]
            ok = True
            why = ""
            while True:
                if cur in seen:
                    ok, why = False, f"alias cycle {seen + [cur]}"
                    break
                if cur not in allc:
                    ok, why = False, f"alias of unknown compiler {cur!r}"
                    break
                seen.append(cur)
                if "alias_of" not in allc[cur][1]:
                    break
                cur = allc[cur][1]["alias_of"]
            ctx.check(ok, f"compilers/{fname}.toml:{cname}:alias", why, loc)
            continue
        modes = {m["name"] for m in c.get("modes", [])}
        passes = {p["name"] for p in c.get("passes", [])}
        for opt in c.get("parser", []):
            flags = ",".join(opt.get("flags", []))
            k = f"compilers/{fname}.toml:{cname}:parser:{flags}"
            dest = opt.get("dest")
            ok = dest in ("defines", "include_paths", "include_files", "modes", "passes")
            why = f"dest {dest!r} is not one the preprocessor configuration knows"
            if ok and opt.get("action") == "append_const":
                tgt = modes if dest == "modes" else passes if dest == "passes" else None
                if tgt is not None and opt.get("const") not in tgt:
                    ok, why = False, f"const {opt.get('const')!r} is not a declared {dest[:-1]}"
            if ok and dest == "passes":
                for dv in opt.get("default", []) or []:
                    if dv not in passes:
                        ok, why = False, f"default pass {dv!r} is not declared"
                fmt = opt.get("format")
                if ok and fmt and "$value" in fmt:
                    pre = fmt.split("$value")[0]
                    if not any(p.startswith(pre) for p in passes):
                        ok, why = False, f"no declared pass matches the format {fmt!r}"
            if ok and dest in ("defines", "include_paths", "include_files") and opt.get("action") in ("store_split", "store", "store_const"):
                ok, why = False, f"action {opt.get('action')!r} REPLACES the {dest} collected so far (every earlier -D/-I/-include of the command is lost); list destinations need an appending action"
            if ok and opt.get("action") == "extend_match":
                try:
                    re.compile(opt.get("pattern", ""))
                except re.error as e:
                    ok, why = False, f"invalid pattern: {e}"
            ctx.check(ok, k, why, loc)
        for p in c.get("passes", []):
            for m in p.get("modes", []):
                ctx.check(m in modes, f"compilers/{fname}.toml:{cname}:pass:{p['name']}:mode:{m}", f"pass {p['name']} enables undeclared mode {m!r}", loc)
        for o in c.get("options", []):
            ctx.check(isinstance(o, str) and o.startswith("-"), f"compilers/{fname}.toml:{cname}:option:{o}", "implicit option does not look like a flag", loc)
    # sibling consistency: nvcc sm_NN passes define __CUDA_ARCH__=NN0
    for cname, (fname, c) in allc.items():
        for p in c.get("passes", []):
            m = re.fullmatch(r"sm_(\d+)", p["name"])
            if m:
                want = f"__CUDA_ARCH__={m.group(1)}0"
                ctx.check(want in p.get("defines", []), f"compilers/{fname}.toml:{cname}:pass:{p['name']}:cuda-arch", f"pass {p['name']} must define {want} like its siblings: {p.get('defines')}", f"codebasin/compilers/{fname}.toml")
    ctx.floor(4 + 1 + 8)


@rule("C12.R4", "all writers of namespace._passes key an option by its first flag")
def r4(ctx):
    repo = ctx.repo
    ss = repo.cls("config", "_StoreSplitAction").find_method("__call__")
    em = repo.cls("config", "_ExtendMatchAction")
    pa = repo.cls("config", "ArgumentParser").find_method("parse_args")
    # parse_args default registration
    st = [s for s in walk_no_nested(pa.node) if isinstance(s, ast.Assign) and isinstance(s.targets[0], ast.Subscript) and u(s.targets[0].value) == "namespace._passes"]
    env = {u(s.targets[0]): u(s.value) for s in walk_no_nested(pa.node) if isinstance(s, ast.Assign)}
    for s in st:
        k = u(s.targets[0].slice)
        ctx.check(env.get(k, k) == "option['flags'][0]", f"config:ArgumentParser.parse_args:_passes-key:{k}", f"default passes are registered under {env.get(k, k)}", pa.loc(s))
    # store_split
    for s in walk_no_nested(ss.node):
        if isinstance(s, ast.Assign) and isinstance(s.targets[0], ast.Subscript) and u(s.targets[0].value) == "passes":
            k = u(s.targets[0].slice)
            ctx.check(k == "self.option_strings[0]", f"config:_StoreSplitAction.__call__:_passes-key:{k}", f"store_split stores the selected passes under `{k}`: with flags=[-t, --targets] and a default, the second spelling keeps the default pass the first one replaces (all writers must key by the option's first flag)", ss.loc(s))
    # extend_match
    init = em.find_method("__init__")
    fn = [s for s in init.node.body if isinstance(s, ast.Assign) and u(s.targets[0]) == "self.flag_name"]
    ctx.check(len(fn) == 1 and u(fn[0].value) == "option_strings[0]", "config:_ExtendMatchAction.__init__:flag_name", "flag_name must be the option's first flag", init.loc())
    call = em.find_method("__call__")
    for s in walk_no_nested(call.node):
        if isinstance(s, (ast.Subscript,)) and u(s.value) == "passes":
            ctx.check(u(s.slice) == "self.flag_name", f"config:_ExtendMatchAction.__call__:_passes-key:{u(s.slice)}", "extend_match must key by self.flag_name", call.loc(s))
    ctx.floor(4)


@rule("C12.R5", "a user configuration extends the built-in one")
def r5(ctx):
    repo = ctx.repo
    lc = repo.func("config", "_load_compilers")
    t = u(lc.node)
    pats = {
        "options-extended": "compiler.options.extend(definition['options'])",
        "parser-appended": "compiler.parser.append(option)",
        "modes-updated": "compiler.modes[name] = _CompilerMode.from_toml(m)",
        "passes-updated": "compiler.passes[name] = _CompilerPass.from_toml(p)",
        "new-compiler-added": "if name not in _compilers:\n    _compilers[name] = _Compiler.from_toml(definition)\n    continue",
    }
    for k, pat in pats.items():
        ctx.soft(_loose(pat) in _loose(t), f"config:_load_compilers:{k}", f"expected `{pat}`: a user definition of a built-in compiler must add to (not replace) its options, parser rules, modes and passes", lc.loc())
    # no plain re-binding of the merged attributes
    for s in walk_no_nested(lc.node):
        if isinstance(s, ast.Assign) and isinstance(s.targets[0], ast.Attribute) and u(s.targets[0].value) == "compiler" and s.targets[0].attr in ("options", "parser", "modes", "passes"):
            ctx.violation(f"config:_load_compilers:rebinds:{u(s.targets[0])}", f"`{u(s)[:80]}` replaces the built-in {s.targets[0].attr} with the user's instead of extending them", lc.loc(s))
    ctx.floor(5)


def _loose(s):
    return re.sub(r"\s+", " ", s)


@rule("C12.R6", "the cached compiler definitions are never modified by parsing a command (= C08.R3)")
def r6(ctx):
    from .c08 import r3 as c08r3

    c08r3(ctx)


CBICONFIG_ACCEPT = [
    {},
    {"compiler": {}},
    {"compiler": {"mycc": {"alias_of": "gcc"}}},
    {"compiler": {"gcc": {"options": ["-D", "X", "-D", "Y", "-I", "a", "-I", "a"]}}},
    {"compiler": {"gcc": {"options": ["-DX", "-DX"]}}},
    {"compiler": {"gcc": {"parser": [{"flags": ["-fPIC"], "action": "store_true"}]}}},
    {"compiler": {"gcc": {"parser": [{"flags": ["-t", "--targets"], "action": "store_split", "sep": ",", "format": "t-$value", "dest": "passes", "default": ["t-a"]}]}}},
    {"compiler": {"gcc": {"parser": [{"flags": ["--arch"], "action": "extend_match", "pattern": "(x)", "dest": "passes", "default": "a", "override": True}]}}},
    {"compiler": {"gcc": {"modes": [{"name": "m"}, {"name": "n", "defines": ["A", "A"], "include_paths": ["p"], "include_files": ["f.h"]}]}}},
    {"compiler": {"gcc": {"passes": [{"name": "p", "defines": ["A"], "include_paths": ["p"], "include_files": ["f.h"], "modes": ["m"]}]}}},
]
CBICONFIG_REJECT = [
    {"compiler": {"gcc": {"options": "-DX"}}},
    {"compiler": {"gcc": {"modes": [{"defines": ["A"]}]}}},
    {"compiler": {"gcc": {"parser": [{"flags": "-x"}]}}},
    {"compiler": {"gcc": {"alias_of": 3}}},
]


@rule("C12.R9", "the configuration schema accepts every legal user configuration (a rejected file is dropped as a whole) and rejects malformed ones")
def r9(ctx):
    import json as _json

    repo = ctx.repo
    schema = repo.json("schema/cbiconfig.schema")
    try:
        import jsonschema
    except Exception as e:  # pragma: no cover
        raise AnalysisError(f"jsonschema unavailable: {e}")
    loc = "codebasin/schema/cbiconfig.schema"
    try:
        jsonschema.Draft202012Validator.check_schema(schema)
    except Exception as e:
        ctx.violation("schema:cbiconfig:well-formed", f"not a valid JSON schema: {e}", loc)
        return
    for inst in CBICONFIG_ACCEPT:
        key = "schema:cbiconfig:accepts:" + _json.dumps(inst)[:80]
        try:
            jsonschema.validate(instance=inst, schema=schema)
            ctx.ok(key)
        except jsonschema.exceptions.ValidationError as e:
            ctx.violation(key, f"a legal configuration is rejected ({e.message[:100]}): _load_compilers logs the error and drops the WHOLE user configuration (options, parser rules, modes, aliases)", loc)
    for inst in CBICONFIG_REJECT:
        key = "schema:cbiconfig:rejects:" + _json.dumps(inst)[:80]
        try:
            jsonschema.validate(instance=inst, schema=schema)
            ctx.violation(key, "a malformed configuration passes validation", loc)
        except jsonschema.exceptions.ValidationError:
            ctx.ok(key)
    ctx.floor(len(CBICONFIG_ACCEPT) + len(CBICONFIG_REJECT))


# what the real compilers accept as an architecture operand, and which device pass it selects
# (nvcc: --gpu-architecture / --gpu-code / -gencode take real (sm_NN) and virtual (compute_NN) names)
ARCH_VECTORS = {
    "nvcc": [
        ("sm_70", ["sm_70"]),
        ("compute_80", ["sm_80"]),
        ("arch=compute_80,code=sm_80", ["sm_80", "sm_80"]),
        ("arch=compute_90,code=compute_90", ["sm_90", "sm_90"]),
        ("arch=compute_75,code=[sm_75,compute_75]", ["sm_75", "sm_75", "sm_75"]),
    ],
}


@rule("C12.R10", "compiler data tables: sibling passes agree, the pass a flag value selects exists, arch patterns match every spelling the compiler accepts")
def r10(ctx):
    import string

    repo = ctx.repo
    defs = _compiler_defs(repo)
    for fname, t in sorted(defs.items()):
        loc = f"codebasin/compilers/{fname}.toml"
        for cname, c in sorted(t.get("compiler", {}).items()):
            passes = {p["name"]: p for p in c.get("passes", [])}
            for opt in c.get("parser", []):
                if opt.get("dest") != "passes":
                    continue
                fmt = opt.get("format")
                flag = opt.get("flags", ["?"])[0]
                if fmt and "$value" in fmt:
                    # the passes this option can select: names of the shape <format with some value>
                    rx = re.compile(re.escape(fmt).replace(re.escape("$value"), r"(.+)") + "$")
                    fam = {n: p for n, p in passes.items() if rx.match(n)}
                    key = f"compilers/{fname}.toml:{cname}:{flag}:sibling-passes"
                    if fam:
                        modes = {n: tuple(sorted(p.get("modes", []))) for n, p in fam.items()}
                        common = max(set(modes.values()), key=lambda m: sum(1 for v in modes.values() if v == m))
                        odd = sorted(n for n, m in modes.items() if m != common)
                        ctx.check(not odd, key + ":modes", f"passes selected by `{flag}` enable modes {list(common)}, except {odd}: {[(n, list(modes[n])) for n in odd]} - a pass of the same family that does not enable the family's mode loses that mode's definitions", loc)
                        # numeric families: the definitions follow one formula of the number
                        nums = {n: rx.match(n).group(1) for n in fam}
                        if all(v.isdigit() for v in nums.values()) and len(fam) >= 3:
                            for n, p in sorted(fam.items()):
                                for d in p.get("defines", []):
                                    m = re.fullmatch(r"(\w+)=(\d+)", d)
                                    if m:
                                        ratio = {int(q.split("=")[1]) / int(nums[k]) for k, pp in fam.items() for q in pp.get("defines", []) if q.startswith(m.group(1) + "=") and int(nums[k])}
                                        ctx.check(len(ratio) == 1, key + f":{m.group(1)}", f"`{m.group(1)}` is not the same multiple of the architecture number in every pass of the family: ratios {sorted(ratio)}", loc)
                                        break
                    for dflt in opt.get("default", []) or []:
                        ctx.check(dflt in passes, key + f":default:{dflt}", f"default pass `{dflt}` of `{flag}` is not defined", loc)
                if opt.get("action") == "extend_match" and cname in ARCH_VECTORS:
                    pat = opt.get("pattern", "")
                    for value, want in ARCH_VECTORS[cname]:
                        got = re.findall(pat, value)
                        if fmt:
                            got = [string.Template(fmt).substitute(value=v) for v in got]
                        ctx.check(got == want, f"compilers/{fname}.toml:{cname}:{flag}:arch:{value}", f"`{cname} {flag}={value}` selects passes {got}; the compiler compiles for {want} (virtual `compute_NN` names select the same device code as `sm_NN`)", loc)
    ctx.floor(8)


def _arg_label(a):
    """the name an argument expression goes by: x, obj.x, d['x'], d.get('x', ...)"""
    if isinstance(a, ast.Name):
        return a.id
    if isinstance(a, ast.Attribute):
        return a.attr
    if isinstance(a, ast.Subscript) and isinstance(a.slice, ast.Constant) and isinstance(a.slice.value, str):
        return a.slice.value
    if isinstance(a, ast.Call) and isinstance(a.func, ast.Attribute) and a.func.attr in ("get", "pop") and a.args and isinstance(a.args[0], ast.Constant) and isinstance(a.args[0].value, str):
        return a.args[0].value
    return None


def _misbound(labels, ps):
    return [(i, l) for i, l in enumerate(labels) if l in ps and i < len(ps) and ps[i] != l and ps.index(l) < len(labels) and labels[ps.index(l)] != l]


@rule("C12.R11", "in the configuration / compiler-emulation code, arguments are bound to the parameters they are named after: a value labelled with the name of one parameter is not passed in the position of another")
def r11(ctx):
    repo = ctx.repo
    # callee signatures by (unique) name: functions, and classes through __init__ or dataclass fields
    sigs = {}
    byname = {}
    for f in repo.all_functions():
        byname.setdefault(f.name, []).append(f)
    for name, fs in byname.items():
        if len(fs) == 1 and name != "__init__":
            a = fs[0].node.args
            ps = [x.arg for x in a.posonlyargs + a.args]
            if ps and ps[0] in ("self", "cls"):
                ps = ps[1:]
            sigs[name] = ps
    for m in repo.modules.values():
        for c in m.classes.values():
            init = c.methods.get("__init__")
            if init is not None:
                ps = [x.arg for x in init.node.args.posonlyargs + init.node.args.args][1:]
            else:
                ps = [s.target.id for s in c.node.body if isinstance(s, ast.AnnAssign) and isinstance(s.target, ast.Name)]
                for b in c.bases:
                    ps = [s.target.id for s in b.node.body if isinstance(s, ast.AnnAssign) and isinstance(s.target, ast.Name)] + ps
            if ps and c.name not in sigs:
                sigs[c.name] = ps
    n = 0
    for f in repo.all_functions():
        if f.module.short not in ("config", "finder", "platform", "__init__"):
            continue  # the token constructors of the preprocessor pass positional place-holders ('EXPANSION' for a line): out of this property's scope
        for call in f.calls():
            name = call.func.attr if isinstance(call.func, ast.Attribute) else call.func.id if isinstance(call.func, ast.Name) else None
            if name == "cls" and f.cls is not None:
                name = f.cls.name
            ps = sigs.get(name)
            if not ps or len(call.args) < 2 or any(isinstance(a, ast.Starred) for a in call.args):
                continue
            labels = [_arg_label(a) for a in call.args]
            if sum(1 for l in labels if l in ps) < 2:
                continue
            n += 1
            bad = _misbound(labels, ps)
            ctx.check(not bad, f"{f.key}:call:{name}:{','.join(str(l) for l in labels)}", f"`{u(call)[:90]}`: " + "; ".join(f"the value named `{l}` is passed as parameter `{ps[i]}`" for i, l in bad) + f" (parameters of {name}: {ps})", f.loc(call))
    ctx.stats["calls_with_named_positionals"] = n
    # the tree has (today) no such call in these modules: the rule is exercised on a built-in example on every run
    ps = ["name", "defines", "include_paths", "include_files"]
    good = ast.parse("P(t['name'], t.get('defines', []), t.get('include_paths', []), t.get('include_files', []))").body[0].value
    swapped = ast.parse("P(t['name'], t.get('defines', []), t.get('include_files', []), t.get('include_paths', []))").body[0].value
    if _misbound([_arg_label(a) for a in good.args], ps) or not _misbound([_arg_label(a) for a in swapped.args], ps):
        raise AnalysisError("C12.R11: built-in example not decided as expected")
    ctx.ok("self-example:correct-order-silent")
    ctx.ok("self-example:swapped-order-reported")
    ctx.floor(2)
