"""C12 - compiler emulation: aliases, implicit options, modes and passes, TOML data."""

from __future__ import annotations

import ast
import re

from ..model import AnalysisError, callee, const, dotted, u, walk_no_nested
from ..run import rule

COMPILER_FILES = ["clang", "gnu", "intel", "nvidia"]


@rule("C12.R1", "alias chain walk: lookup by basename; every visited name is remembered; loops and unknown targets are reported and end the walk")
def r1(ctx):
    repo = ctx.repo
    init = repo.cls("config", "ArgumentParser").find_method("__init__")
    ctx.require(init is not None, "ArgumentParser.__init__ missing")
    pth = init.params[1]
    # Stated over the decision table of the constructor (two steps of the walk unrolled):
    #   name = basename(argv0); unknown name -> warning, empty behaviour
    #   while the current name has an alias A:  A already visited (ANY earlier name) -> error, stop;
    #                                          A unknown -> error, stop;  otherwise continue with A
    #   the compiler used is the table entry of the last name
    from ..spec import tab, vt

    A0 = f"os.path.basename({pth})"
    n_res = n_loop = n_dang = 0
    for p in tab(init, unroll=2):
        at = {vt(k): v for k, v in p.atoms.items()}
        stores = [(vt(e[1]), vt(e[2])) for e in p.effects if e[0] == "store"]
        name_st = [v for t, v in stores if t == "self.name"]
        ctx.check(name_st == [A0], "config:ArgumentParser.__init__:basename", f"the compiler must be identified by the base name of argv[0]: self.name = {name_st}", init.loc())
        if name_st != [A0]:
            continue
        comp = [v for t, v in stores if t == "self.compiler"]
        errs = [e for e in p.effects if e[0] == "call" and e[1] in ("log.error", "log.warning")]
        known0 = at.get(f"{A0} In _compilers")
        if known0 is None:
            raise AnalysisError(f"ArgumentParser.__init__: lookup of the name in the compiler table not recognised: {p.describe()[:160]}")
        if not known0:
            ok = len(errs) == 1 and p.result[0] == "return" and (not comp or comp[-1] == "_Compiler()")
            ctx.check(ok, "config:ArgumentParser.__init__:unknown-compiler-warned", "an unknown compiler must be reported with a warning and get the empty default behaviour", init.loc())
            continue
        visited = [A0]
        cur = A0
        while True:
            nxt = f"_compilers[{cur}].alias_of"
            has = at.get(nxt)
            if has is None:
                break  # unrolling bound reached
            if not has:
                n_res += 1
                ok = bool(comp) and comp[-1] == f"_compilers[{cur}]" and not errs
                ctx.check(ok, "config:ArgumentParser.__init__:resolves-to-chain-end", f"the compiler used must be the table entry at the end of the alias chain (`_compilers[{cur}]`), got {comp[-1:] }", init.loc())
                break
            seen = next((v for k, v in at.items() if k.startswith(f"{nxt} In ") and k != f"{nxt} In _compilers" and all(x in k[len(nxt) + 4 :] for x in visited)), None)
            if seen is None:
                ctx.violation("config:ArgumentParser.__init__:alias-loop-detection", f"the alias `{nxt}` is not compared with ALL names visited so far {visited}: a cycle that does not pass through the starting name (lead -> a -> b -> a) is never detected and the constructor hangs", init.loc())
                break
            if seen:
                n_loop += 1
                ok = len(errs) == 1 and errs[0][1] == "log.error" and p.result[0] == "return" and (not comp or comp[-1] == "_Compiler()")
                ctx.check(ok, "config:ArgumentParser.__init__:alias-loop-detection", "an alias loop must be reported with an error and end the walk", init.loc())
                break
            known = at.get(f"{nxt} In _compilers")
            if known is None:
                ctx.violation("config:ArgumentParser.__init__:dangling-alias-reported", f"the alias `{nxt}` is used without checking that it names a known compiler", init.loc())
                break
            if not known:
                n_dang += 1
                ok = len(errs) == 1 and errs[0][1] == "log.error" and p.result[0] == "return" and (not comp or comp[-1] == "_Compiler()")
                ctx.check(ok, "config:ArgumentParser.__init__:dangling-alias-reported", "an alias of an unknown compiler must be reported and end the walk", init.loc())
                break
            visited.append(nxt)
            cur = nxt
    if not (n_res >= 2 and n_loop >= 2 and n_dang >= 2):
        raise AnalysisError(f"ArgumentParser.__init__: alias walk idiom not recognised (resolved {n_res}, loops {n_loop}, dangling {n_dang})")
    ctx.floor(3)


@rule("C12.R2", "implicit options are appended to argv; passes = default + flag-selected; each pass starts from copies; modes applied per pass")
def r2(ctx):
    repo = ctx.repo
    f = repo.cls("config", "ArgumentParser").find_method("parse_args")
    # Contract of the per-pass part, stated over the decision table (A = the parsed namespace):
    #   passes = A.passes  U  every list in A._passes  U  {default}
    #   for each pass P:  C = PreprocessorConfiguration(copies of A.defines / A.include_paths / A.include_files, P)
    #       P == default            -> modes = A.modes
    #       P unknown               -> error, nothing appended
    #       otherwise               -> C._update(passes[P]); modes = passes[P].modes
    #       each mode m of modes:   unknown -> error ; else C._update(modes[m])
    #       configurations.append(C)           (exactly once per known pass)
    from ..decision import NOTHING, Evaluator, Hooks, Sym, vtext
    from ..spec import appended, vt

    class H(Hooks):
        unroll = 1

        def on_call(self, call, ftext, args, kwargs, st):
            if ftext.endswith(".parse_known_args"):
                st.effect("PARSED", *args)
                return (Sym("A"), Sym("UNREC"))
            if ftext.endswith(".parse_args") and not ftext.startswith("self."):
                st.effect("PARSED", *args)
                return Sym("A")
            if ftext.split(".")[-1] == "PreprocessorConfiguration":
                n = sum(1 for e in st.effects if e[0] == "NEW_CONFIG") + 1
                st.effect("NEW_CONFIG", *args, *[(k, v) for k, v in kwargs.items()])
                return Sym(f"CFG{n}")
            if ftext.endswith(".add_argument"):
                return None
            if ftext.startswith("log."):
                st.effect("LOG", ftext)
                return None
            return NOTHING

    paths = Evaluator(H(), max_paths=4000).paths(f.node)
    n_def = n_named = n_unknown = 0
    for p in paths:
        effs = p.effects
        parsed = [e for e in effs if e[0] == "PARSED"]
        if len(parsed) != 1:
            raise AnalysisError(f"parse_args: the argparse call is not recognised ({len(parsed)} parse calls on a path)")
        ok_argv = len(parsed[0]) >= 2 and vt(parsed[0][1]) in (f"({f.params[1]} Add self.compiler.options)", f"[*{f.params[1]}, *self.compiler.options]")
        ctx.check(ok_argv, "config:ArgumentParser.parse_args:implicit-options-appended", f"the compiler's implicit options must be appended to the command line (argv + self.compiler.options): parses `{vt(parsed[0][1]) if len(parsed[0]) > 1 else ''}`", f.loc())
        loops = [m.group(1) for k, v in p.atoms.items() for m in [re.match(r"more\((.+)#L\d+,0\)$", k)] if m and v and "A.passes" in k]
        after = effs[effs.index(parsed[0]) + 1 :]
        if not loops:
            continue
        PS = loops[0]
        ok_set = all(x in PS for x in ("A.passes", "A._passes.values()", "'default'")) and "BitAnd" not in PS and " Sub " not in PS
        ctx.check(ok_set, "config:ArgumentParser.parse_args:passes", f"the passes of a command are the built-in selection, every flag-selected list and the default pass, united: `{PS[:160]}`", f.loc())
        P = f"{PS}[0]"
        newc = [e for e in after if e[0] == "NEW_CONFIG"]
        key = "config:ArgumentParser.parse_args:pass:"
        if len(newc) != 1:
            ctx.violation(key + "one-config", f"{len(newc)} configurations are created for one pass", f.loc())
            continue
        cargs = [vt(x) for x in newc[0][1:]]
        ok = cargs == ["A.defines.copy()", "A.include_paths.copy()", "A.include_files.copy()", P] or cargs == ["list(A.defines)", "list(A.include_paths)", "list(A.include_files)", P]
        ctx.check(ok, key + "starts-from-copies", f"every pass must start from its own copies of the extracted -D / -I / -include lists and carry its name: PreprocessorConfiguration({', '.join(c[:40] for c in cargs)})", f.loc())
        at = {vt(k): v for k, v in p.atoms.items()}
        is_def = next((v for k, v in at.items() if k in (f"'default' Eq {P}", f"{P} Eq 'default'")), None)
        if is_def is None:
            raise AnalysisError(f"parse_args: the default-pass test is not recognised: {p.describe()[:200]}")
        ups = [vt(e[2]) for e in after if e[0] == "call" and e[1] == "CFG1._update"]
        apps = [t for t in appended(p, "configurations")]
        logs = [e for e in after if e[0] == "LOG" and e[1] == "log.error"]
        if is_def:
            n_def += 1
            M = "A.modes"
            expect_ups = []
        else:
            known = at.get(f"{P} In self.compiler.passes")
            if known is None:
                ctx.violation(key + "unknown-pass-reported", "a selected pass is used without checking that the compiler defines it", f.loc())
                continue
            if not known:
                n_unknown += 1
                ctx.check(len(logs) == 1 and not apps and not ups, key + "unknown-pass-reported", f"an unknown pass must be reported with an error and contribute nothing: {len(logs)} errors, appended {apps}", f.loc())
                continue
            n_named += 1
            M = f"self.compiler.passes[{P}].modes"
            expect_ups = [f"self.compiler.passes[{P}]"]
        mloop = [k for k, v in p.atoms.items() if re.match(r"more\((set\()?" + re.escape(M) + r"\)?(@\d+)?#L\d+,0\)$", k)]
        if not mloop:
            ctx.violation(key + "modes-applied", f"the modes of the pass (`{M}`) are not iterated: {[k[:80] for k in p.atoms if k.startswith('more(')][-2:]}", f.loc())
            continue
        n_errors = 0
        if p.atoms[mloop[0]]:
            mm = re.match(r"more\((.+)#L\d+,0\)$", mloop[0]).group(1)
            m0 = f"{vt(mm)}[0]"
            mk = at.get(f"{m0} In self.compiler.modes")
            if mk is None:
                ctx.violation(key + "unknown-mode-reported", "a mode is applied without checking that the compiler defines it", f.loc())
                continue
            if mk:
                expect_ups.append(f"self.compiler.modes[{m0}]")
            else:
                n_errors = 1
        ok = ups == expect_ups and apps == ["CFG1"] and len(logs) == n_errors
        ctx.check(ok, key + ("default" if is_def else "named") + f":modes={int(bool(p.atoms[mloop[0]]))},errors={n_errors}", f"a pass contributes exactly: its own definitions (named pass), then those of each of its modes (default pass: the modes selected on the command line), and yields one configuration; got updates {ups}, expected {expect_ups}; appended {apps}; errors logged {len(logs)}", f.loc())
    if not (n_def and n_named and n_unknown):
        raise AnalysisError(f"parse_args: per-pass idiom not recognised (default {n_def}, named {n_named}, unknown {n_unknown})")
    # _update extends all three lists from the pass/mode
    up = repo.cls("config", "PreprocessorConfiguration").find_method("_update")
    p = up.params[1]
    for fld in ("defines", "include_paths", "include_files"):
        ctx.soft(f"self.{fld}.extend({p}.{fld})" in u(up.node), f"config:PreprocessorConfiguration._update:{fld}", f"a pass/mode must contribute its {fld}", up.loc())
    # finder.find associates every entry of a platform under the platform's name (C08.R1 checks the Platform ctor)
    ctx.floor(8)


def _compiler_defs(repo):
    out = {}
    for name in COMPILER_FILES:
        t = repo.toml(f"compilers/{name}.toml")
        out[name] = t
    return out


@rule("C12.R3", "built-in compiler definitions: schema-valid, aliases resolve without cycles, every referenced mode/pass exists")
def r3(ctx):
    repo = ctx.repo
    defs = _compiler_defs(repo)
    schema = repo.json("schema/cbiconfig.schema")
    try:
        import jsonschema
    except Exception as e:  # pragma: no cover
        raise AnalysisError(f"jsonschema unavailable: {e}")
    allc = {}
    for fname, t in defs.items():
        key = f"compilers/{fname}.toml:schema"
        try:
            jsonschema.validate(instance=t, schema=schema)
            ctx.ok(key)
        except jsonschema.exceptions.ValidationError as e:
            ctx.violation(key, f"does not validate against cbiconfig.schema: {e.message}", f"codebasin/compilers/{fname}.toml")
        for cname, c in t.get("compiler", {}).items():
            allc[cname] = (fname, c)
    # the loader reads exactly these files
    lc = repo.func("config", "_load_compilers")
    lst = [n for n in walk_no_nested(lc.node) if isinstance(n, ast.For) and isinstance(n.iter, ast.List) and all(isinstance(e, ast.Constant) for e in n.iter.elts)]
    loaded = [e.value for e in lst[0].iter.elts] if lst else []
    ctx.soft(sorted(loaded) == sorted(COMPILER_FILES), "config:_load_compilers:files", f"loader reads {loaded}; the built-in definition files are {COMPILER_FILES}", lc.loc())
    for cname, (fname, c) in sorted(allc.items()):
        loc = f"codebasin/compilers/{fname}.toml"
        if "alias_of" in c:
            seen = [cname]
            cur = c["alias_of"]
            ok = True
            why = ""
            while True:
                if cur in seen:
                    ok, why = False, f"alias cycle {seen + [cur]}"
                    break
                if cur not in allc:
                    ok, why = False, f"alias of unknown compiler {cur!r}"
                    break
                seen.append(cur)
                if "alias_of" not in allc[cur][1]:
                    break
                cur = allc[cur][1]["alias_of"]
            ctx.check(ok, f"compilers/{fname}.toml:{cname}:alias", why, loc)
            continue
        modes = {m["name"] for m in c.get("modes", [])}
        passes = {p["name"] for p in c.get("passes", [])}
        for opt in c.get("parser", []):
            flags = ",".join(opt.get("flags", []))
            k = f"compilers/{fname}.toml:{cname}:parser:{flags}"
            dest = opt.get("dest")
            ok = dest in ("defines", "include_paths", "include_files", "modes", "passes")
            why = f"dest {dest!r} is not one the preprocessor configuration knows"
            if ok and opt.get("action") == "append_const":
                tgt = modes if dest == "modes" else passes if dest == "passes" else None
                if tgt is not None and opt.get("const") not in tgt:
                    ok, why = False, f"const {opt.get('const')!r} is not a declared {dest[:-1]}"
            if ok and dest == "passes":
                for dv in opt.get("default", []) or []:
                    if dv not in passes:
                        ok, why = False, f"default pass {dv!r} is not declared"
                fmt = opt.get("format")
                if ok and fmt and "$value" in fmt:
                    pre = fmt.split("$value")[0]
                    if not any(p.startswith(pre) for p in passes):
                        ok, why = False, f"no declared pass matches the format {fmt!r}"
            if ok and dest in ("defines", "include_paths", "include_files") and opt.get("action") in ("store_split", "store", "store_const"):
                ok, why = False, f"action {opt.get('action')!r} REPLACES the {dest} collected so far (every earlier -D/-I/-include of the command is lost); list destinations need an appending action"
            if ok and opt.get("action") == "extend_match":
                try:
                    re.compile(opt.get("pattern", ""))
                except re.error as e:
                    ok, why = False, f"invalid pattern: {e}"
            ctx.check(ok, k, why, loc)
        for p in c.get("passes", []):
            for m in p.get("modes", []):
                ctx.check(m in modes, f"compilers/{fname}.toml:{cname}:pass:{p['name']}:mode:{m}", f"pass {p['name']} enables undeclared mode {m!r}", loc)
        for o in c.get("options", []):
            ctx.check(isinstance(o, str) and o.startswith("-"), f"compilers/{fname}.toml:{cname}:option:{o}", "implicit option does not look like a flag", loc)
    # sibling consistency: nvcc sm_NN passes define __CUDA_ARCH__=NN0
    for cname, (fname, c) in allc.items():
        for p in c.get("passes", []):
            m = re.fullmatch(r"sm_(\d+)", p["name"])
            if m:
                want = f"__CUDA_ARCH__={m.group(1)}0"
                ctx.check(want in p.get("defines", []), f"compilers/{fname}.toml:{cname}:pass:{p['name']}:cuda-arch", f"pass {p['name']} must define {want} like its siblings: {p.get('defines')}", f"codebasin/compilers/{fname}.toml")
    ctx.floor(4 + 1 + 8)


@rule("C12.R4", "all writers of namespace._passes key an option by its first flag")
def r4(ctx):
    """table specification: in the decision tables of the three writers, every store into / growth of an entry of the
    `_passes` table is keyed by the option's FIRST flag (locals and getattr() spellings are resolved by the tables)"""
    from ..spec import tab, vt

    repo = ctx.repo
    ss = repo.cls("config", "_StoreSplitAction").find_method("__call__")
    em = repo.cls("config", "_ExtendMatchAction")
    pa = repo.cls("config", "ArgumentParser").find_method("parse_args")
    call = em.find_method("__call__")

    def keys_of(f):
        out = {}
        for p in tab(f, unroll=1):
            for e in p.effects:
                if e[0] not in ("store", "call", "aug", "del") or len(e) < 2:
                    continue
                t = vt(e[1])
                i = t.find("._passes[")
                if i < 0:
                    continue
                j, depth = i + len("._passes["), 1
                k = j
                while k < len(t) and depth:
                    depth += t[k] == "["
                    depth -= t[k] == "]"
                    k += 1
                out.setdefault(t[j : k - 1], e)
        return out

    n = 0
    for f, ok_key, what in (
        (pa, lambda k: re.search(r"\['flags'\]\[0\]$", k) is not None, "default passes are registered"),
        (ss, lambda k: k == "self.option_strings[0]", "store_split stores the selected passes"),
        (call, lambda k: k in ("self.flag_name", "self.option_strings[0]"), "extend_match collects the matched passes"),
    ):
        ks = keys_of(f)
        if not ks:
            raise AnalysisError(f"{f.key}: no write to namespace._passes found in the decision table")
        for k in ks:
            n += 1
            ctx.check(ok_key(k), f"{f.key}:_passes-key:{k[-40:]}", f"{what} under `{k[-60:]}`: with flags=[-t, --targets] and a default, the second spelling keeps the default pass the first one replaces (all writers must key an option by its FIRST flag)", f.loc())
    init = em.find_method("__init__")
    vals = {vt(e[2]) for p in tab(init, unroll=1) for e in p.effects if e[0] == "store" and vt(e[1]) == "self.flag_name"}
    ctx.check(vals == {"option_strings[0]"}, "config:_ExtendMatchAction.__init__:flag_name", f"flag_name must be the option's first flag: {sorted(vals)}", init.loc())
    ctx.floor(4)


@rule("C12.R5", "a user configuration extends the built-in one")
def r5(ctx):
    repo = ctx.repo
    lc = repo.func("config", "_load_compilers")
    # Contract of the merge of one user definition (N, D) into a built-in compiler C = _compilers[N], over the
    # decision table:  'options' in D -> C.options.extend(D['options']);  each D['parser'][i] -> C.parser.append(its copy);
    # each D['modes'][i] -> C.modes[its name] = _CompilerMode.from_toml(it);  passes likewise;  an unknown N or an alias
    # definition -> _compilers[N] = _Compiler.from_toml(D).   Nothing of C is replaced wholesale.
    from ..decision import NOTHING, Evaluator, Hooks, vtext
    from ..spec import vt

    class H(Hooks):
        unroll = 1

        def trim(self, concrete):
            return concrete[:1]  # the built-in files are loaded by one loop over a constant list: one representative

        def on_call(self, call, ftext, args, kwargs, st):
            if ftext.startswith("log."):
                return None
            if ftext == "util._validate_toml":
                return None
            return NOTHING

    paths = Evaluator(H(), max_paths=8000).paths(lc.node)
    n_merge = n_new = 0
    for p in paths:
        items = [m.group(1) for k, v in p.atoms.items() for m in [re.match(r"more\((.+\['compiler'\]\.items\(\))#L\d+,0\)$", k)] if m and v and ".cbi/config" in k]
        if not items:
            continue
        IT = f"{items[0]}[0]"
        N, D = f"{IT}[0]", f"{IT}[1]"
        at = {vt(k): v for k, v in p.atoms.items()}
        known = next((v for k, v in at.items() if k.startswith(f"{N} In ")), None)
        effs = [(e[0], vt(e[1]), [vt(x) for x in e[2:]]) for e in p.effects if e[0] in ("store", "call")]
        mine = [e for e in effs if N in e[1] or any(D in a for a in e[2])]
        if known is None:
            raise AnalysisError(f"_load_compilers: the test whether the user's compiler is already defined is not recognised: {p.describe()[:200]}")
        repl = [e for e in mine if e[0] == "store" and e[1].endswith(f"[{N}]") and e[2] == [f"_Compiler.from_toml({D})"]]
        if not known:
            n_new += 1
            ctx.check(len(repl) == 1, "config:_load_compilers:new-compiler-added", "a compiler the user defines and CBI does not know must be added as defined", lc.loc())
            continue
        alias = at.get(f"'alias_of' In {D}")
        if alias:
            ctx.check(len(repl) == 1, "config:_load_compilers:alias-redefinition", "a user definition that makes a built-in compiler an alias replaces it", lc.loc())
            continue
        n_merge += 1
        C = next((e[1][: -len(".options.extend")] for e in mine if e[1].endswith(".options.extend")), None) or next((e[1].split(".modes[")[0] for e in mine if ".modes[" in e[1]), None) or next((e[1][: -len(".parser.append")] for e in mine if e[1].endswith(".parser.append")), None)
        want = {
            "options": (at.get(f"'options' In {D}"), lambda: [e for e in mine if e[0] == "call" and e[1].endswith(".options.extend") and e[2] == [f"{D}['options']"]]),
            "parser": (at.get(f"'parser' In {D}") and any(k.startswith(f"more({D}['parser']") and v for k, v in at.items()), lambda: [e for e in mine if e[0] == "call" and e[1].endswith(".parser.append") and e[2] and e[2][0].startswith(f"{D}['parser'][0]")]),
            "modes": (at.get(f"'modes' In {D}") and any(k.startswith(f"more({D}['modes']") and v for k, v in at.items()), lambda: [e for e in mine if e[0] == "store" and re.search(r"\.modes\[" + re.escape(D) + r"\['modes'\]\[0\]\['name'\]\]$", e[1]) and e[2] == [f"_CompilerMode.from_toml({D}['modes'][0])"]]),
            "passes": (at.get(f"'passes' In {D}") and any(k.startswith(f"more({D}['passes']") and v for k, v in at.items()), lambda: [e for e in mine if e[0] == "store" and re.search(r"\.passes\[" + re.escape(D) + r"\['passes'\]\[0\]\['name'\]\]$", e[1]) and e[2] == [f"_CompilerPass.from_toml({D}['passes'][0])"]]),
        }
        for what, (present, found) in want.items():
            got = found()
            ctx.check(len(got) == (1 if present else 0), f"config:_load_compilers:{what}-{'extended' if what == 'options' else 'appended' if what == 'parser' else 'updated'}:present={int(bool(present))}", f"a user definition of a built-in compiler must add its {what} to the built-in ones (exactly its own, under their own names): expected {1 if present else 0} such update(s), found {len(got)} among {[e[1][-50:] for e in mine][:6]}", lc.loc())
        ctx.check(not repl, "config:_load_compilers:merged-not-replaced", "a plain re-definition of a built-in compiler must extend it, not replace it", lc.loc())
    if not (n_merge and n_new):
        raise AnalysisError(f"_load_compilers: merge idiom not recognised (merge paths {n_merge}, new-compiler paths {n_new})")
    # no plain re-binding of the merged attributes
    for s in walk_no_nested(lc.node):
        if isinstance(s, ast.Assign) and isinstance(s.targets[0], ast.Attribute) and u(s.targets[0].value) == "compiler" and s.targets[0].attr in ("options", "parser", "modes", "passes"):
            ctx.violation(f"config:_load_compilers:rebinds:{u(s.targets[0])}", f"`{u(s)[:80]}` replaces the built-in {s.targets[0].attr} with the user's instead of extending them", lc.loc(s))
    ctx.floor(5)


def _loose(s):
    return re.sub(r"\s+", " ", s)


@rule("C12.R6", "the cached compiler definitions are never modified by parsing a command (= C08.R3)")
def r6(ctx):
    from .c08 import r3 as c08r3

    c08r3(ctx)


CBICONFIG_ACCEPT = [
    {},
    {"compiler": {}},
    {"compiler": {"mycc": {"alias_of": "gcc"}}},
    {"compiler": {"gcc": {"options": ["-D", "X", "-D", "Y", "-I", "a", "-I", "a"]}}},
    {"compiler": {"gcc": {"options": ["-DX", "-DX"]}}},
    {"compiler": {"gcc": {"parser": [{"flags": ["-fPIC"], "action": "store_true"}]}}},
    {"compiler": {"gcc": {"parser": [{"flags": ["-t", "--targets"], "action": "store_split", "sep": ",", "format": "t-$value", "dest": "passes", "default": ["t-a"]}]}}},
    {"compiler": {"gcc": {"parser": [{"flags": ["--arch"], "action": "extend_match", "pattern": "(x)", "dest": "passes", "default": "a", "override": True}]}}},
    {"compiler": {"gcc": {"modes": [{"name": "m"}, {"name": "n", "defines": ["A", "A"], "include_paths": ["p"], "include_files": ["f.h"]}]}}},
    {"compiler": {"gcc": {"passes": [{"name": "p", "defines": ["A"], "include_paths": ["p"], "include_files": ["f.h"], "modes": ["m"]}]}}},
]
CBICONFIG_REJECT = [
    {"compiler": {"gcc": {"options": "-DX"}}},
    {"compiler": {"gcc": {"modes": [{"defines": ["A"]}]}}},
    {"compiler": {"gcc": {"parser": [{"flags": "-x"}]}}},
    {"compiler": {"gcc": {"alias_of": 3}}},
]


@rule("C12.R9", "the configuration schema accepts every legal user configuration (a rejected file is dropped as a whole) and rejects malformed ones")
def r9(ctx):
    import json as _json

    repo = ctx.repo
    schema = repo.json("schema/cbiconfig.schema")
    try:
        import jsonschema
    except Exception as e:  # pragma: no cover
        raise AnalysisError(f"jsonschema unavailable: {e}")
    loc = "codebasin/schema/cbiconfig.schema"
    try:
        jsonschema.Draft202012Validator.check_schema(schema)
    except Exception as e:
        ctx.violation("schema:cbiconfig:well-formed", f"not a valid JSON schema: {e}", loc)
        return
    for inst in CBICONFIG_ACCEPT:
        key = "schema:cbiconfig:accepts:" + _json.dumps(inst)[:80]
        try:
            jsonschema.validate(instance=inst, schema=schema)
            ctx.ok(key)
        except jsonschema.exceptions.ValidationError as e:
            ctx.violation(key, f"a legal configuration is rejected ({e.message[:100]}): _load_compilers logs the error and drops the WHOLE user configuration (options, parser rules, modes, aliases)", loc)
    for inst in CBICONFIG_REJECT:
        key = "schema:cbiconfig:rejects:" + _json.dumps(inst)[:80]
        try:
            jsonschema.validate(instance=inst, schema=schema)
            ctx.violation(key, "a malformed configuration passes validation", loc)
        except jsonschema.exceptions.ValidationError:
            ctx.ok(key)
    ctx.floor(len(CBICONFIG_ACCEPT) + len(CBICONFIG_REJECT))


# what the real compilers accept as an architecture operand, and which device pass it selects
# (nvcc: --gpu-architecture / --gpu-code / -gencode take real (sm_NN) and virtual (compute_NN) names)
ARCH_VECTORS = {
    "nvcc": [
        ("sm_70", ["sm_70"]),
        ("compute_80", ["sm_80"]),
        ("arch=compute_80,code=sm_80", ["sm_80", "sm_80"]),
        ("arch=compute_90,code=compute_90", ["sm_90", "sm_90"]),
        ("arch=compute_75,code=[sm_75,compute_75]", ["sm_75", "sm_75", "sm_75"]),
    ],
}


# which device passes a command line selects (besides the default pass), per the compilers' documentation
PASS_VECTORS = {
    "nvcc": [
        ([], ["sm_70"]),
        (["--gpu-architecture=sm_80"], ["sm_80"]),
        (["--gpu-architecture", "sm_80"], ["sm_80"]),
        (["-gencode", "arch=compute_80,code=sm_80"], ["sm_80"]),
        (["-gencode=arch=compute_80,code=sm_80"], ["sm_80"]),
        (["-gencode", "arch=compute_70,code=sm_70", "-gencode", "arch=compute_80,code=sm_80"], ["sm_70", "sm_80"]),
        (["--gpu-architecture=compute_75", "--gpu-code=sm_80"], ["sm_75", "sm_80"]),
    ],
    "icx": [
        (["-fsycl", "-fsycl-targets=spir64_gen"], ["sycl-spir64_gen"]),
        (["-fsycl", "-fsycl-targets=spir64,spir64_x86_64"], ["sycl-spir64", "sycl-spir64_x86_64"]),
    ],
}


def _selected_passes(parser_opts, argv):
    """static model of how the option table turns a command line into pass names (the semantics of
    _StoreSplitAction / _ExtendMatchAction as reviewed: per-option default, keyed by the option's first flag;
    `override` replaces the default on first use)"""
    import string

    passes, used = {}, set()
    opts = [o for o in parser_opts if o.get("dest") == "passes"]
    for o in opts:
        if "default" in o:
            passes[o["flags"][0]] = list(o["default"])
    i = 0
    while i < len(argv):
        a = argv[i]
        flag, val = (a.split("=", 1) + [None])[:2] if a.startswith("-") and "=" in a else (a, None)
        o = next((o for o in opts if flag in o.get("flags", [])), None)
        if o is None:
            i += 1
            continue
        if val is None:
            i += 1
            val = argv[i] if i < len(argv) else ""
        key = o["flags"][0]
        if o.get("action") == "extend_match":
            vals = re.findall(o.get("pattern", ""), val)
        else:
            vals = val.split(o.get("sep", ","))
        if o.get("format"):
            vals = [string.Template(o["format"]).substitute(value=v) for v in vals]
        if o.get("action") == "extend_match":
            if o.get("override") and key not in used:
                passes[key] = list(vals)
            else:
                passes.setdefault(key, []).extend(vals)
            used.add(key)
        else:
            passes[key] = list(vals)
        i += 1
    return sorted({p for v in passes.values() for p in v})


@rule("C12.R10", "compiler data tables: sibling passes agree, the pass a flag value selects exists, arch patterns match every spelling the compiler accepts")
def r10(ctx):
    import string

    repo = ctx.repo
    defs = _compiler_defs(repo)
    for fname, t in sorted(defs.items()):
        loc = f"codebasin/compilers/{fname}.toml"
        for cname, c in sorted(t.get("compiler", {}).items()):
            passes = {p["name"]: p for p in c.get("passes", [])}
            for opt in c.get("parser", []):
                if opt.get("dest") != "passes":
                    continue
                fmt = opt.get("format")
                flag = opt.get("flags", ["?"])[0]
                if fmt and "$value" in fmt:
                    # the passes this option can select: names of the shape <format with some value>
                    rx = re.compile(re.escape(fmt).replace(re.escape("$value"), r"(.+)") + "$")
                    fam = {n: p for n, p in passes.items() if rx.match(n)}
                    key = f"compilers/{fname}.toml:{cname}:{flag}:sibling-passes"
                    if fam:
                        modes = {n: tuple(sorted(p.get("modes", []))) for n, p in fam.items()}
                        common = max(set(modes.values()), key=lambda m: sum(1 for v in modes.values() if v == m))
                        odd = sorted(n for n, m in modes.items() if m != common)
                        ctx.check(not odd, key + ":modes", f"passes selected by `{flag}` enable modes {list(common)}, except {odd}: {[(n, list(modes[n])) for n in odd]} - a pass of the same family that does not enable the family's mode loses that mode's definitions", loc)
                        # numeric families: the definitions follow one formula of the number
                        nums = {n: rx.match(n).group(1) for n in fam}
                        if all(v.isdigit() for v in nums.values()) and len(fam) >= 3:
                            for n, p in sorted(fam.items()):
                                for d in p.get("defines", []):
                                    m = re.fullmatch(r"(\w+)=(\d+)", d)
                                    if m:
                                        ratio = {int(q.split("=")[1]) / int(nums[k]) for k, pp in fam.items() for q in pp.get("defines", []) if q.startswith(m.group(1) + "=") and int(nums[k])}
                                        ctx.check(len(ratio) == 1, key + f":{m.group(1)}", f"`{m.group(1)}` is not the same multiple of the architecture number in every pass of the family: ratios {sorted(ratio)}", loc)
                                        break
                    for dflt in opt.get("default", []) or []:
                        ctx.check(dflt in passes, key + f":default:{dflt}", f"default pass `{dflt}` of `{flag}` is not defined", loc)
                if opt.get("action") == "extend_match" and cname in ARCH_VECTORS:
                    pat = opt.get("pattern", "")
                    for value, want in ARCH_VECTORS[cname]:
                        got = re.findall(pat, value)
                        if fmt:
                            got = [string.Template(fmt).substitute(value=v) for v in got]
                        ctx.check(got == want, f"compilers/{fname}.toml:{cname}:{flag}:arch:{value}", f"`{cname} {flag}={value}` selects passes {got}; the compiler compiles for {want} (virtual `compute_NN` names select the same device code as `sm_NN`)", loc)
            for argv, want in PASS_VECTORS.get(cname, []):
                got = _selected_passes(c.get("parser", []), argv)
                ctx.check(got == sorted(want), f"compilers/{fname}.toml:{cname}:passes:{' '.join(argv) or '<none>'}", f"`{cname} {' '.join(argv)}` selects the passes {got}; the compiler generates device code for {sorted(want)} (an architecture flag replaces the default architecture, whichever of its spellings is used)", loc)
    ctx.floor(8)


def _arg_label(a):
    """the name an argument expression goes by: x, obj.x, d['x'], d.get('x', ...)"""
    if isinstance(a, ast.Name):
        return a.id
    if isinstance(a, ast.Attribute):
        return a.attr
    if isinstance(a, ast.Subscript) and isinstance(a.slice, ast.Constant) and isinstance(a.slice.value, str):
        return a.slice.value
    if isinstance(a, ast.Call) and isinstance(a.func, ast.Attribute) and a.func.attr in ("get", "pop") and a.args and isinstance(a.args[0], ast.Constant) and isinstance(a.args[0].value, str):
        return a.args[0].value
    return None


def _misbound(labels, ps):
    return [(i, l) for i, l in enumerate(labels) if l in ps and i < len(ps) and ps[i] != l and ps.index(l) < len(labels) and labels[ps.index(l)] != l]


@rule("C12.R11", "in the configuration / compiler-emulation code, arguments are bound to the parameters they are named after: a value labelled with the name of one parameter is not passed in the position of another")
def r11(ctx):
    repo = ctx.repo
    # callee signatures by (unique) name: functions, and classes through __init__ or dataclass fields
    sigs = {}
    byname = {}
    for f in repo.all_functions():
        byname.setdefault(f.name, []).append(f)
    for name, fs in byname.items():
        if len(fs) == 1 and name != "__init__":
            a = fs[0].node.args
            ps = [x.arg for x in a.posonlyargs + a.args]
            if ps and ps[0] in ("self", "cls"):
                ps = ps[1:]
            sigs[name] = ps
    for m in repo.modules.values():
        for c in m.classes.values():
            init = c.methods.get("__init__")
            if init is not None:
                ps = [x.arg for x in init.node.args.posonlyargs + init.node.args.args][1:]
            else:
                ps = [s.target.id for s in c.node.body if isinstance(s, ast.AnnAssign) and isinstance(s.target, ast.Name)]
                for b in c.bases:
                    ps = [s.target.id for s in b.node.body if isinstance(s, ast.AnnAssign) and isinstance(s.target, ast.Name)] + ps
            if ps and c.name not in sigs:
                sigs[c.name] = ps
    n = 0
    for f in repo.all_functions():
        if f.module.short not in ("config", "finder", "platform", "__init__"):
            continue  # the token constructors of the preprocessor pass positional place-holders ('EXPANSION' for a line): out of this property's scope
        for call in f.calls():
            name = call.func.attr if isinstance(call.func, ast.Attribute) else call.func.id if isinstance(call.func, ast.Name) else None
            if name == "cls" and f.cls is not None:
                name = f.cls.name
            ps = sigs.get(name)
            if not ps or len(call.args) < 2 or any(isinstance(a, ast.Starred) for a in call.args):
                continue
            labels = [_arg_label(a) for a in call.args]
            if sum(1 for l in labels if l in ps) < 2:
                continue
            n += 1
            bad = _misbound(labels, ps)
            ctx.check(not bad, f"{f.key}:call:{name}:{','.join(str(l) for l in labels)}", f"`{u(call)[:90]}`: " + "; ".join(f"the value named `{l}` is passed as parameter `{ps[i]}`" for i, l in bad) + f" (parameters of {name}: {ps})", f.loc(call))
    ctx.stats["calls_with_named_positionals"] = n
    # the tree has (today) no such call in these modules: the rule is exercised on a built-in example on every run
    ps = ["name", "defines", "include_paths", "include_files"]
    good = ast.parse("P(t['name'], t.get('defines', []), t.get('include_paths', []), t.get('include_files', []))").body[0].value
    swapped = ast.parse("P(t['name'], t.get('defines', []), t.get('include_files', []), t.get('include_paths', []))").body[0].value
    if _misbound([_arg_label(a) for a in good.args], ps) or not _misbound([_arg_label(a) for a in swapped.args], ps):
        raise AnalysisError("C12.R11: built-in example not decided as expected")
    ctx.ok("self-example:correct-order-silent")
    ctx.ok("self-example:swapped-order-reported")
    ctx.floor(2)


@rule("C12.R12", "a compiler definition is taken over completely: custom parser actions resolved, modes and passes each indexed by name, independently of one another")
def r12(ctx):
    """Table specification of _Compiler.from_toml: for each of `modes` and `passes`, every path decides whether the
    definition has the key, and when it has, stores {x['name']: <Kind>.from_toml(x) for x in <that list>} under the key;
    each parser option whose action is the name of a custom action gets the action class."""
    from ..decision import Evaluator, Hooks, vtext
    from ..spec import vt

    repo = ctx.repo
    f = repo.cls("config", "_Compiler").find_method("from_toml")
    ctx.require(f is not None, "_Compiler.from_toml missing")
    t0 = f.params[1]

    class H(Hooks):
        unroll = 1

    paths = Evaluator(H()).paths(f.node)
    n = 0
    for p in paths:
        at = {vt(k): v for k, v in p.atoms.items()}
        stores = [(vt(e[1]), vt(e[2])) for e in p.effects if e[0] == "store"]
        for keyname, kind in (("modes", "_CompilerMode"), ("passes", "_CompilerPass")):
            present = next((v for k, v in at.items() if re.fullmatch(r"'" + keyname + r"' In " + re.escape(t0) + r"(\.copy\(\))?", k)), None)
            key = f"config:_Compiler.from_toml:{keyname}:present={'-' if present is None else int(present)}"
            n += 1
            if present is None:
                ctx.violation(key, f"a path builds the compiler without looking whether the definition has `{keyname}`: {[k for k in at if ' In ' in k]} - a definition with `{keyname}` (e.g. passes but no modes) keeps them as a raw list, and every selected pass/mode is then reported as unknown", f.loc())
                continue
            conv = [v for tgt, v in stores if tgt.endswith(f"['{keyname}']")]
            if present:
                ok = len(conv) == 1 and f"{kind}.from_toml(" in conv[0] and "['name']" in conv[0] and f"['{keyname}']" in conv[0]
                ctx.check(ok, key, f"`{keyname}` must be indexed by name as {{x['name']: {kind}.from_toml(x) ...}}: stores {conv}", f.loc())
            else:
                ctx.check(not conv, key, f"`{keyname}` is converted although absent: {conv}", f.loc())
        res = vt(p.result[1]) if p.result[0] == "return" else ""
        ctx.check(res.startswith("_Compiler(") or res.startswith("cls("), "config:_Compiler.from_toml:returns-compiler", f"returns {res[:60]}", f.loc())
    # custom actions: both names are mapped to their classes
    acts = {"store_split": "_StoreSplitAction", "extend_match": "_ExtendMatchAction"}
    for name, cls_ in acts.items():
        hit = any(at_k for p in paths for at_k, v in p.atoms.items() if v and f"'{name}' Eq " in at_k and any(e[0] == "store" and vt(e[2]) == cls_ and vt(e[1]).endswith("['action']") for e in p.effects))
        ctx.check(hit, f"config:_Compiler.from_toml:action:{name}", f"a parser option whose action is '{name}' must get the class {cls_}", f.loc())
    if n < 4:
        raise AnalysisError("_Compiler.from_toml: table too small")
    ctx.floor(6)


@rule("C12.R13", "the custom argparse actions: split / match the value, format it, and replace (store_split; extend_match with `override`, once) or extend (extend_match) the destination - passes keyed by the option's first flag")
def r13(ctx):
    """Table specification of _StoreSplitAction.__call__ and _ExtendMatchAction.__call__."""
    from ..spec import tab, vt

    repo = ctx.repo
    FMT = "comp:[string.Template(self.format).substitute(value=_c0) for _c0 in {src}]"
    # ---- store_split
    f = repo.cls("config", "_StoreSplitAction").find_method("__call__")
    vals = f.params[3]
    n = 0
    for p in tab(f, unroll=1):
        at = {vt(k): v for k, v in p.atoms.items()}
        if p.result[0] == "raise":
            continue
        fmt, passes = at.get("self.format"), next((v for k, v in at.items() if k in ("'passes' Eq self.dest", "self.dest Eq 'passes'")), None)
        key = f"config:_StoreSplitAction.__call__:format={fmt},passes={passes}"
        if fmt is None or passes is None:
            raise AnalysisError(f"_StoreSplitAction.__call__: row not recognised: {p.describe()[:160]}")
        src = f"{vals}.split(self.sep)"
        V = FMT.format(src=src) if fmt else src
        stores = [(vt(e[1]), vt(e[2])) for e in p.effects if e[0] == "store"]
        sets = [[vt(x) for x in e[2:]] for e in p.effects if e[0] == "call" and e[1] == "setattr"]
        n += 1
        if passes:
            ok = stores == [("namespace._passes[self.option_strings[0]]", V)] and not sets
        else:
            ok = sets == [["namespace", "self.dest", V]] and not stores
        ctx.check(ok, key, f"store_split must store the (formatted) pieces of the value - for `passes` under the option's first flag, otherwise in the destination: stores {stores}, setattr {sets}", f.loc())
    # ---- extend_match
    g = repo.cls("config", "_ExtendMatchAction").find_method("__call__")
    val = g.params[3]
    init = repo.cls("config", "_ExtendMatchAction").find_method("__init__")
    ok = any(isinstance(s, ast.Assign) and u(s.targets[0]) == "self.flag_name" and u(s.value) == f"{init.params[1]}[0]" for s in walk_no_nested(init.node))
    ctx.check(ok, "config:_ExtendMatchAction.__init__:flag_name", "the key under which an option's passes are kept must be its first flag", init.loc())
    for p in tab(g, unroll=1):
        at = {vt(k): v for k, v in p.atoms.items()}
        if p.result[0] == "raise":
            continue
        fmt, ovr = at.get("self.format"), at.get("self.override")
        passes = next((v for k, v in at.items() if k in ("'passes' Eq self.dest", "self.dest Eq 'passes'")), None)
        key = f"config:_ExtendMatchAction.__call__:format={fmt},passes={passes},override={ovr}"
        if fmt is None or passes is None or ovr is None:
            raise AnalysisError(f"_ExtendMatchAction.__call__: row not recognised: {p.describe()[:160]}")
        src = f"re.findall(self.pattern, {val})"
        M = FMT.format(src=src) if fmt else src
        stores = [(vt(e[1]), vt(e[2])) for e in p.effects if e[0] == "store"]
        calls = [(vt(e[1]), [vt(x) for x in e[2:]]) for e in p.effects if e[0] == "call"]
        n += 1
        K = "namespace._passes[self.flag_name]"
        if passes and ovr:
            final = [v for t, v in stores if t == K]
            ok = bool(final) and final[-1] == M and ("self.override", "False") in stores and not [c for c in calls if c[0].endswith(".extend")]
            why = "with `override`, the first use replaces what the option held (its default) and switches `override` off, so that later uses extend"
        elif passes:
            ok = [c for c in calls if c[0] == f"{K}.extend"] == [(f"{K}.extend", [M])] and all(t != K or v == "[]" for t, v in stores) and ("self.override", "False") not in stores
            why = "without `override`, the matches are appended to what the option already holds"
        elif ovr:
            ok = [c for c in calls if c[0] == "setattr"] == [("setattr", ["namespace", "self.dest", M])] or [v for t, v in stores if t in ("vars(namespace)[self.dest]", "namespace.__dict__[self.dest]")] == [M]
            why = "with `override`, the destination is replaced by the matches"
        else:
            ext = [c for c in calls if c[0].endswith(".extend")]
            ok = len(ext) == 1 and ext[0][1] == [M] and ext[0][0] in ("getattr(namespace, self.dest).extend", "namespace.self.dest.extend", "vars(namespace)[self.dest].extend", "namespace.__dict__[self.dest].extend") and not [c for c in calls if c[0] == "setattr"]
            why = "the matches are appended to the destination, after what is already there (command-line order)"
        ctx.check(ok, key, f"extend_match: {why}: stores {stores}, calls {calls}", g.loc())
    if n < 10:
        raise AnalysisError(f"custom actions: only {n} rows recognised")
    ctx.floor(10)


@rule("C12.R14", "_load_compilers publishes the table it built on every normal exit (whole-function must-pass-through)")
def r14(ctx):
    """The compiler definitions are collected into a table that ArgumentParser reads from the module variable
    `_compilers`.  Whatever container the loader fills, every path to a normal exit (each early `return` of the user
    configuration part included) must have (re)bound `_compilers`, and - when the loader fills a local container -
    must pass through the statement that publishes that container; otherwise an exit leaves None (first use: every
    compiler crashes) or the previous project's table (its options and aliases leak)."""
    from ..cfg import cfg_of

    repo = ctx.repo
    lc = repo.func("config", "_load_compilers")
    cfg = cfg_of(lc)
    glob = {n for s in lc.body_nodes() if isinstance(s, ast.Global) for n in s.names}
    fills = {}
    for s in lc.body_nodes():
        if isinstance(s, ast.Assign) and isinstance(s.targets[0], ast.Subscript) and isinstance(s.value, ast.Call) and u(s.value.func).endswith("from_toml") and isinstance(s.targets[0].value, ast.Name):
            fills.setdefault(s.targets[0].value.id, []).append(s)
    if not fills:
        raise AnalysisError("_load_compilers: no `<table>[name] = _Compiler.from_toml(...)` found")
    binds = [s for s in lc.body_nodes() if isinstance(s, ast.Assign) and any(isinstance(t, ast.Name) and t.id == "_compilers" for t in s.targets)]
    ctx.check("_compilers" in glob, "config:_load_compilers:publishes:global", "`_compilers` is not declared global in the loader: what it builds stays local", lc.loc())
    bind_nodes = {cfg.node_of(s) for s in binds} - {None}
    ok = bool(bind_nodes) and cfg.all_paths_through(cfg.entry, {cfg.exit}, bind_nodes)
    ctx.check(ok, "config:_load_compilers:publishes:every-exit-rebinds", "a normal exit of the loader is reachable without `_compilers` having been (re)bound: the table of a previous load (another project's user configuration) stays in effect", lc.loc())
    for name, stmts in sorted(fills.items()):
        if name == "_compilers":
            ctx.ok("config:_load_compilers:publishes:_compilers")
            continue
        pub = [s for s in binds if isinstance(s.value, ast.Name) and s.value.id == name]
        pub_nodes = {cfg.node_of(s) for s in pub} - {None}
        ok = bool(pub_nodes) and cfg.all_paths_through(cfg.entry, {cfg.exit}, pub_nodes)
        rets = [s for s in lc.body_nodes() if isinstance(s, ast.Return)]
        bad = [s for s in rets if not pub_nodes or not cfg.all_paths_through(cfg.entry, {cfg.node_of(s)}, pub_nodes)]
        ctx.check(ok, f"config:_load_compilers:publishes:{name}", f"the definitions are collected in the local `{name}` and published by `{u(pub[0]) if pub else '(nothing)'}`, which the exit(s) at line(s) {[s.lineno for s in bad][:4]} do not pass through: after such an exit `_compilers` is None (every compiler lookup crashes) or still holds the previous load", lc.loc(bad[0] if bad else None))
    ctx.floor(3)
