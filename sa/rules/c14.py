"""C14 - results are deterministic and independent of enumeration order (ORDER taint)."""

from __future__ import annotations

import ast

from ..model import u
from ..run import rule
from ..taint import CLEAN, NAMES, SEQ, SET, VAL, OrderTaint, injective_key

MODULES = ("report", "__init__", "finder", "coverage.__main__", "tree", "__main__")
API_RETURNS = (
    "report:find_duplicates", "report:coverage", "report:average_coverage", "report:distance", "report:divergence",
    "__init__:CodeBase.__iter__",
)


@rule("C14.R1", "no value whose order depends on hashing / directory enumeration / dict insertion reaches an observable unsorted")
def r1(ctx):
    repo = ctx.repo
    eng = OrderTaint(repo, MODULES, API_RETURNS)
    ctx.stats["functions_analysed"] = len(eng.funcs)
    ctx.stats["fixpoint_rounds"] = eng.rounds
    ctx.stats["summaries"] = {k: NAMES[s.ret] for k, s in eng.summ.items() if s.ret != CLEAN}
    ctx.stats["fields"] = {k: NAMES[v] for k, v in eng.fields.items() if v != CLEAN}
    for f in eng.funcs:
        ctx.note(f.key)
    # generator API: CodeBase.__iter__ must yield in a total order
    it = eng.summ.get("__init__:CodeBase.__iter__")
    ctx.check(it is not None and it.ret == CLEAN, "__init__:CodeBase.__iter__:sorted-enumeration", "the code base is enumerated in file-system order (rglob) or by a non-injective sort key: every report that lists or inserts files in enumeration order (tree rows, coverage export, duplicate groups) changes between runs", repo.func("__init__", "CodeBase.__iter__").loc())
    for key, fd in sorted(eng.findings.items()):
        ctx.violation(key, fd.detail, fd.f.loc(fd.node))
    # obligations: every sink statement inspected
    sinks = 0
    for f in eng.funcs:
        for c in f.calls():
            d = u(c.func)
            if d == "print" or d.endswith(".write") or d in ("json.dump", "tabulate"):
                sinks += 1
                k = f"{f.key}:sink:{u(c)[:60]}"
                if not any(fd.node is c for fd in eng.findings.values()):
                    ctx.ok(k)
    ctx.stats["sinks_inspected"] = sinks
    # positive control: the engine must see extract_platforms as order-dependent and sorted() as a sanitiser
    ep = eng.summ.get("report:extract_platforms")
    ctx.require(ep is not None and ep.ret == SEQ, "positive control lost: extract_platforms (list(set(...))) must be classified as arbitrarily ordered")
    ctx.require(injective_key(None) and not injective_key(ast.parse("len").body[0].value), "positive control lost: key=len must be non-injective")
    ctx.floor(10)
