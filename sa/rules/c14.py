"""C14 - results are deterministic and independent of enumeration order (ORDER taint)."""

from __future__ import annotations

import ast

from ..model import u
from ..run import rule
from ..taint import CLEAN, NAMES, SEQ, SET, VAL, OrderTaint, injective_key

MODULES = ("report", "__init__", "finder", "coverage.__main__", "tree", "__main__")
API_RETURNS = (
    "report:find_duplicates", "report:coverage", "report:average_coverage", "report:distance", "report:divergence",
    "__init__:CodeBase.__iter__",
)


@rule("C14.R1", "no value whose order depends on hashing / directory enumeration / dict insertion reaches an observable unsorted")
def r1(ctx):
    repo = ctx.repo
    eng = OrderTaint(repo, MODULES, API_RETURNS)
    ctx.stats["functions_analysed"] = len(eng.funcs)
    ctx.stats["fixpoint_rounds"] = eng.rounds
    ctx.stats["summaries"] = {k: NAMES[s.ret] for k, s in eng.summ.items() if s.ret != CLEAN}
    ctx.stats["fields"] = {k: NAMES[v] for k, v in eng.fields.items() if v != CLEAN}
    for f in eng.funcs:
        ctx.note(f.key)
    # generator API: CodeBase.__iter__ must yield in a total order
    it = eng.summ.get("__init__:CodeBase.__iter__")
    ctx.check(it is not None and it.ret == CLEAN, "__init__:CodeBase.__iter__:sorted-enumeration", "the code base is enumerated in file-system order (rglob) or by a non-injective sort key: every report that lists or inserts files in enumeration order (tree rows, coverage export, duplicate groups) changes between runs", repo.func("__init__", "CodeBase.__iter__").loc())
    for key, fd in sorted(eng.findings.items()):
        ctx.violation(key, fd.detail, fd.f.loc(fd.node))
    # obligations: every sink statement inspected
    sinks = 0
    for f in eng.funcs:
        for c in f.calls():
            d = u(c.func)
            if d == "print" or d.endswith(".write") or d in ("json.dump", "tabulate"):
                sinks += 1
                k = f"{f.key}:sink:{u(c)[:60]}"
                if not any(fd.node is c for fd in eng.findings.values()):
                    ctx.ok(k)
    ctx.stats["sinks_inspected"] = sinks
    # positive control: the engine must see extract_platforms as order-dependent and sorted() as a sanitiser
    ep = eng.summ.get("report:extract_platforms")
    ctx.require(ep is not None and ep.ret == SEQ, "positive control lost: extract_platforms (list(set(...))) must be classified as arbitrarily ordered")
    ctx.require(injective_key(None) and not injective_key(ast.parse("len").body[0].value), "positive control lost: key=len must be non-injective")
    ctx.floor(10)


@rule("C14.R7", "modes are applied in set order: no two modes of one compiler may give one macro different definitions or both add search directories / forced includes")
def r7(ctx):
    """parse_args() turns the active modes into a set and applies them in iteration (hash) order; each mode's defines /
    include_paths / include_files are appended in that order and Platform.define keeps the FIRST definition of a name,
    include search takes the FIRST directory that has the file.  The outcome is independent of the hash seed exactly
    when the compiler definitions never let two modes of one compiler disagree: this rule decides that on the data
    files (and is moot - reported as such - when the code applies the modes in a sorted order)."""
    import re as _re

    from .c12 import _compiler_defs

    repo = ctx.repo
    pa = repo.cls("config", "ArgumentParser").find_method("parse_args")
    set_order = any(isinstance(n, ast.Assign) and isinstance(n.value, ast.Call) and u(n.value.func) in ("set", "frozenset") and "modes" in u(n.targets[0]) for n in pa.body_nodes())
    sorted_loop = any(isinstance(n, ast.For) and isinstance(n.iter, ast.Call) and u(n.iter.func) == "sorted" and "modes" in u(n.iter) for n in pa.body_nodes())
    if not set_order or sorted_loop:
        ctx.ok("config:ArgumentParser.parse_args:modes-order", "modes are not applied in set order")
        ctx.floor(1)
        return
    # a loop over the set of modes that stops early applies whichever modes come first in hash order
    set_names = {u(n.targets[0]) for n in pa.body_nodes() if isinstance(n, ast.Assign) and isinstance(n.value, ast.Call) and u(n.value.func) in ("set", "frozenset") and "modes" in u(n.targets[0])}
    alias = set(set_names)
    for n_ in pa.body_nodes():
        if isinstance(n_, ast.Assign) and len(n_.targets) == 1 and isinstance(n_.targets[0], ast.Name) and u(n_.value) in alias:
            alias.add(n_.targets[0].id)
    for lp in [x for x in pa.body_nodes() if isinstance(x, ast.For) and u(x.iter) in alias]:
        def exits(body, in_inner):
            for st_ in body:
                if isinstance(st_, (ast.FunctionDef, ast.AsyncFunctionDef, ast.ClassDef)):
                    continue
                if isinstance(st_, ast.Return) or (isinstance(st_, ast.Break) and not in_inner):
                    yield st_
                for fld in ("body", "orelse", "finalbody"):
                    yield from exits(getattr(st_, fld, []) or [], in_inner or isinstance(st_, (ast.For, ast.While)))
                for h in getattr(st_, "handlers", []) or []:
                    yield from exits(h.body, in_inner)
        early = list(exits(lp.body, False))
        ctx.check(not early, f"config:ArgumentParser.parse_args:modes-loop:{u(lp.target)}:no-early-exit", f"the loop over the set `{u(lp.iter)}` leaves early (`{u(early[0]) if early else ''}`): the modes that follow in hash order are not applied, so the configuration depends on PYTHONHASHSEED", pa.loc(early[0] if early else lp))
    n = 0
    for fname, t in _compiler_defs(repo).items():
        for cname, c in t.get("compiler", {}).items():
            modes = c.get("modes", [])
            for i, a in enumerate(modes):
                for b in modes[i + 1 :]:
                    n += 1
                    da = {_re.split(r"[=(]", d, maxsplit=1)[0]: d for d in a.get("defines", [])}
                    db = {_re.split(r"[=(]", d, maxsplit=1)[0]: d for d in b.get("defines", [])}
                    clash = sorted(k for k in da if k in db and da[k] != db[k])
                    key = f"compilers/{fname}.toml:{cname}:modes:{a.get('name')}+{b.get('name')}"
                    ctx.check(not clash, key + ":defines", f"modes `{a.get('name')}` and `{b.get('name')}` of {cname} define {clash} differently ({[da[k] for k in clash]} vs {[db[k] for k in clash]}); the active modes are applied in set (hash) order and the first definition wins, so with both flags on one command line the macro's value depends on PYTHONHASHSEED", f"codebasin/compilers/{fname}.toml")
                    for fld in ("include_paths", "include_files"):
                        both = a.get(fld) and b.get(fld) and a.get(fld) != b.get(fld)
                        ctx.check(not both, key + ":" + fld, f"modes `{a.get('name')}` and `{b.get('name')}` of {cname} both add {fld}; their relative order follows set iteration (hash order)", f"codebasin/compilers/{fname}.toml")
    ctx.stats["mode_pairs"] = n
    ctx.floor(1)
