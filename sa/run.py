"""M8 - rule registry, obligations, known findings, evidence, exit codes."""

from __future__ import annotations

import hashlib
import json
import os
import re
import sys
import time
import traceback
from dataclasses import dataclass, field

from .model import AnalysisError, Repo

VERIF = os.path.dirname(os.path.dirname(os.path.abspath(__file__)))
KNOWN_FILE = os.path.join(VERIF, "KNOWN_FINDINGS.txt")


@dataclass
class Obligation:
    rule: str
    key: str  # instance key: module:qualname:construct (never a line number)
    status: str  # ok | violation
    msg: str = ""
    loc: str = ""
    detail: dict = field(default_factory=dict)


def _functions_of(obligations):
    """the functions / data files the rule instances are about (`module:qualname` prefix of the instance keys)"""
    out = set()
    for o in obligations:
        parts = str(o.key).split(":")
        if len(parts) >= 2 and parts[0] and parts[1]:
            out.add(f"{parts[0]}:{parts[1]}")
    return out


def _table_stats(repo):
    """decision tables extracted during this run: function -> rows (paths) at the deepest unrolling used"""
    try:
        from . import review

        out = {}
        for key, t in review._cache.items():
            if repo is None or key[0] != repo.root or isinstance(t, Exception):
                continue
            out[key[1]] = max(out.get(key[1], 0), len(t))
        return {"functions": len(out), "rows": sum(out.values()), "largest": dict(sorted(out.items(), key=lambda kv: -kv[1])[:12])}
    except Exception:
        return {}


class Ctx:
    """Handed to every rule function."""

    def __init__(self, repo: Repo, rule_id: str, tier: str):
        self.repo = repo
        self.rule = rule_id
        self.tier = tier
        self.obligations: list[Obligation] = []
        self.analysed: list[str] = []  # functions / tables / paths looked at
        self.stats: dict = {}
        self.unrecognised: list[str] = []

    def ok(self, key, msg="", loc="", **detail):
        self.obligations.append(Obligation(self.rule, key, "ok", msg, loc, detail))

    # rules whose instances are rows of a decision table checked against a stated contract: indifferent to how the
    # function is written, so they keep their verdict on a re-written function
    TABLE_SPECS = {"C03.R13", "C09.R2", "C16.R6", "C02.R7", "C01.R10", "C02.R12", "C01.R14", "C08.R5", "C07.R5", "C06.R5", "C01.R4", "C02.R3", "C02.R4", "C12.R14", "C02.R6", "C17.R3", "C07.R2", "C12.R4", "C06.R4", "C04.R4", "C03.R11", "C08.R6", "C11.R9", "C18.R8", "C06.R1", "C06.R2", "C06.R6", "C12.R1", "C12.R2", "C12.R5", "C12.R10", "C12.R11",
                   "C04.R1", "C01.R13", "C17.R7", "C04.R2", "C13.R8", "C14.R4", "C04.R3", "C17.R5", "C04.R6", "C18.R7", "C01.R2", "C02.R9", "C01.R6", "C02.R11", "C03.R8", "C12.R12", "C12.R13", "C11.R11", "C18.R11", "C04.R11", "C09.R2", "C16.R6", "C07.R1", "C05.R0", "C03.R3", "C16.R2", "C07.R4", "C18.R4", "C13.R2", "C04.R10", "C06.R10", "C11.R10", "C13.R4", "C13.R7", "C08.R7", "C11.R6", "C12.R7", "C18.R3", "C09.R1", "C06.R7", "C16.R5", "C11.R5", "C13.R1"}

    # census rules: they list every construct of a kind in the package (a store to a shared object, a shrinking operation
    # on an association map, an order-dependent value reaching an output ...).  What they find is a fact about a
    # statement, whatever the style of the function around it; only a function the snapshot does not know at all may
    # be a moved piece of an allowed writer
    CENSUS = {"C15.R1", "C08.R2", "C08.R3", "C04.R8", "C12.R6", "C14.R3", "C18.R6", "C18.R12", "C08.R4", "C08.R8", "C14.R1", "C16.R1", "C16.R3", "C10.R1", "C15.R1", "C15.R2"}

    def violation(self, key, msg, loc="", **detail):
        if self.rule not in self.TABLE_SPECS:
            try:
                from .review import rewritten

                if rewritten(self.repo, key, new_only=self.rule in self.CENSUS):
                    self.unrecognised.append(f"{key} @ {loc}: the function was re-written since it was reviewed and this rule reads its shape: needs re-review ({msg[:160]})")
                    return
            except Exception:
                pass
        self.obligations.append(Obligation(self.rule, key, "violation", msg, loc, detail))

    def check(self, cond, key, msg, loc="", **detail):
        if cond:
            self.ok(key, "", loc, **detail)
        else:
            self.violation(key, msg, loc, **detail)
        return cond

    def soft(self, cond, key, msg, loc="", **detail):
        """A check of the *shape* of the code (a textual / structural pattern).  When the pattern is not
        found the code may have been restructured without changing behaviour, so this is reported as
        'not understood' (ANALYSIS-ERROR, exit 2), never as a violation; behavioural changes at the same
        place are the business of the table-based rules and of RX."""
        if cond:
            self.ok(key, "", loc, **detail)
        else:
            self.unrecognised.append(f"{key} @ {loc}: expected shape not found - {msg[:200]}")
        return cond

    def note(self, what):
        self.analysed.append(what)

    def floor(self, n, what="instances"):
        """Instance floor: fewer instances than confirmed by hand means the
        rule lost its anchor (would pass vacuously) -> analysis error."""
        have = len(self.obligations)
        # the floor is the count confirmed by hand on the reviewed tree; a refactoring may legitimately merge
        # a few instances (fewer table paths, merged call sites), a vanished anchor loses (nearly) all of them
        n = max(1, (n * 3) // 5)
        if have < n:
            raise AnalysisError(
                f"{self.rule}: only {have} {what} found, floor is {n} (rule would pass vacuously)"
            )

    def require(self, cond, msg):
        if not cond:
            raise AnalysisError(f"{self.rule}: {msg}")


@dataclass
class Rule:
    id: str
    prop: str
    title: str
    fn: object
    tier: str = "quick"  # quick rules run in both tiers; thorough only in thorough


REGISTRY: list[Rule] = []


def rule(rule_id, title, tier="quick"):
    prop = rule_id.split(".")[0]

    def deco(fn):
        REGISTRY.append(Rule(rule_id, prop, title, fn, tier))
        return fn

    return deco


# ----------------------------------------------------------------------
# known findings


@dataclass
class Known:
    kind: str  # known | fixed
    prop: str
    rule: str
    key: str
    text: str
    used: bool = False


def load_known():
    out = []
    if not os.path.exists(KNOWN_FILE):
        return out
    for line in open(KNOWN_FILE, encoding="utf-8"):
        line = line.strip()
        if not line or line.startswith("#"):
            continue
        m = re.match(r"known: property=(\S+) rule=(\S+) key=(.*?) :: (.*)$", line)
        if m:
            out.append(Known("known", m.group(1), m.group(2), m.group(3).strip(), m.group(4)))
            continue
        m = re.match(r"fixed: property=(\S+) (\S+) (.*)$", line)
        if m:
            out.append(Known("fixed", m.group(1), "", "", m.group(3)))
            continue
        raise AnalysisError(f"KNOWN_FINDINGS.txt: unparsable line: {line}")
    return out


# ----------------------------------------------------------------------


def run_property(prop: str, tier: str, root=None, replay=None, quiet=False, write_evidence=True):
    t0 = time.time()
    seed = int(os.environ.get("VERIF_SEED", "0") or 0)
    out = []

    def emit(s):
        out.append(s)
        if not quiet:
            print(s, flush=True)

    analysis_errors = []
    obligations: list[Obligation] = []
    analysed = []
    rule_stats = {}
    repo = None
    try:
        repo = Repo(root)
        from . import rules  # noqa: F401  (registers)

        rules.load_all()
        todo = [r for r in REGISTRY if r.prop == prop and (tier == "thorough" or r.tier == "quick")]
        if not todo:
            raise AnalysisError(f"no rules registered for {prop}")
        only = None
        if replay:
            rec = json.load(open(replay))
            only = (rec["rule"], rec["key"])
            todo = [r for r in todo if r.id == rec["rule"]]
        for r in todo:
            ctx = Ctx(repo, r.id, tier)
            try:
                r.fn(ctx)
            except AnalysisError as e:
                if type(e).__name__ == "ExternalDependence":
                    # the extracted scanner is not a function of its lexical state: a finding about the code, not about the analysis
                    ctx.violation("file_source:" + e.key, str(e), "codebasin/file_source.py")
                else:
                    analysis_errors.append(f"{r.id}: {e}")
            except RecursionError as e:  # pragma: no cover
                analysis_errors.append(f"{r.id}: recursion limit in engine: {e}")
            except Exception as e:
                tb = traceback.format_exc(limit=6)
                analysis_errors.append(f"{r.id}: internal error {type(e).__name__}: {e}\n{tb}")
            for x in ctx.unrecognised:
                analysis_errors.append(f"{r.id}: {x}")
            obs = ctx.obligations
            if only:
                obs = [o for o in obs if o.key == only[1]]
            obligations.extend(obs)
            analysed.extend(ctx.analysed)
            rule_stats[r.id] = {
                "title": r.title,
                "obligations": len(obs),
                "violations": sum(1 for o in obs if o.status == "violation"),
                **ctx.stats,
            }
    except AnalysisError as e:
        analysis_errors.append(str(e))

    known = []
    try:
        known = load_known()
    except AnalysisError as e:
        analysis_errors.append(str(e))

    viols = [o for o in obligations if o.status == "violation"]
    new_viols, known_hits = [], []
    for o in viols:
        hit = None
        for k in known:
            if k.kind == "known" and k.prop == prop and k.rule == o.rule and k.key == o.key:
                hit = k
                break
        if hit:
            hit.used = True
            known_hits.append((o, hit))
        else:
            new_viols.append(o)

    replay_dir = os.path.join(VERIF, "evidence", "replay", prop)
    if write_evidence and new_viols:
        os.makedirs(replay_dir, exist_ok=True)
    for o, k in known_hits:
        emit(f"KNOWN-FINDING: property={prop} {o.rule} {o.key} :: {k.text}")
    seen_paths = set()
    for o in new_viols:
        h = hashlib.sha1(f"{o.rule}|{o.key}".encode()).hexdigest()[:10]
        path = os.path.join(replay_dir, f"{o.rule}-{h}.json")
        if write_evidence and path not in seen_paths:
            seen_paths.add(path)
            with open(path, "w") as f:
                json.dump(
                    {
                        "property": prop,
                        "rule": o.rule,
                        "key": o.key,
                        "loc": o.loc,
                        "msg": o.msg,
                        "detail": o.detail,
                    },
                    f,
                    indent=1,
                    default=str,
                )
        emit(f"  {o.loc or '-'}: [{o.rule}] {o.key}: {o.msg}")
        emit(f"VIOLATION property={prop} replay={path}")
    for e in analysis_errors:
        emit(f"ANALYSIS-ERROR property={prop} {e}")

    # stale known entries are reported (not fatal): the finding disappeared
    stale = [k for k in known if k.kind == "known" and k.prop == prop and not k.used]
    if not replay and not analysis_errors:
        for k in stale:
            emit(f"NOTE: known finding no longer reproduced: {k.rule} {k.key}")

    wall = time.time() - t0
    distinct = len({(o.rule, o.key) for o in obligations})
    samples = []
    for o in obligations[:: max(1, len(obligations) // 12)][:14]:
        samples.append({"rule": o.rule, "instance": o.key, "loc": o.loc, "status": o.status, **({"msg": o.msg} if o.msg else {})})
    ev = {
        "property_id": prop,
        "tier": tier,
        "seed": seed,
        "level": "other",
        "coverage": {
            "explanation": (
                "Static analysis of /repo's working tree (ast, call graph, CFG, decision tables, "
                "extracted automata, taint); each obligation is one rule instance (a construct of the "
                "source the rule was applied to). No repository code is imported or executed."
            ),
            "obligations": len(obligations),
            "discharged": sum(1 for o in obligations if o.status == "ok") + len(known_hits),
            "evaluations": max(1, len(obligations)),
            "distinct_nontrivial": distinct,
            "rule": "one evaluation per rule instance keyed module:function:construct; distinct = distinct (rule,key) pairs; every instance is a real construct of the analysed tree, none is synthetic",
            "samples": samples or [{"note": "no obligations produced"}],
            "rules": rule_stats,
            "analysed": sorted(set(analysed) | _functions_of(obligations))[:600],
            "decision_tables": _table_stats(repo),
            "files_sha256": (repo.consulted if repo else {}),
            "known_findings": [f"{o.rule} {o.key}" for o, _ in known_hits],
            "new_violations": [f"{o.rule} {o.key} @ {o.loc}: {o.msg}" for o in new_viols],
            "analysis_errors": analysis_errors,
            "root": (repo.root if repo else None),
            "exhaustive": False,
        },
        "assumptions": [
            "python ast/tomllib parse the tree as the interpreter would",
            "reference tables in /verif/sa (C grammar, scanner automata, numpy promotion, argparse matching) are correct",
            "duck-typed calls resolve to every package class defining the method (over-approximation)",
        ],
        "wall_s": round(wall, 3),
        "violations": len(new_viols),
    }
    if write_evidence and not replay:
        os.makedirs(os.path.join(VERIF, "evidence"), exist_ok=True)
        with open(os.path.join(VERIF, "evidence", f"{prop}.json"), "w") as f:
            json.dump(ev, f, indent=1, default=str)
    code = 1 if new_viols else (2 if analysis_errors else 0)
    if not quiet:
        print(
            f"{prop} [{tier}] rules={len(rule_stats)} obligations={len(obligations)} "
            f"known={len(known_hits)} violations={len(new_viols)} analysis_errors={len(analysis_errors)} "
            f"wall={wall:.2f}s exit={code}",
            flush=True,
        )
    return code, ev, out, new_viols, known_hits, analysis_errors


def main(argv=None):
    import argparse

    ap = argparse.ArgumentParser(prog="check")
    ap.add_argument("property")
    ap.add_argument("--tier", default=os.environ.get("VERIF_TIER", "quick"), choices=["quick", "thorough"])
    ap.add_argument("--root", default=None)
    ap.add_argument("--replay", default=None)
    args = ap.parse_args(argv)
    try:
        code, ev, *_ = run_property(args.property, args.tier, root=args.root, replay=args.replay)
        if args.tier == "thorough" and not args.replay and code == 0:
            from . import selftest

            st_code = selftest.run_for(args.property, ev)
            code = st_code if st_code else code
    except Exception as e:  # fail closed, but never look like a violation
        print(f"ANALYSIS-ERROR property={args.property} internal: {type(e).__name__}: {e}")
        traceback.print_exc()
        code = 2
    sys.stdout.flush()
    return code
