"""M1 - resolved call graph over the package.

Resolution (all by syntax + the module model, no types available):
  * plain names  -> module function / imported function / class constructor;
  * self.m(...)  -> method through the MRO of the enclosing class, plus
    overriding methods of package subclasses;
  * alias.f(...) -> via the module's import table (module or class);
  * anything.m(...) where the receiver is not resolved -> *dispatch set*:
    every package class defining a method called m (over-approximation);
    names that are common stdlib container/str/path methods are excluded from
    duck dispatch unless a package class defines them AND the receiver is not a
    literal / known-local container.
"""

from __future__ import annotations

import ast

from .model import FuncInfo, Repo, dotted, u

# Builtin container / str constructors: a local bound to one of these is never
# a package object, so attribute calls on it are not duck-dispatched.
BUILTIN_CTORS = {
    "list", "dict", "set", "frozenset", "tuple", "str", "sorted", "reversed",
    "collections.defaultdict", "defaultdict", "open", "iter", "enumerate", "zip",
}
LOGGER_NAMES = {"log", "logger", "logging"}


class CallGraph:
    def __new__(cls, repo: Repo):
        cg = getattr(repo, "_callgraph", None)
        if cg is not None:
            return cg
        cg = super().__new__(cls)
        cg._built = False
        repo._callgraph = cg
        return cg

    def __init__(self, repo: Repo):
        if self._built:
            return
        self._built = True
        self.repo = repo
        self.by_method: dict[str, list[FuncInfo]] = {}
        for f in repo.all_functions():
            if f.cls is not None and f.parent is None:
                self.by_method.setdefault(f.name, []).append(f)
        self.edges: dict[str, set[str]] = {}
        self.sites: dict[str, list] = {}  # callee key -> [(caller FuncInfo, call node)]
        self.funcs: dict[str, FuncInfo] = {f.key: f for f in repo.all_functions()}
        for f in repo.all_functions():
            self.edges.setdefault(f.key, set())
            for call in f.calls():
                for t in self.resolve(f, call):
                    self.edges[f.key].add(t.key)
                    self.sites.setdefault(t.key, []).append((f, call))
            # a nested function is reachable from its parent (passed as callback)
            for g in repo.all_functions():
                if g.parent is f:
                    self.edges[f.key].add(g.key)

    # ------------------------------------------------------------------
    def resolve(self, caller: FuncInfo, call: ast.Call, duck=True):
        repo = self.repo
        m = caller.module
        fn = call.func
        out = []
        if isinstance(fn, ast.Name):
            name = fn.id
            # nested function of the caller (or of its parents)
            p = caller
            while p is not None:
                q = p.qualname + "." + name
                if q in m.functions:
                    return [m.functions[q]]
                p = p.parent
            if name in m.functions:
                return [m.functions[name]]
            if name in m.classes:
                init = m.classes[name].find_method("__init__")
                return [init] if init else []
            if name in m.imports:
                t = repo._func_by_dotted(m.imports[name])
                if t:
                    return [t]
                c = repo._class_by_dotted(m.imports[name])
                if c:
                    init = c.find_method("__init__")
                    return [init] if init else []
            return []
        if isinstance(fn, ast.Attribute):
            attr = fn.attr
            recv = fn.value
            d = dotted(recv)
            # self.m / cls.m
            if d in ("self", "cls") and caller.cls is not None:
                tgt = caller.cls.find_method(attr)
                if tgt:
                    out.append(tgt)
                for sc in repo.subclasses(caller.cls, strict=True):
                    if attr in sc.methods and sc.methods[attr] not in out:
                        out.append(sc.methods[attr])
                if out:
                    return out
            # super().m
            if isinstance(recv, ast.Call) and u(recv.func) == "super" and caller.cls is not None:
                for b in caller.cls.mro()[1:]:
                    if attr in b.methods:
                        return [b.methods[attr]]
                return []
            if d is not None:
                head = d.split(".")[0]
                # Class.m or module.f or module.Class
                c = repo.resolve_class(m, d)
                if c is not None:
                    tgt = c.find_method(attr)
                    return [tgt] if tgt else []
                if head in m.imports and head not in _locals(caller):
                    target = m.imports[head] + d[len(head):] + "." + attr
                    t = repo._func_by_dotted(target)
                    if t:
                        return [t]
                    c = repo._class_by_dotted(target)
                    if c:
                        init = c.find_method("__init__")
                        return [init] if init else []
                    if target.split(".")[0] != repo.PKG:
                        return []  # external library
                # receiver is a constructor call result bound locally?  (x = K(...); x.m())
                k = _local_ctor(caller, head, repo)
                if k is not None and d == head:
                    tgt = k.find_method(attr)
                    return [tgt] if tgt else []
            if isinstance(recv, ast.Call):
                # K(...).m(...)
                rc = self.resolve(caller, recv, duck=False)
                for t in rc:
                    if t.name == "__init__" and t.cls is not None:
                        tgt = t.cls.find_method(attr)
                        if tgt:
                            return [tgt]
            if duck and attr in self.by_method:
                if d is not None and (d.split(".")[0] in LOGGER_NAMES or _builtin_local(caller, d)):
                    return []
                if isinstance(recv, (ast.Constant, ast.List, ast.Dict, ast.Set, ast.JoinedStr, ast.ListComp)):
                    return []
                nargs = len(call.args) + len(call.keywords)
                return [t for t in self.by_method[attr] if _arity_ok(t, nargs, call)]
        return out

    # ------------------------------------------------------------------
    def reachable(self, start_keys, stop=()):
        seen = set()
        work = list(start_keys)
        while work:
            k = work.pop()
            if k in seen or k in stop:
                continue
            seen.add(k)
            work.extend(self.edges.get(k, ()))
        return seen

    def callers_of(self, key):
        return self.sites.get(key, [])


def _locals(f: FuncInfo):
    names = set(f.params)
    for n in f.body_nodes():
        if isinstance(n, ast.Name) and isinstance(n.ctx, ast.Store):
            names.add(n.id)
    return names


def _local_ctor(f: FuncInfo, name, repo):
    for n in f.body_nodes():
        if isinstance(n, ast.Assign) and len(n.targets) == 1 and isinstance(n.targets[0], ast.Name):
            if n.targets[0].id == name and isinstance(n.value, ast.Call):
                d = dotted(n.value.func)
                if d:
                    c = repo.resolve_class(f.module, d)
                    if c:
                        return c
    return None


def _param_annotation(f: FuncInfo, name):
    a = f.node.args
    for p in a.posonlyargs + a.args + a.kwonlyargs:
        if p.arg == name and p.annotation is not None:
            return u(p.annotation).split("|")[0].strip()
    return None


def _builtin_local(f: FuncInfo, d):
    """True when the receiver spelling `d` is a local bound only to builtin
    container/str values in f."""
    if "." in d:
        return False
    vals = []
    for n in f.body_nodes():
        if isinstance(n, ast.Assign):
            for t in n.targets:
                if isinstance(t, ast.Name) and t.id == d:
                    vals.append(n.value)
        elif isinstance(n, ast.AugAssign) and isinstance(n.target, ast.Name) and n.target.id == d:
            vals.append(n.value)
    if not vals:
        return False
    for v in vals:
        if isinstance(v, (ast.List, ast.Dict, ast.Set, ast.Tuple, ast.ListComp, ast.DictComp, ast.SetComp, ast.JoinedStr)):
            continue
        if isinstance(v, ast.Constant) and isinstance(v.value, (str, bytes, int, float)):
            continue
        if isinstance(v, ast.Call) and (dotted(v.func) or "") in BUILTIN_CTORS:
            continue
        if isinstance(v, ast.BinOp):
            continue
        return False
    return True


def _arity_ok(t: FuncInfo, nargs, call):
    a = t.node.args
    params = [x.arg for x in a.posonlyargs + a.args]
    if params and params[0] in ("self", "cls") and not t.is_static():
        params = params[1:]
    if any(isinstance(x, ast.Starred) for x in call.args) or any(k.arg is None for k in call.keywords):
        return True
    maxp = len(params) + len(a.kwonlyargs)
    if a.vararg is not None or a.kwarg is not None:
        maxp = 10 ** 6
    minp = len(params) - len(a.defaults)
    return minp <= nargs <= maxp
