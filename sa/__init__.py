"""Static-analysis engine for the code-base-investigator properties (see /verif/DESIGN.md)."""
