"""Self-test of the rules (thorough tier): seeded variants applied to a scratch
copy of /repo's package; breaking variants must be reported by the named
property, equivalent variants must stay silent.  Filled in by variants/*.py."""
from __future__ import annotations


def run_for(prop, evidence):
    try:
        from . import variants
    except ImportError:
        return 0
    return variants.run_for(prop, evidence)
