"""M5 - intraprocedural data flow on the CFG: reaching definitions (with weak
updates for in-place mutation), loop-carried dependences, and provenance
(def-use closure) of an expression."""

from __future__ import annotations

import ast

from .cfg import CFG, cfg_of
from .model import AnalysisError, FuncInfo, dotted, u

MUTATORS = {
    "append", "extend", "add", "update", "pop", "remove", "clear", "insert", "setdefault",
    "sort", "discard", "difference_update", "intersection_update", "symmetric_difference_update",
    "popitem", "reverse", "__setitem__", "__delitem__", "appendleft",
}


def _targets(t, out):
    if isinstance(t, ast.Name):
        out.append((t.id, "strong"))
    elif isinstance(t, (ast.Tuple, ast.List)):
        for e in t.elts:
            _targets(e, out)
    elif isinstance(t, ast.Starred):
        _targets(t.value, out)
    elif isinstance(t, (ast.Subscript, ast.Attribute)):
        b = t
        while isinstance(b, (ast.Subscript, ast.Attribute)):
            b = b.value
        if isinstance(b, ast.Name):
            out.append((b.id, "weak"))


def node_defs(n):
    """[(name, 'strong'|'weak')] defined by a CFG node."""
    a = n.ast
    out = []
    if n.kind == "loop" and isinstance(a, (ast.For, ast.AsyncFor)):
        _targets(a.target, out)
        return out
    if n.kind == "handler" and isinstance(a, ast.ExceptHandler) and a.name:
        return [(a.name, "strong")]
    if n.kind == "with" and isinstance(a, ast.With):
        for it in a.items:
            if it.optional_vars is not None:
                _targets(it.optional_vars, out)
        return out
    if n.kind != "stmt" or a is None or isinstance(a, str):
        return out
    if isinstance(a, ast.Assign):
        for t in a.targets:
            _targets(t, out)
    elif isinstance(a, ast.AnnAssign) and a.value is not None:
        _targets(a.target, out)
    elif isinstance(a, ast.AugAssign):
        if isinstance(a.target, ast.Name):
            out.append((a.target.id, "weak"))  # x += y keeps the old value's influence
        else:
            _targets(a.target, out)
    elif isinstance(a, (ast.Import, ast.ImportFrom)):
        for al in a.names:
            out.append(((al.asname or al.name).split(".")[0], "strong"))
    elif isinstance(a, (ast.FunctionDef, ast.ClassDef)):
        out.append((a.name, "strong"))
    elif isinstance(a, ast.Delete):
        for t in a.targets:
            _targets(t, out)
    # in-place mutation through a method call: weak def of the receiver's base name
    for c in _calls_shallow(a):
        if isinstance(c.func, ast.Attribute) and c.func.attr in MUTATORS:
            b = c.func.value
            while isinstance(b, (ast.Subscript, ast.Attribute)):
                b = b.value
            if isinstance(b, ast.Name):
                out.append((b.id, "weak"))
    # walrus
    for x in _walk_shallow(a):
        if isinstance(x, ast.NamedExpr) and isinstance(x.target, ast.Name):
            out.append((x.target.id, "strong"))
    return out


def _walk_shallow(a):
    stack = [a]
    while stack:
        x = stack.pop()
        yield x
        for c in ast.iter_child_nodes(x):
            if isinstance(c, (ast.FunctionDef, ast.AsyncFunctionDef, ast.ClassDef, ast.Lambda)):
                continue
            stack.append(c)


def _calls_shallow(a):
    return [x for x in _walk_shallow(a) if isinstance(x, ast.Call)]


def node_use_exprs(n):
    """AST sub-trees evaluated (read) by the node itself (not nested blocks)."""
    a = n.ast
    if a is None or isinstance(a, str):
        return []
    if n.kind in ("test",) or (n.kind == "loop" and not isinstance(a, (ast.For, ast.AsyncFor, ast.While))):
        return [a]
    if n.kind == "loop":
        if isinstance(a, (ast.For, ast.AsyncFor)):
            return [a.iter]
        if isinstance(a, ast.While):
            return [a.test]
        return [a]
    if n.kind == "with":
        return [it.context_expr for it in a.items]
    if n.kind == "handler":
        return [a.type] if a.type is not None else []
    if n.kind == "stmt":
        if isinstance(a, (ast.FunctionDef, ast.ClassDef)):
            return []
        return [a]
    return []


def node_uses(n):
    names = set()
    for e in node_use_exprs(n):
        for x in _walk_shallow(e):
            if isinstance(x, ast.Name) and isinstance(x.ctx, ast.Load):
                names.add(x.id)
            elif isinstance(x, ast.AugAssign) and isinstance(x.target, ast.Name):
                names.add(x.target.id)
        # nested functions / lambdas read free variables too
        for x in ast.walk(e):
            if isinstance(x, (ast.Lambda,)):
                for y in ast.walk(x.body):
                    if isinstance(y, ast.Name) and isinstance(y.ctx, ast.Load):
                        names.add(y.id)
    return names


class Reaching:
    """Reaching definitions.  A definition is (name, node id); parameters are
    defined at the entry node."""

    def __init__(self, cfg: CFG, params=(), cut_edges=(), inject=None):
        self.cfg = cfg
        self.cut = set(cut_edges)
        inject = inject or {}
        n = len(cfg.nodes)
        self.gen = [set() for _ in range(n)]
        self.kill = [set() for _ in range(n)]  # names strongly defined
        for p in params:
            self.gen[cfg.entry].add((p, cfg.entry))
        for nd in cfg.nodes:
            for name, strength in node_defs(nd):
                self.gen[nd.id].add((name, nd.id))
                if strength == "strong":
                    self.kill[nd.id].add(name)
        self.IN = [set() for _ in range(n)]
        self.OUT = [set() for _ in range(n)]
        work = list(range(n))
        while work:
            x = work.pop()
            new_in = set()
            for p, lab in cfg.nodes[x].pred:
                if (p, x) in self.cut:
                    continue
                new_in |= self.OUT[p]
            new_in |= inject.get(x, set())
            self.IN[x] = new_in
            out = {d for d in new_in if d[0] not in self.kill[x]} | self.gen[x]
            if out != self.OUT[x]:
                self.OUT[x] = out
                for t, _ in cfg.nodes[x].succ:
                    if (x, t) not in self.cut:
                        work.append(t)

    def defs_of(self, name, at):
        return {d for (nm, d) in self.IN[at] if nm == name}


def loop_nodes(cfg: CFG, header):
    return {n.id for n in cfg.nodes if header in n.loops} | {header}


def back_edges(cfg: CFG, header):
    body = loop_nodes(cfg, header)
    return {(p, header) for p, _ in cfg.nodes[header].pred if p in body and p != header or (p == header)}


def loop_carried(fi: FuncInfo, loop_stmt):
    """{name: [(def node, use node)]} for values that flow from one iteration of
    `loop_stmt` into a later one (through the back edge)."""
    cfg = cfg_of(fi)
    header = cfg.node_of(loop_stmt)
    body = loop_nodes(cfg, header) - {header}
    full = Reaching(cfg, fi.params)
    be = back_edges(cfg, header)
    # definitions made inside the loop that are live on a back edge
    live = set()
    for p, _h in be:
        live |= {d for d in full.OUT[p] if d[1] in body}
    tagged = {(name, ("carried", d)) for name, d in live}
    cut = Reaching(cfg, fi.params, cut_edges=be, inject={header: tagged})
    out = {}
    for nid in body:
        nd = cfg.nodes[nid]
        for name in node_uses(nd):
            for d in cut.defs_of(name, nid):
                if isinstance(d, tuple) and d[0] == "carried":
                    out.setdefault(name, []).append((d[1], nid))
    return out, cfg


# ----------------------------------------------------------------------
def provenance(fi: FuncInfo, expr, at_stmt=None, depth=12):
    """Def-use closure of `expr` evaluated at statement `at_stmt` of `fi`:
    returns a list of *leaf* expressions (asts) the value is built from, where
    local names are replaced by the right-hand sides of their reaching
    definitions.  Each leaf is (ast, chain) with chain = list of wrapping call
    names between the root and the leaf (outermost first)."""
    cfg = cfg_of(fi)
    rd = getattr(fi, "_rd", None)
    if rd is None:
        rd = Reaching(cfg, fi.params)
        fi._rd = rd
    at = cfg.node_of(at_stmt) if at_stmt is not None else None
    leaves = []
    seen = set()

    def go(e, at, chain, d):
        if d <= 0:
            leaves.append((e, chain))
            return
        if isinstance(e, ast.Name):
            if at is None:
                leaves.append((e, chain))
                return
            defs = rd.defs_of(e.id, at)
            if not defs:
                leaves.append((e, chain))
                return
            for dn in sorted(defs):
                if dn == cfg.entry:
                    leaves.append((e, chain + ["<param>"]))
                    continue
                key = (e.id, dn)
                if key in seen:
                    continue
                seen.add(key)
                nd = cfg.nodes[dn]
                a = nd.ast
                val = None
                if isinstance(a, ast.Assign):
                    val = _value_for(a, e.id)
                elif isinstance(a, ast.AnnAssign):
                    val = a.value
                elif isinstance(a, ast.AugAssign):
                    go(a.value, dn, chain + ["<aug>"], d - 1)
                    continue
                elif nd.kind == "loop" and isinstance(a, (ast.For, ast.AsyncFor)):
                    go(a.iter, dn, chain + ["<iter>"], d - 1)
                    continue
                elif nd.kind == "with":
                    for it in a.items:
                        if it.optional_vars is not None and e.id in {x.id for x in ast.walk(it.optional_vars) if isinstance(x, ast.Name)}:
                            go(it.context_expr, dn, chain + ["<with>"], d - 1)
                    continue
                if val is None:
                    # weak def (mutation) or unknown: keep the statement as a leaf
                    leaves.append((a, chain + ["<mutated>"]))
                    continue
                go(val, dn, chain, d - 1)
            return
        if isinstance(e, ast.Call) and isinstance(e.func, ast.Name) and not e.keywords and not any(isinstance(a, ast.Starred) for a in e.args):
            # a helper extracted from this function (it does not exist in the reviewed snapshot): what it returns, with
            # its parameters replaced by the arguments, is what the call stands for
            h = next((x for x in fi.new_helpers() if x.name == e.func.id and x.cls is None), None)
            if h is not None and len(h.params) == len(e.args):
                import copy as _copy

                hlocals = {n.id for n in ast.walk(h.node) if isinstance(n, ast.Name) and isinstance(n.ctx, ast.Store)}
                rets = [r.value for r in ast.walk(h.node) if isinstance(r, ast.Return) and r.value is not None]
                if rets and not any(isinstance(n, ast.Name) and n.id in hlocals for r in rets for n in ast.walk(r)):
                    sub = dict(zip(h.params, e.args))

                    class _S(ast.NodeTransformer):
                        def visit_Name(self, n):
                            return _copy.deepcopy(sub[n.id]) if n.id in sub and isinstance(n.ctx, ast.Load) else n

                    for r in rets:
                        go(_S().visit(_copy.deepcopy(r)), at, chain, d - 1)
                    return
        if isinstance(e, ast.Call):
            name = dotted(e.func) or u(e.func)
            for a in e.args:
                go(a.value if isinstance(a, ast.Starred) else a, at, chain + [name], d - 1)
            for k in e.keywords:
                go(k.value, at, chain + [name], d - 1)
            if isinstance(e.func, ast.Attribute):
                rd_ = dotted(e.func.value)
                is_module = rd_ is not None and rd_.split(".")[0] in fi.module.imports and rd_.split(".")[0] not in fi.params
                if not is_module:
                    go(e.func.value, at, chain + [name + "<recv>"], d - 1)
            if not e.args and not e.keywords and not isinstance(e.func, ast.Attribute):
                leaves.append((e, chain))
            return
        if isinstance(e, (ast.Attribute,)):
            leaves.append((e, chain))
            return
        if isinstance(e, ast.Subscript):
            leaves.append((e, chain))
            go(e.value, at, chain + ["<subscript>"], d - 1)
            return
        if isinstance(e, ast.Constant):
            leaves.append((e, chain))
            return
        kids = list(ast.iter_child_nodes(e))
        if not kids:
            leaves.append((e, chain))
        for c in kids:
            if isinstance(c, ast.expr):
                go(c, at, chain + [type(e).__name__], d - 1)
            elif isinstance(c, ast.comprehension):
                go(c.iter, at, chain + ["<comp-iter>"], d - 1)

    go(expr, at, [], depth)
    return leaves


def _value_for(assign: ast.Assign, name):
    for t in assign.targets:
        if isinstance(t, ast.Name) and t.id == name:
            return assign.value
        if isinstance(t, (ast.Tuple, ast.List)):
            for i, el in enumerate(t.elts):
                if isinstance(el, ast.Name) and el.id == name:
                    if isinstance(assign.value, (ast.Tuple, ast.List)) and len(assign.value.elts) == len(t.elts):
                        return assign.value.elts[i]
                    return ast.Subscript(value=assign.value, slice=ast.Constant(value=i), ctx=ast.Load())
    return None


def stmt_of(fi: FuncInfo, node):
    """The smallest statement of fi known to the CFG that contains `node`."""
    cfg = cfg_of(fi)
    known = [
        s for s in ast.walk(fi.node)
        if isinstance(s, ast.stmt) and id(s) in cfg.stmt_node and any(x is node for x in ast.walk(s))
    ]
    known.sort(key=lambda s: sum(1 for _ in ast.walk(s)))
    if not known:
        raise AnalysisError(f"{fi.key}: cannot locate statement of {u(node)[:40]}")
    return known[0]
