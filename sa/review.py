"""Reviewed-conditions analysis ("who may skip work").

For a function F the decision engine yields its table: paths = (atoms, effects,
result).  The conditions under which F skips part of its work (returns early,
continues, raises, or simply performs fewer effects) were reviewed against the
properties for the snapshot in /verif/reference.  A *new* condition - an atom
that does not occur in the reference table of F - under which F does less than
it does otherwise is reported: it is a new way for input to be dropped, cached
or de-duplicated, and the rules that pin F's behaviour say nothing about it.

This is a condition review, not a text comparison: renamings are invisible
(alpha-normalisation), re-arranged tests with the same atoms are invisible, new
conditions that do not change what F does (e.g. extra logging) are invisible,
and a new condition that changes *how* something is computed without omitting
anything (e.g. a new literal base) is not reported here.

Also reported: new `if` filters in comprehensions/generator expressions (elements
silently dropped) and module-level mutable containers that the reference does not
have and that a function of the set reads or writes (ambient state).
"""

from __future__ import annotations

import ast
import os
import re

from .alpha import REF_ROOT
from .decision import Evaluator, Hooks, vtext
from .model import AnalysisError, Repo, u, walk_no_nested

_ref_repo = None


def reference_repo():
    global _ref_repo
    if _ref_repo is None:
        if not os.path.isdir(os.path.join(REF_ROOT, "codebasin")):
            raise AnalysisError("reference snapshot /verif/reference/codebasin missing")
        _ref_repo = Repo(REF_ROOT)
    return _ref_repo


def other_side(repo):
    """the reviewed snapshot for the analysed tree, and vice versa"""
    ref = reference_repo()
    if os.path.abspath(repo.root) == os.path.abspath(ref.root):
        return _current.get("repo") or ref
    _current["repo"] = repo
    return ref


_current = {}


_mutating = {}


def mutating_methods(repo):
    """names of methods that (transitively, through self-calls) assign / delete / mutate an attribute of
    their object: a call of such a method is an event, not a value (calling it twice is not calling it once)"""
    key = repo.root
    if key in _mutating:
        return _mutating[key]
    from .flow import MUTATORS

    direct, calls = set(), {}
    for f in repo.all_functions():
        if f.cls is None or f.name == "__init__":
            continue
        mut = False
        callees = set()
        for n in f.body_nodes():
            if isinstance(n, (ast.Attribute, ast.Subscript)) and isinstance(n.ctx, (ast.Store, ast.Del)) and u(n).startswith("self."):
                mut = True
            elif isinstance(n, ast.Call) and isinstance(n.func, ast.Attribute):
                recv = u(n.func.value)
                if n.func.attr in MUTATORS and recv.startswith("self."):
                    mut = True
                elif recv == "self":
                    callees.add(n.func.attr)
        if mut and _is_memo_getter(f):
            mut = False  # the only thing it writes is its own cache entry: a function of its argument
        if mut:
            direct.add(f.name)
        calls.setdefault(f.name, set()).update(callees)
    changed = True
    while changed:
        changed = False
        for name, cs in calls.items():
            if name not in direct and cs & direct:
                direct.add(name)
                changed = True
    _mutating[key] = direct
    return direct


def _is_memo_getter(f):
    """`def m(self, k): if k not in self.C: [v = g(k);] self.C[k] = v ; return self.C[k]` - a memoised function of k:
    calling it once, twice or at another point gives the same value and nothing else observes the cache"""
    r0 = _memo_shape(f)
    if r0 is not None:
        return r0
    # the same method in the other tree (reviewed snapshot / analysed tree) written in the recognised shape: callers
    # see a memoised function on both sides (what the method does inside is compared by RX on the method itself)
    try:
        o = other_side(f.module.repo)
        g = next((x for x in o.all_functions() if x.key == f.key), None) if o is not None else None
    except Exception:
        g = None
    return bool(g is not None and _memo_shape(g))


def _memo_shape(f):
    """True / False when `f` has / has not one of the two memoising shapes; None when it cannot be one at all"""
    body = [x for x in f.node.body if not (isinstance(x, ast.Expr) and isinstance(x.value, ast.Constant))]
    if f.cls is None or len(f.params) != 2:
        return None
    k = f.params[1]
    # second shape: if k in self.C: return self.C[k] ; v = g(k) ; self.C[k] = v ; return v
    if len(body) >= 3 and isinstance(body[0], ast.If) and not body[0].orelse and isinstance(body[0].test, ast.Compare) and len(body[0].test.ops) == 1 and isinstance(body[0].test.ops[0], ast.In) and u(body[0].test.left) == k and re.fullmatch(r"self\.\w+", u(body[0].test.comparators[0])):
        cache = u(body[0].test.comparators[0])
        hit = body[0].body
        stores = [x for s_ in body[1:] for x in ast.walk(s_) if isinstance(x, (ast.Attribute, ast.Subscript)) and isinstance(x.ctx, ast.Store)]
        last = body[-1]
        if (len(hit) == 1 and isinstance(hit[0], ast.Return) and u(hit[0].value) == f"{cache}[{k}]" and [u(x) for x in stores] == [f"{cache}[{k}]"]
                and isinstance(last, ast.Return) and not any(isinstance(x, (ast.If, ast.For, ast.While, ast.Try)) for s_ in body[1:] for x in ast.walk(s_))):
            st_ = next(s_ for s_ in body[1:] if isinstance(s_, ast.Assign) and u(s_.targets[0]) == f"{cache}[{k}]")
            if u(last.value) in (u(st_.value), f"{cache}[{k}]"):
                return _cache_private(f, cache)
        return False
    if len(body) != 2 or not isinstance(body[0], ast.If) or not isinstance(body[1], ast.Return) or body[0].orelse:
        return False
    t = body[0].test
    if not (isinstance(t, ast.Compare) and len(t.ops) == 1 and isinstance(t.ops[0], ast.NotIn) and u(t.left) == k and re.fullmatch(r"self\.\w+", u(t.comparators[0]))):
        return False
    cache = u(t.comparators[0])
    if u(body[1].value) != f"{cache}[{k}]":
        return False
    stores = [x for x in ast.walk(body[0]) if isinstance(x, (ast.Attribute, ast.Subscript)) and isinstance(x.ctx, ast.Store)]
    if [u(x) for x in stores] != [f"{cache}[{k}]"]:
        return False
    return _cache_private(f, cache)


def _cache_private(f, cache):
    # nothing else of the class writes the cache (other than creating it empty)
    for g in f.cls.methods.values():
        if g is f:
            continue
        for x in g.body_nodes():
            if isinstance(x, ast.Subscript) and isinstance(x.ctx, (ast.Store, ast.Del)) and u(x.value) == cache:
                return False
            if isinstance(x, ast.Call) and isinstance(x.func, ast.Attribute) and u(x.func.value) == cache and x.func.attr in ("pop", "clear", "update", "setdefault", "popitem"):
                return False
    return True


class _H(Hooks):
    unroll = 1
    mut = frozenset()
    inline_small = False

    def pure(self, ftext):
        if "." in ftext:
            recv, name = ftext.rsplit(".", 1)
            if name in self.mut and (recv == "self" or recv.startswith("self.")):
                return False
        return True

    def inline(self, call, ftext, st):
        """event tables: a call of a small, loop-free method of the same class is interpreted in place, on both sides
        of the comparison, so that `self.append_space()` and the three statements it stands for are the same thing"""
        if not getattr(self, "inline_small", False) or getattr(self, "fi", None) is None or self.fi.cls is None:
            return None
        if not ftext.startswith("self.") or ftext.count(".") != 1:
            return None
        m = self.fi.cls.find_method(ftext[5:])
        if m is None or m.node is self.fi.node:
            return None
        if _is_memo_getter(m):
            return None  # a memoised function: its value, not its cache store
        body = [x for x in m.node.body if not (isinstance(x, ast.Expr) and isinstance(x.value, ast.Constant))]
        if len(body) > 6 or any(isinstance(n, (ast.For, ast.While, ast.Try, ast.With, ast.Yield, ast.YieldFrom)) for n in ast.walk(m.node)):
            return None
        if any(isinstance(n, ast.Call) and u(n.func) == ftext for n in ast.walk(m.node)):
            return None  # recursive
        if any(u(d) in ("property", "staticmethod", "classmethod") for d in m.node.decorator_list):
            return None
        # dynamic dispatch: a method that some subclass overrides is not the method that runs
        try:
            for sub in self.fi.module.repo.subclasses(self.fi.cls):
                if sub is not self.fi.cls and ftext[5:] in sub.methods:
                    return None
        except Exception:
            return None
        return m.node


class _H2(_H):
    unroll = 2


_nt_fields = None


def _namedtuple_subs():
    """`.field` of a namedtuple defined in the package is `[index]` (field names that belong to exactly one namedtuple)"""
    global _nt_fields
    if _nt_fields is None:
        seen = {}
        try:
            for m in reference_repo().modules.values():
                for n in ast.walk(m.tree):
                    if isinstance(n, ast.Call) and u(n.func).endswith("namedtuple") and len(n.args) == 2:
                        try:
                            names = ast.literal_eval(n.args[1])
                        except Exception:
                            continue
                        if isinstance(names, str):
                            names = names.replace(",", " ").split()
                        for i, f in enumerate(names):
                            seen.setdefault(f, set()).add(i)
        except Exception:
            pass
        _nt_fields = [(re.compile(r"\." + re.escape(f) + r"\b(?!\()"), f"[{next(iter(ix))}]") for f, ix in seen.items() if len(ix) == 1]
    return _nt_fields


def _norm_atom(a, keep_versions=False):
    for pat, rep in _namedtuple_subs():
        a = pat.sub(rep, a)
    if a.startswith("raises(") and "->" in a:
        # `raises(<statement text> -> Exc)`: the statement is source text (local names): keep what it calls and the exception
        body, exc = a[len("raises("):].rsplit("->", 1)
        a = "raises(" + ",".join(c for c in re.findall(r"[\w.]+(?=\()", body) if c.startswith("self.")) + " -> " + exc.strip()
    for pat, rep in _canon_forms:
        a = re.sub(pat, rep, a)
    if not keep_versions:
        a = re.sub(r"@\d+", "", a)
    a = re.sub(r"#L\d+", "#L", a)
    a = re.sub(r"#\d+", "#", a)
    return a


def _norm_atoms(atoms):
    """normalised atoms of one path; atoms that become equal (same statement raising at two places) are
    kept apart by their order of occurrence"""
    out = {}
    for k, v in atoms.items():
        nk = _norm_atom(k)
        while nk in out:
            nk += "'"
        out[nk] = v
    return out


_cache = {}


def table(fi, max_paths=4000, unroll=1, events=False, inline_small=False):
    """decision table of a function; with events=True calls of state-changing methods of the same object
    are recorded as effects in call order even when their value is used (token-stream consumers etc.)"""
    key = (fi.module.repo.root, fi.key, unroll, events, inline_small)
    if key not in _cache:
        _H.mut = frozenset(mutating_methods(reference_repo()) | mutating_methods(fi.module.repo)) if events else frozenset()
        _H.inline_small = inline_small
        try:
            _cache[key] = Evaluator(_H2() if unroll == 2 else _H0() if unroll == 0 else _H(), max_paths=max_paths if unroll < 2 else 600).paths(fi.node)
        except (AnalysisError, RecursionError) as e:
            _cache[key] = e
    return _cache[key]


class _H0(_H):
    """one iteration of every loop (functions that are one big `while True` scanner loop)"""

    unroll = 1
    while_extra = 0


def tables(cur_f, ref_f):
    """deepest unrolling both sides can afford"""
    kw = dict(events=True, inline_small=True)
    a, b = table(cur_f, unroll=2, **kw), table(ref_f, unroll=2, **kw)
    if isinstance(a, Exception) or isinstance(b, Exception):
        a, b = table(cur_f, **kw), table(ref_f, **kw)
    depth = 1
    if isinstance(a, Exception) or isinstance(b, Exception):
        a, b = table(cur_f, unroll=0, **kw), table(ref_f, unroll=0, **kw)
        depth = 0
    if isinstance(a, Exception) or isinstance(b, Exception):
        kw = dict(events=True)
        a, b = table(cur_f, unroll=0, **kw), table(ref_f, unroll=0, **kw)
    _table_depth[(cur_f.module.repo.root, cur_f.key)] = depth
    return a, b


_dump = {}


def _same(a, b):
    """structurally identical functions (after alpha-normalisation) have identical tables"""
    for f in (a, b):
        k = (f.module.repo.root, f.key)
        if k not in _dump:
            _dump[k] = ast.dump(f.node)
    return _dump[(a.module.repo.root, a.key)] == _dump[(b.module.repo.root, b.key)]


def _relevant(effects):
    out = []
    # a store that is overwritten later on the same path is dead: keep the last store per location
    last_store = {}
    for i, e in enumerate(effects):
        if e[0] == "store" and isinstance(e[1], str):
            last_store[e[1]] = i
    effects = [e for i, e in enumerate(effects) if not (e[0] == "store" and isinstance(e[1], str) and last_store[e[1]] != i)]
    for e in effects:
        if e[0] in ("caught", "loop-bound"):
            continue
        if e[0] == "store" and len(e) > 2 and isinstance(e[1], str) and re.sub(r"@\d+", "", vtext(e[2])) == re.sub(r"@\d+", "", e[1]):
            continue  # x.a = x.a
        if e[0] == "call" and re.match(r"(log|logger|logging)\.", e[1]):
            continue
        if e[0] == "aug" and isinstance(e[1], str) and re.fullmatch(r"\w+", e[1]):
            continue  # accumulation into a local variable
        out.append(e)
    return out


def _sig(p):
    return (tuple((e[0], e[1] if len(e) > 1 and isinstance(e[1], str) else "") for e in _relevant(p.effects)), "return" if p.result[0] == "fall" else p.result[0])


def _isinstance_classes(fn):
    out = set()
    for n in ast.walk(fn):
        if isinstance(n, ast.Call) and u(n.func) == "isinstance" and len(n.args) == 2:
            out.add(u(n.args[1]))
    return out


def _filters(fn):
    out = {}
    searches = set()
    for n in ast.walk(fn):
        if isinstance(n, ast.Call) and u(n.func) in ("next", "any", "all", "sum", "len") and n.args and isinstance(n.args[0], (ast.GeneratorExp, ast.ListComp)):
            searches.add(id(n.args[0]))  # a search / reduction, not a collection that loses elements
    for n in ast.walk(fn):
        if id(n) in searches:
            continue
        if isinstance(n, (ast.ListComp, ast.SetComp, ast.GeneratorExp, ast.DictComp)):
            for g in n.generators:
                for c in g.ifs:
                    out[f"{u(g.iter)} if {u(c)}"] = c
    return out


def _elem_conditions(fn):
    """conditions under which the function keeps an element of something it iterates, however written:
    comprehension `if`, filter(None|lambda), `for x in it: if c: ...` / `if not c: continue`.
    Returned as a set of (polarity, condition text with the element variable written `_`)."""
    import copy

    from .decision import _Rename

    def norm(test, names):
        pol = True
        while isinstance(test, ast.UnaryOp) and isinstance(test.op, ast.Not):
            pol = not pol
            test = test.operand
        t = _Rename({n: "_" for n in names}).visit(copy.deepcopy(test))
        return (pol, u(t))

    out = set()
    for n in ast.walk(fn):
        if isinstance(n, (ast.ListComp, ast.SetComp, ast.GeneratorExp, ast.DictComp)):
            for g in n.generators:
                names = {x.id for x in ast.walk(g.target) if isinstance(x, ast.Name)}
                for c in g.ifs:
                    out.add(norm(c, names))
        elif isinstance(n, ast.Call) and u(n.func) == "filter" and len(n.args) == 2:
            if isinstance(n.args[0], ast.Constant) and n.args[0].value is None:
                out.add((True, "_"))
            elif isinstance(n.args[0], ast.Lambda) and len(n.args[0].args.args) == 1:
                out.add(norm(n.args[0].body, {n.args[0].args.args[0].arg}))
        elif isinstance(n, ast.For):
            names = {x.id for x in ast.walk(n.target) if isinstance(x, ast.Name)}
            for st in n.body:
                if isinstance(st, ast.If) and not st.orelse and any(isinstance(x, ast.Name) and x.id in names for x in ast.walk(st.test)):
                    pol, t = norm(st.test, names)
                    skips = len(st.body) == 1 and isinstance(st.body[0], ast.Continue)
                    out.add((pol != skips, t))
                    if not skips:
                        break
                elif isinstance(st, ast.Expr) and isinstance(st.value, ast.Constant):
                    continue
                else:
                    break
    return out


def new_skip_conditions(repo, short, qualname):
    """-> list of (kind, text, ast-or-None, explanation) for function short:qualname;
    [] when the function is new, unanalysable, or has no new work-skipping condition."""
    ref = reference_repo()
    try:
        cur_f = repo.func(short, qualname)
    except AnalysisError:
        return None  # function vanished: the caller decides
    try:
        ref_f = ref.func(short, qualname)
    except AnalysisError:
        ref_f = None
    findings = []
    if ref_f is not None and _same(cur_f, ref_f):
        return findings
    # --- comprehension filters
    cf = _filters(cur_f.node)
    rf = _filters(ref_f.node) if ref_f is not None else {}
    if ref_f is not None:
        for k, node in cf.items():
            if k not in rf:
                if isinstance(node, ast.Call) and u(node.func) == "isinstance" and len(node.args) == 2 and u(node.args[1]) in _isinstance_classes(ref_f.node):
                    continue
                if _elem_conditions(cur_f.node) <= _elem_conditions(ref_f.node):
                    continue  # the reviewed version keeps elements under the same condition(s), written differently
                findings.append(("filter", k, node, f"a comprehension now drops the elements of `{k.split(' if ')[0]}` for which `{u(node)}` is false"))
    # --- decision tables
    ct = table(cur_f)
    if isinstance(ct, Exception):
        return findings
    if ref_f is None:
        return findings
    rt = table(ref_f)
    if isinstance(rt, Exception):
        return findings
    ref_atoms = {_norm_atom(a) for p in rt for a in p.atoms}
    ref_skels = {_skel(a) for a in ref_atoms}
    ref_isinst = _isinstance_classes(ref_f.node)
    new_atoms = []
    for p in ct:
        for a in p.atoms:
            na = _norm_atom(a)
            if na.startswith("raises("):
                # a statement that can fail in a new way inside a try: new only if it calls something (of this object)
                # that no guarded statement of the reviewed version calls
                if na in ref_atoms or na.startswith("raises( ->") or a in new_atoms:
                    continue
                new_atoms.append(a)
                continue
            if na not in ref_atoms and _skel(na) not in ref_skels and not na.startswith("more(") and a not in new_atoms:
                m = re.fullmatch(r"isinstance\(.*, (\w[\w.]*)\)", na)
                if m and m.group(1) in ref_isinst:
                    continue  # the same type filter, written as a loop test instead of a comprehension filter (or vice versa)
                new_atoms.append(a)
    for a in new_atoms:
        T = [p for p in ct if p.atoms.get(a) is True]
        F = [p for p in ct if p.atoms.get(a) is False]
        if not T or not F:
            continue
        # compare paths that agree on every other atom they both consulted before `a`
        skip = None
        for pt in T:
            for pf in F:
                keys_t, keys_f = list(pt.atoms), list(pf.atoms)
                it, jf = keys_t.index(a), keys_f.index(a)
                if keys_t[:it] != keys_f[:jf] or any(pt.atoms[k] != pf.atoms[k] for k in keys_t[:it]):
                    continue
                et, ef = _relevant(pt.effects), _relevant(pf.effects)
                st, sf = _sig(pt), _sig(pf)
                if st == sf:
                    continue
                less = None
                if len(et) < len(ef) and _is_subseq(st[0], sf[0]):
                    less = (True, pt, pf)
                elif len(ef) < len(et) and _is_subseq(sf[0], st[0]):
                    less = (False, pf, pt)
                elif pt.result[0] in ("raise",) and pf.result[0] != "raise":
                    less = (True, pt, pf)
                elif pf.result[0] in ("raise",) and pt.result[0] != "raise":
                    less = (False, pf, pt)
                elif len(et) == len(ef) and st[1] != sf[1] and {st[1], sf[1]} & {"continue", "break"}:
                    less = (pt.result[0] in ("continue", "break"), pt if pt.result[0] in ("continue", "break") else pf, pf if pt.result[0] in ("continue", "break") else pt)
                if less is not None:
                    skip = less
                    break
            if skip:
                break
        if skip:
            pol, short_p, long_p = skip
            missing = [x for x in _sig(long_p)[0] if x not in _sig(short_p)[0]]
            findings.append((
                "condition",
                _norm_atom(a),
                None,
                f"when `{_norm_atom(a)}` is {pol} the function ends with `{short_p.result[0]}` "
                f"and omits {[m[1] or m[0] for m in missing][:4]}; this condition is not part of the reviewed behaviour of the function",
            ))
    return findings


def _skel(text):
    """skeleton of a value text: contents of (...) and [...] removed (robust to loop<->comprehension
    rewrites and to how an element of a collection is denoted)"""
    out, depth = [], 0
    quote = None
    prev = ""
    for ch in text:
        # string literals are atomic (a quoted bracket is not a bracket)
        if quote is not None:
            if depth == 0:
                out.append(ch)
            if ch == quote and prev != "\\":
                quote = None
            prev = ch
            continue
        if ch in "'\"":
            quote = ch
            if depth == 0:
                out.append(ch)
            prev = ch
            continue
        prev = ch
        if ch in "([":
            if depth == 0:
                out.append(ch)
            depth += 1
        elif ch in ")]":
            depth -= 1
            if depth == 0:
                out.append(ch)
        elif depth == 0:
            out.append(ch)
    return "".join(out)


def _eff_key(e):
    """comparable form of one effect: (kind, target, values...) with counters stripped"""
    out = [e[0]]
    if e[0] == "aug":
        return (e[0], _skel(_norm_atom(e[1])) if isinstance(e[1], str) else "", e[2] if len(e) > 2 else "")
    if e[0] == "call":
        t = _skel(_norm_atom(e[1])) if isinstance(e[1], str) else ""
        if not t.startswith("self.") and "." in t:
            recv, op = t.rsplit(".", 1)
            # receiver denoted by an expression: only the operation is compared; a bare local name is a local accumulator
            t = ("<local>." if re.fullmatch(r"\w+", recv) else "*.") + op
        consts = []
        for x in _bound_call(e)[2:]:
            k = None
            if isinstance(x, tuple) and len(x) == 2 and isinstance(x[0], str):
                k, x = x
            if isinstance(x, (str, int, float, bool)) or x is None:
                consts.append(repr(x) if k is None else f"{k}={x!r}")
        return (e[0], t, *consts)
    for x in e[1:]:
        if isinstance(x, tuple) and len(x) == 2 and isinstance(x[0], str):
            out.append((x[0], _skel(_norm_atom(vtext(x[1])))))
        else:
            out.append(_skel(_norm_atom(vtext(x)) if not isinstance(x, str) else _norm_atom(x)))
    return tuple(out)


def _res_key(p):
    kind = p.result[0]
    if kind == "fall":
        kind = "return"
    if kind == "raise":
        return (kind, str(p.result[1]).split("(")[0])  # the exception class; the message text is not compared
    return (kind, _skel(_norm_atom(vtext(p.result[1]))) if p.result[1] is not None else None)


def _must_assign(stmts, var):
    """does every path through `stmts` that reaches the end of the loop body (normally or by `continue`) assign `var`?"""
    def block(ss, assigned):
        # returns (assigned_at_normal_exit | None if no normal exit, ok) where ok=False when some continue/normal path lacks it
        ok = True
        for s in ss:
            if isinstance(s, ast.Assign) and any(isinstance(t, ast.Name) and t.id == var for t in s.targets):
                assigned = True
            elif isinstance(s, ast.AugAssign) and isinstance(s.target, ast.Name) and s.target.id == var:
                assigned = True
            elif isinstance(s, ast.If):
                a1, ok1 = block(s.body, assigned)
                a2, ok2 = block(s.orelse, assigned)
                ok = ok and ok1 and ok2
                exits = [a for a in (a1, a2) if a is not None]
                if not exits:
                    return None, ok
                assigned = all(exits)
            elif isinstance(s, (ast.For, ast.While)):
                _, okb = block(s.body, assigned)  # inner loop: its own continues end ITS iteration; conservative: ignore
            elif isinstance(s, ast.Try):
                a1, ok1 = block(s.body + s.orelse, assigned)
                hs = [block(h.body, assigned) for h in s.handlers]
                ok = ok and ok1 and all(h[1] for h in hs)
                exits = [a for a in [a1] + [h[0] for h in hs] if a is not None]
                if not exits:
                    return None, ok
                assigned = all(exits)
                if s.finalbody:
                    assigned, okf = block(s.finalbody, assigned)
                    ok = ok and okf
            elif isinstance(s, ast.With):
                assigned, okw = block(s.body, assigned)
                ok = ok and okw
                if assigned is None:
                    return None, ok
            elif isinstance(s, ast.Continue):
                return None, ok and assigned
            elif isinstance(s, (ast.Break, ast.Return, ast.Raise)):
                return None, ok
        return assigned, ok

    a, ok = block(stmts, False)
    return ok and (a is None or a)


def _iteration_flags(fn):
    """local flags that are (re)assigned a constant on every iteration of a loop that also reads them: var -> bool"""
    out = {}
    for lp in ast.walk(fn):
        if not isinstance(lp, (ast.For, ast.While)):
            continue
        consts = {}
        for n in ast.walk(lp):
            if isinstance(n, ast.Assign) and len(n.targets) == 1 and isinstance(n.targets[0], ast.Name) and isinstance(n.value, ast.Constant) and isinstance(n.value.value, bool):
                consts.setdefault(n.targets[0].id, set()).add(n.value.value)
        for var, vals in consts.items():
            if not any(isinstance(n, ast.Name) and n.id == var and isinstance(n.ctx, ast.Load) for n in ast.walk(lp)):
                continue
            out[var] = out.get(var, True) and _must_assign(lp.body, var)
    return out


def refinement_findings(repo, short, qualname):
    """Does the current decision table of the function still do everything the reviewed
    (reference) table does, case by case?  Reports:
      * conditions of the reviewed table that were replaced by different ones,
      * reviewed cases in which a side effect (attribute/element store, delete, method call,
        yield) or the returned value is no longer produced by any corresponding path.
    Added effects, added logging, renamings and re-ordered independent statements are ignored."""
    ref = reference_repo()
    try:
        cur_f = repo.func(short, qualname)
        ref_f = ref.func(short, qualname)
    except AnalysisError:
        return []
    if _same(cur_f, ref_f):
        return []
    # a per-iteration flag (set True in one branch, False in the others) that the reviewed version re-assigns on every
    # iteration and the current one does not: its value now survives from one iteration into the next
    rflags, cflags = _iteration_flags(ref_f.node), _iteration_flags(cur_f.node)
    pre = []
    for var, every in rflags.items():
        if every and cflags.get(var) is False:
            pre.append(("flag-not-reset", var, None, f"the loop flag `{var}` is no longer assigned on every iteration: an iteration that does not set it now sees the value left by an earlier one"))
    if pre:
        return pre
    ct, rt = tables(cur_f, ref_f)
    global _canon_forms
    _canon_forms = EQUIVALENT_FORMS.get((short, qualname), [])
    try:
        out = [] if isinstance(ct, Exception) or isinstance(rt, Exception) else compare_tables(ct, rt)
        if isinstance(ct, Exception) or isinstance(rt, Exception) or _table_depth.get((cur_f.module.repo.root, cur_f.key), 1) == 0:
            # the function is too big to be tabulated with its loops entered: its loop bodies are compared one by one
            out = out + _compare_loop_bodies(cur_f, ref_f)
        return out
    finally:
        _canon_forms = []


_table_depth = {}


def _loops(fn):
    out = []

    def walk(body):
        for s_ in body:
            if isinstance(s_, (ast.FunctionDef, ast.AsyncFunctionDef, ast.ClassDef)):
                continue
            if isinstance(s_, (ast.For, ast.While)):
                out.append(s_)
            for fld in ("body", "orelse", "finalbody"):
                walk(getattr(s_, fld, []) or [])
            for h in getattr(s_, "handlers", []) or []:
                walk(h.body)

    walk(fn.body)
    return out


def _loop_invariant_bindings(loop, fn):
    """`t = x.a` / `n = len(x.a) - 1` bound once before the loop (a local for a repeatedly read attribute): the
    binding is put in front of the loop body, so the body reads what the name stands for"""
    inside = {id(n) for n in ast.walk(loop)}
    stores = {}
    for n in ast.walk(fn):
        if isinstance(n, ast.Name) and isinstance(n.ctx, (ast.Store, ast.Del)):
            stores.setdefault(n.id, []).append(n)
    attr_stores = {n.attr for n in ast.walk(fn) if isinstance(n, ast.Attribute) and isinstance(n.ctx, (ast.Store, ast.Del))}
    read = {n.id for s in loop.body for n in ast.walk(s) if isinstance(n, ast.Name) and isinstance(n.ctx, ast.Load)}
    out = []
    for st in ast.walk(fn):
        if not (isinstance(st, ast.Assign) and len(st.targets) == 1 and isinstance(st.targets[0], ast.Name)):
            continue
        name = st.targets[0].id
        if name not in read or id(st) in inside or st.lineno >= loop.lineno or len(stores.get(name, [])) != 1:
            continue
        ok = True
        for n in ast.walk(st.value):
            if isinstance(n, ast.Call):
                ok = ok and isinstance(n.func, ast.Name) and n.func.id == "len" and not n.keywords
            elif isinstance(n, ast.Attribute):
                ok = ok and n.attr not in attr_stores
            elif isinstance(n, ast.Name):
                ok = ok and not any(id(x) in inside for x in stores.get(n.id, []))
            elif not isinstance(n, (ast.Constant, ast.BinOp, ast.operator, ast.expr_context)):
                ok = False
        if ok and not isinstance(st.value, (ast.Constant, ast.Name)):
            out.append(st)
    return sorted(out, key=lambda s_: s_.lineno)


def _compare_loop_bodies(cur_f, ref_f):
    cl, rl = _loops(cur_f.node), _loops(ref_f.node)
    if len(cl) != len(rl):
        raise AnalysisError(f"{cur_f.key}: the function is too large for a decision table with its loops entered and its loop structure changed ({len(rl)} -> {len(cl)} loops): needs re-review")
    out = []
    for a, b in zip(cl, rl):
        if ast.dump(ast.Module(body=a.body, type_ignores=[])) == ast.dump(ast.Module(body=b.body, type_ignores=[])):
            continue
        def bound(loop, fn):
            # the loop variable is a bound name: both bodies see the current element under one and the same name
            pre = _loop_invariant_bindings(loop, fn)
            if isinstance(loop, ast.For):
                bind = ast.Assign(targets=[loop.target], value=ast.Name(id="__ELEMENT__", ctx=ast.Load()))
                ast.fix_missing_locations(ast.copy_location(bind, loop))
                return pre + [bind] + list(loop.body)
            return pre + list(loop.body)

        try:
            ta, tb = block_table(bound(a, cur_f.node), unroll=0, fi=cur_f, max_paths=3000), block_table(bound(b, ref_f.node), unroll=0, fi=ref_f, max_paths=3000)
        except AnalysisError as e:
            raise AnalysisError(f"{cur_f.key}: the body of the loop at line {a.lineno} changed and is too large for a decision table ({e}): needs re-review")
        out += [(k, f"loop@{_norm_atom(u(b.target) if isinstance(b, ast.For) else u(b.test))[:30]}:{t}", n, w) for k, t, n, w in compare_tables(ta, tb)]
    return out


_rewritten = {}


def _stmt_texts(fn):
    out = []

    def walk(body):
        for s in body:
            if isinstance(s, (ast.FunctionDef, ast.AsyncFunctionDef, ast.ClassDef)):
                continue
            if isinstance(s, ast.Expr) and isinstance(s.value, ast.Constant) and isinstance(s.value.value, str):
                continue
            if isinstance(s, (ast.If, ast.For, ast.While, ast.With, ast.Try)):
                out.append(u(s).split("\n")[0])
                for fld in ("body", "orelse", "finalbody"):
                    walk(getattr(s, fld, []) or [])
                for h in getattr(s, "handlers", []) or []:
                    out.append("except " + (u(h.type) if h.type else ""))
                    walk(h.body)
            else:
                out.append(u(s))

    walk(fn.body)
    return out


def rewritten(repo, key, new_only=False):
    if new_only:
        return _rewritten_impl(repo, key) == "new"
    return bool(_rewritten_impl(repo, key))


def _rewritten_impl(repo, key):
    """Was the function an instance key `module:qualname:...` is about re-written wholesale since it was reviewed?
    (>= 16 changed statements, or part of it moved into functions the snapshot does not have.)  Measured on the
    seeded faulty changes (234) and the independent refactorings (176): no faulty change rewrites 16 statements and
    3 introduce a function; 21 refactorings rewrite 16+ and 60 extract helpers.  Rules that recognise constructs by
    their syntax, and the comparison with the snapshot (RX), are calibrated on the reviewed shape: on a re-written
    function their report means "this function needs to be reviewed again", not "the property is violated"."""
    parts = key.split(":")
    if len(parts) < 2:
        return False
    short, qual = parts[0], parts[1]
    ck = (repo.root, short, qual)
    if ck in _rewritten:
        return _rewritten[ck]
    res = False
    try:
        import difflib

        ref = reference_repo()
        if os.path.abspath(repo.root) != os.path.abspath(ref.root):
            m = repo.modules.get("codebasin." + short) or next((x for x in repo.modules.values() if x.short == short), None)
            rm = next((x for x in ref.modules.values() if x.short == short), None)
            q = qual.replace(".<visitor>", "")
            f = m.functions.get(q) if m else None
            rf = rm.functions.get(q) if rm else None
            if f is not None and rf is None and m is not None and rm is not None:
                res = "new"  # a function the snapshot does not have
            elif f is not None and rf is not None:
                if f.new_helpers():
                    res = True
                else:
                    a, b = _stmt_texts(rf.node), _stmt_texts(f.node)
                    if a != b:
                        sm = difflib.SequenceMatcher(None, a, b)
                        changed = sum(max(i2 - i1, j2 - j1) for tag, i1, i2, j1, j2 in sm.get_opcodes() if tag != "equal")
                        res = changed >= 16 or (changed >= 8 and changed >= 0.6 * max(1, len(a)))
    except Exception:
        res = False
    _rewritten[ck] = res
    return res


# value forms known to be interchangeable in one function (domain knowledge, one line of reason each)
EQUIVALENT_FORMS = {
    # distance() is symmetric and zero on the diagonal is never included: the mean over ordered pairs equals the mean over unordered pairs (C07.R4 all-pairs accepts both)
    ("report", "divergence"): [(r"\b(it|itertools)\.permutations\(", r"\1.combinations(")],
}
_canon_forms = []


def block_table(stmts, unroll=1, max_paths=4000, fi=None):
    """decision table of a statement list (wrapped into a parameterless function); `fi` = the function the statements
    belong to (so that helpers newly extracted from it are interpreted in place)"""
    wrapper = ast.parse("def _block():\n    pass").body[0]
    wrapper.body = list(stmts)
    if fi is not None:
        from .decision import FUNC_INDEX

        FUNC_INDEX[id(wrapper)] = fi
    _H.mut = frozenset()
    _H.inline_small = False
    return Evaluator(_H2() if unroll == 2 else _H(), max_paths=max_paths).paths(wrapper)


def compare_tables(ct, rt):
    """findings where table `ct` no longer does what table `rt` (the reviewed / sibling one) does"""
    findings = []
    ref_atoms = {_norm_atom(a) for p in rt for a in p.atoms if not a.startswith("more(")}
    cur_atoms = {_norm_atom(a) for p in ct for a in p.atoms if not a.startswith("more(")}
    def _sk(a):
        # type tests are compared exactly (what is tested for which class); other conditions by skeleton, in which a
        # literal integer index is kept (x[-1] and x[pos] are different things to look at)
        if a.startswith("isinstance("):
            return a
        return _skel(re.sub(r"\[(-?\d+)\]", r"<\1>", a))

    sk_ref = {_sk(a) for a in ref_atoms}
    sk_cur = {_sk(a) for a in cur_atoms}
    gone = sorted(a for a in ref_atoms - cur_atoms if not a.startswith("raises(") and _sk(a) not in sk_cur)
    new = sorted(a for a in cur_atoms - ref_atoms if not a.startswith("raises(") and _sk(a) not in sk_ref)
    if gone and not new:
        # a reviewed bounds test is no longer made while the function still indexes what it protected
        # (`len(tokens) >= 2 and str(tokens[1]) ...` without the length test)
        texts = " ".join([_norm_atom(a) for p in ct for a in p.atoms] + [_norm_atom(vtext(x)) for p in ct for e in p.effects for x in e[1:] if not isinstance(x, tuple)] + [_norm_atom(vtext(p.result[1])) for p in ct if p.result[1] is not None])
        for a in gone:
            m = re.search(r"len\((.+?)\) (GtE|Gt|Lt|LtE|Eq) (\d+)$|^(\d+) (Lt|LtE|Gt|GtE|Eq) len\((.+)\)$", a)
            if not m:
                continue
            obj = m.group(1) or m.group(6)
            if re.search(re.escape(obj) + r"\[-?\d+\]", texts):
                findings.append(("condition-dropped", a[:80], None,
                                 f"the reviewed bounds test `{a[:100]}` is no longer made, but `{obj[:60]}[i]` is still read: what the test guarded now happens for every length"))
                break
    if gone and new:
        findings.append(("condition-replaced", f"{gone[0]} -> {new[0]}", None,
                         f"the reviewed condition(s) {gone} no longer occur; the function now tests {new} instead (a weaker / stronger / different condition decides the same cases)"))
    # ---- the same test made at fewer points of the run: `x.state[-1]` read before AND after a state-changing call in the
    # reviewed version, read once now (a condition hoisted over the call that changes what it reads)
    if not findings:
        rv = {_norm_atom(a, keep_versions=True) for p in rt for a in p.atoms if not a.startswith(("more(", "raises("))}
        cv = {_norm_atom(a, keep_versions=True) for p in ct for a in p.atoms if not a.startswith(("more(", "raises("))}
        strip = lambda a: re.sub(r"@\d+", "", a)
        for a in sorted(rv - cv):
            base = strip(a)
            if "@" not in a or base not in {strip(x) for x in cv}:
                continue
            # only reads of an object's state (`x.attr`, `x.attr[i]`); values of calls are fresh each time anyway
            if "#" in a or not re.search(r"\.\w+(\[[^\]]*\])?@\d+", a) or re.search(r"\)@\d+", a):
                continue
            n_ref = len({x for x in rv if strip(x) == base})
            n_cur = len({x for x in cv if strip(x) == base})
            if n_cur < n_ref:
                findings.append(("condition-moved", base[:80], None,
                                 f"the reviewed version tests `{base[:120]}` at {n_ref} different points (before and after calls that change the object it reads); it is now tested at {n_cur}: a test was hoisted over a state-changing call, or dropped"))
                break
    # ---- identical structure: compare the fine text of every atom, effect and result
    if len(ct) == len(rt) and not findings:
        def coarse(p):
            return (tuple(_skel(_norm_atom(a)) for a in p.atoms), tuple(p.atoms.values()), tuple(_eff_key(e) for e in _relevant(p.effects)), _res_key(p))

        def fine(p):
            return (
                # conditions keep their version marks here (`x.state[-1]@2`: read after two state-changing calls on x):
                # the same test evaluated before instead of after a call that changes what it reads is a different test
                tuple(_norm_atom(a, keep_versions=True) for a in p.atoms if not a.startswith("more(")),
                tuple(tuple(_fine(x) for x in _bound_call(e)) for e in _relevant(p.effects)),
                (p.result[0] if p.result[0] != "fall" else "return", _fine(p.result[1]) if p.result[0] != "raise" else str(p.result[1]).split("(")[0]),
            )

        if [coarse(p) for p in ct] == [coarse(p) for p in rt]:
            for pc, pr in zip(ct, rt):
                fc, fr = fine(pc), fine(pr)
                if fc != fr:
                    diff = _first_diff(fr, fc)
                    findings.append(("changed-value", diff[0][:80], None,
                                     f"the function has exactly the reviewed structure, but a value differs: reviewed `{diff[0][:160]}`, now `{diff[1][:160]}` (a changed constant, operand, argument or variable)"))
                    break
            if findings:
                return findings
    # ---- two early exits swapped: the reviewed version decides `A` first and, when A holds, does E and leaves; the
    # current version decides some other reviewed condition first and leaves WITHOUT E before it ever looks at A.  No
    # condition is new and none is gone, every row of either table exists in the other - but an input with A and the other
    # condition now takes the other exit.  (Only exits that do something are considered, and only when the overtaking
    # row tests nothing the reviewed table does not test.)
    if not new and not gone and not findings:
        def natoms(p):
            return {k: v for k, v in _norm_atoms(p.atoms).items() if not k.startswith(("more(", "raises("))}

        ref_keys = set()
        for pr in rt:
            ref_keys |= set(natoms(pr))
        for pr in rt:
            ar = natoms(pr)
            er = [_eff_key(e) for e in _relevant(pr.effects)]
            if not er or pr.result[0] not in ("continue", "return", "break") or not (1 <= len(ar) <= 4):
                continue
            for pc in ct:
                ac = natoms(pc)
                ec = [_eff_key(e) for e in _relevant(pc.effects)]
                if pc.result[0] not in ("continue", "return", "break") or all(k in ec for k in er):
                    continue
                if not set(ac) <= ref_keys or any(ac[k] != ar[k] for k in set(ac) & set(ar)):
                    continue  # looks at something new, or is not compatible with the reviewed exit
                deciding = [k for k, v in ar.items() if v and k not in ac]
                if not deciding or not (set(ac) - set(ar)):
                    continue
                # in the reviewed table the overtaking exit comes AFTER the deciding condition was found false
                later = [q for q in rt if all(natoms(q).get(k) == v for k, v in ac.items()) and [_eff_key(e) for e in _relevant(q.effects)] == ec and q.result[0] == pc.result[0]]
                if later and all(any(natoms(q).get(k) is False for k in deciding) for q in later):
                    other = sorted(set(ac) - set(ar))
                    findings.append(("condition-order", f"{deciding[0][:60]} after {other[0][:40]}", None,
                                     f"the reviewed version tests `{deciding[0][:100]}` first and, when it holds, performs {[str(k)[:50] for k in er if k not in ec][:2]} before leaving; the current version first leaves on {[(k[:60], ac[k]) for k in other][:3]} without doing so: an input for which both hold now takes the other exit"))
                    break
            if findings:
                break
        if findings:
            return findings
    # ---- a new condition under which the same steps are taken with a different VALUE (a fast path / special case that
    # computes something the reviewed version obtained otherwise): the current path, with the new conditions projected
    # away, corresponds to one reviewed path; its effects are of the same kinds but an operand differs
    if new and not gone and not findings:
        new_set = set(new)

        def proj(p):
            return tuple(sorted((k, v) for k, v in _norm_atoms(p.atoms).items() if k not in new_set and not k.startswith(("more(", "raises("))))

        def coarse_e(p):
            # kinds of the steps only: what is stored into `<something>.attr` / which method is called
            def tail(e):
                t = str(e[1]) if len(e) > 1 else ""
                return (e[0], re.sub(r"@\d+|#\d+", "", t).rsplit(".", 1)[-1] if e[0] in ("store", "call", "aug", "del") else "")
            return (tuple(tail(e) for e in _relevant(p.effects)), p.result[0])

        def fine_e(p):
            return (tuple(tuple(_fine(x) for x in _bound_call(e)) for e in _relevant(p.effects)), (p.result[0] if p.result[0] != "fall" else "return", _fine(p.result[1]) if p.result[0] != "raise" else str(p.result[1]).split("(")[0]))

        by_proj = {}
        for pr in rt:
            by_proj.setdefault(proj(pr), []).append(pr)
        for pc in ct:
            na = [(k, v) for k, v in _norm_atoms(pc.atoms).items() if k in new_set]
            if not na:
                continue
            pj = set(proj(pc))
            cands = [pr for k_, prs in by_proj.items() if pj <= set(k_) for pr in prs if coarse_e(pr) == coarse_e(pc)]
            if not cands or not _relevant(pc.effects):
                continue
            fc = fine_e(pc)
            if all(fine_e(pr) != fc for pr in cands):
                fr = fine_e(cands[0])
                d0 = _first_diff(fr, fc)
                findings.append(("value-under-new-condition", f"{na[0][0][:60]}:{d0[1][:40]}", None,
                                 f"when the new condition `{na[0][0][:100]}` is {na[0][1]} the function takes the reviewed steps with a different value: reviewed `{d0[0][:140]}`, now `{d0[1][:140]}` (a special case / fast path that does not compute what the general path computes)"))
                break
        if findings:
            return findings
    # case-by-case refinement
    cur_norm = [(_norm_atoms(p.atoms), p) for p in ct]
    cur_builds_locally = any(k[0] == "call" and str(k[1]).startswith("<local>.") for p in ct for k in (_eff_key(e) for e in _relevant(p.effects)))
    reported = set()
    all_ref_keys = {k for p in rt for k in (_eff_key(e) for e in _relevant(p.effects))}
    for pr in rt:
        ra = _norm_atoms(pr.atoms)
        cands = [p for a, p in cur_norm if all(a.get(k, v) == v for k, v in ra.items())]
        if not cands:
            continue
        want = [_eff_key(e) for e in _relevant(pr.effects)]
        if not cur_builds_locally:
            # the function no longer builds a local list/dict/set step by step (loop -> comprehension, join, ...):
            # what the reviewed version appended to its local accumulator is not an observable effect
            want = [w for w in want if not (w[0] == "call" and str(w[1]).startswith("<local>."))]
        wres = _res_key(pr)
        best = None
        for pc in cands:
            have = [_eff_key(e) for e in _relevant(pc.effects)]
            def _folded_elsewhere(w, pool):
                # a reviewed call with constant operands corresponds to a call of the same name whose operand is not a
                # constant here (the value is built differently, e.g. by a comprehension) - unless the current version
                # also makes that call with OTHER constants (then the constant is what changed)
                if w[0] != "call" or len(w) <= 2:
                    return None
                same = [h for h in pool if h[:2] == w[:2]]
                if any(len(h) > 2 for h in same):
                    return None
                return same[0] if same else None

            if any(e[0] == "loop-bound" for e in pr.effects) or any(e[0] == "loop-bound" for e in pc.effects):
                missing = [w for w in dict.fromkeys(want) if w not in have and _folded_elsewhere(w, have) is None]
            else:
                pool = list(have)
                missing = []
                for w in want:
                    if w in pool:
                        pool.remove(w)
                    elif _folded_elsewhere(w, pool) is not None:
                        pool.remove(_folded_elsewhere(w, pool))
                    else:
                        missing.append(w)
            resdiff = not _res_equiv(pr, pc, ra)
            score = len(missing) + (1 if resdiff else 0)
            if best is None or score < best[0]:
                best = (score, missing, resdiff, pc)
        # the mirror image: something the reviewed version does elsewhere is now done in a reviewed case where it was not
        # (a weakened guard: `and` -> `or`, a dropped test)
        if cands and not any(e[0] == "loop-bound" for e in pr.effects):
            ref_keys = set(want)
            common = None
            for pc in cands:
                if any(e[0] == "loop-bound" for e in pc.effects):
                    common = set()
                    break
                ks = {k for k in (_eff_key(e) for e in _relevant(pc.effects))}
                common = ks if common is None else (common & ks)
            ref_keys2 = {k[:2] for k in ref_keys}
            for k in sorted(common or (), key=str):
                if k[:2] in ref_keys2 or k not in all_ref_keys or (k[0] == "call" and str(k[1]).startswith("<local>.")):
                    continue
                if ("widened", k[:2]) in reported:
                    continue
                # only when the reviewed case decides strictly more than the current paths do (a guard disappeared)
                if not all(set(_norm_atoms(pc.atoms)) < set(ra) or set(_norm_atoms(pc.atoms)) == set(ra) for pc in cands):
                    continue
                reported.add(("widened", k[:2]))
                case = ", ".join(f"{kk}={'T' if v else 'F'}" for kk, v in ra.items() if not kk.startswith("more("))[:160]
                findings.append(("widened-effect", f"{k[0]} {k[1] if len(k) > 1 else ''}", None,
                                 f"in the reviewed case [{case}] the function did not perform `{k[0]} {' '.join(str(x) for x in k[1:])[:100]}`; every corresponding path now does (a guard was weakened or dropped)"))
        if best and best[0] > 0:
            score, missing, resdiff, pc = best
            case = ", ".join(f"{k}={'T' if v else 'F'}" for k, v in ra.items() if not k.startswith("more("))[:160]
            for m in missing:
                key = ("effect", m[:2])
                if key in reported:
                    continue
                reported.add(key)
                findings.append(("dropped-effect", f"{m[0]} {m[1] if len(m) > 1 else ''}", None,
                                 f"in the reviewed case [{case}] the function performed `{m[0]} {' '.join(str(x) for x in m[1:])[:120]}`; no corresponding path does so any more"))
            if resdiff and not missing:
                key = ("result", wres)
                if key not in reported:
                    reported.add(key)
                    findings.append(("changed-result", f"{wres[0]} {str(wres[1])[:60]}", None,
                                     f"in the reviewed case [{case}] the function ended with `{wres[0]} {wres[1]}`; it now ends with `{_res_key(pc)[0]} {_res_key(pc)[1]}`"))
    return findings


_sig_cache = {}


def _unique_signature(name):
    """parameters (names, defaults as text) of the only function/method called `name` in the reviewed
    package, or None when the name is ambiguous or unknown"""
    if name not in _sig_cache:
        ref = reference_repo()
        cands = [f for f in ref.all_functions() if f.name == name]
        sig = None
        if len(cands) == 1:
            a = cands[0].node.args
            if a.vararg is None and a.kwarg is None:
                names = [x.arg for x in a.posonlyargs + a.args]
                if names and names[0] in ("self", "cls"):
                    names = names[1:]
                defaults = dict(zip(reversed(names), reversed([u(d) for d in a.defaults])))
                for x, d in zip(a.kwonlyargs, a.kw_defaults):
                    names.append(x.arg)
                    if d is not None:
                        defaults[x.arg] = u(d)
                sig = (names, defaults)
        _sig_cache[name] = sig
    return _sig_cache[name]


def _bound_call(e):
    """a call effect with its arguments bound to the callee's parameter names (defaults dropped), when the
    callee is identified by its (package-unique) name: `f(a, None)` == `f(a)` == `f(x=a)`"""
    if e[0] != "call" or not isinstance(e[1], str):
        return e
    sig = _unique_signature(e[1].rsplit(".", 1)[-1])
    if sig is None:
        return e
    names, defaults = sig
    bound = {}
    pos = 0
    for x in e[2:]:
        if isinstance(x, tuple) and len(x) == 2 and isinstance(x[0], str) and x[0] in names:
            bound[x[0]] = x[1]
        else:
            if pos >= len(names):
                return e
            bound[names[pos]] = x
            pos += 1
    out = []
    for n in names:
        if n in bound:
            t = bound[n]
            tt = t if isinstance(t, str) else vtext(t)
            if n in defaults and tt == defaults[n]:
                continue
            out.append((n, t))
    return (e[0], e[1], *out)


def _fine(x):
    if isinstance(x, tuple):
        return tuple(_fine(y) for y in x)
    if isinstance(x, list):
        return tuple(_fine(y) for y in x)
    if isinstance(x, str):
        return _norm_atom(x)
    return _norm_atom(vtext(x))


def _first_diff(a, b):
    """first differing leaf of two nested tuples, as a pair of strings"""
    if isinstance(a, tuple) and isinstance(b, tuple):
        if len(a) != len(b):
            return (str(a)[:200], str(b)[:200])
        for x, y in zip(a, b):
            if x != y:
                return _first_diff(x, y)
        return (str(a)[:200], str(b)[:200])
    return (str(a), str(b))


def _res_equiv(pr, pc, ra):
    """same outcome, modulo: fall == return None; a returned predicate whose value the reviewed
    case fixed (``return c`` vs ``if c: return True; return False``); loop-bound artefacts"""
    a, b = _res_key(pr), _res_key(pc)
    if a == b:
        return True
    if any(e[0] == "loop-bound" for e in pr.effects) or any(e[0] == "loop-bound" for e in pc.effects):
        return True
    if a[0] == b[0] == "return":
        rv, cv = pr.result[1], pc.result[1]
        for x, y, atoms in ((rv, cv, ra), (cv, rv, _norm_atoms(pc.atoms))):
            if isinstance(x, bool) and hasattr(y, "text"):
                t = _norm_atom(y.text)
                if t in atoms and bool(atoms[t]) == x:
                    return True
                other = _norm_atoms(pc.atoms if atoms is ra else pr.atoms)
                if t in other and bool(other[t]) == x:
                    return True
                if t not in atoms and t not in other:
                    # the predicate is returned unevaluated on one side and branched on (to True/False) on the other
                    return True
    return False


def _is_subseq(a, b):
    it = iter(b)
    return all(x in it for x in a)


def new_module_state(repo, shorts):
    """module-level mutable containers absent from the reference that are mutated at run time"""
    from .flow import MUTATORS

    ref = reference_repo()
    out = []
    for short in shorts:
        try:
            m = repo.mod(short)
        except AnalysisError:
            continue
        try:
            rm = ref.mod(short)
            ref_globals = set(rm.globals)
        except AnalysisError:
            ref_globals = set()
        for g, vals in m.globals.items():
            if g in ref_globals:
                continue
            mutable = any(v is not None and isinstance(v, (ast.Dict, ast.List, ast.Set, ast.Call, ast.DictComp, ast.ListComp, ast.SetComp)) for v in vals)
            if not mutable:
                continue
            users = []
            for f in m.functions.values():
                if g in f.params:
                    continue
                for n in f.body_nodes():
                    if isinstance(n, ast.Name) and n.id == g:
                        users.append(f)
                        break
            muts = []
            for f in users:
                for n in f.body_nodes():
                    if isinstance(n, ast.Subscript) and isinstance(n.ctx, (ast.Store, ast.Del)) and isinstance(n.value, ast.Name) and n.value.id == g:
                        muts.append((f, n))
                    if isinstance(n, ast.Call) and isinstance(n.func, ast.Attribute) and n.func.attr in MUTATORS and isinstance(n.func.value, ast.Name) and n.func.value.id == g:
                        muts.append((f, n))
                    if isinstance(n, ast.Global) and g in n.names:
                        muts.append((f, n))
            if muts:
                out.append((short, g, muts[0][0], muts[0][1]))
                continue
            # an object built once at import time by package code (a parser, a state, a table loader) and then used
            # through its methods by every run in the process: whatever a run leaves in it (argparse keeps the
            # mutable default lists of its options) is seen by the next run
            pkg_names = {f.name for f in repo.all_functions()} | {c.name for mm in repo.modules.values() for c in mm.classes.values()}
            built = [v for v in vals if isinstance(v, ast.Call) and (u(v.func).split(".")[-1] in pkg_names or u(v.func).endswith("ArgumentParser"))]
            if built:
                for f in users:
                    for n in f.body_nodes():
                        if isinstance(n, ast.Call) and isinstance(n.func, ast.Attribute) and isinstance(n.func.value, ast.Name) and n.func.value.id == g:
                            out.append((short, g, f, n))
                            break
                    else:
                        continue
                    break
        # functools caches
        for f in m.functions.values():
            for d in f.node.decorator_list:
                dn = u(d.func if isinstance(d, ast.Call) else d)
                if dn.split(".")[-1] in ("cache", "lru_cache", "cached_property"):
                    try:
                        rf = ref.func(short, f.qualname)
                        if any(u(x.func if isinstance(x, ast.Call) else x) == dn for x in rf.node.decorator_list):
                            continue
                    except AnalysisError:
                        pass
                    out.append((short, f"@{dn} on {f.qualname}", f, f.node))
    return out


def removed_table_entries(repo, shorts):
    """Constant tables (module-level or class-level assignments of literal dicts / lists / tuples / sets) of the given
    modules: entries the reviewed snapshot has and the analysed tree no longer has in the same place (an extension
    moved to another language, a suffix dropped from a list, a key renamed).  Added entries are extensions and are
    not reported.  -> [(module, table name, description, lineno)]"""
    ref = reference_repo()
    out = []

    def tables(m):
        res = {}
        def scan(body, prefix):
            for st in body:
                if isinstance(st, ast.ClassDef):
                    scan(st.body, prefix + st.name + ".")
                elif isinstance(st, (ast.Assign, ast.AnnAssign)):
                    tgt = st.targets[0] if isinstance(st, ast.Assign) and len(st.targets) == 1 else getattr(st, "target", None)
                    if isinstance(tgt, ast.Subscript) and isinstance(tgt.value, ast.Name) and isinstance(tgt.slice, ast.Constant) and st.value is not None:
                        # TABLE["key"] = [...] at class / module level: one row of a table built row by row
                        try:
                            v = ast.literal_eval(st.value)
                        except Exception:
                            continue
                        res[f"{prefix}{tgt.value.id}[{tgt.slice.value!r}]"] = (v if isinstance(v, (dict, list, tuple, set)) else [v], st.lineno)
                        continue
                    if isinstance(tgt, ast.Name) and st.value is not None:
                        try:
                            v = ast.literal_eval(st.value)
                        except Exception:
                            continue
                        if isinstance(v, (dict, list, tuple, set)) and len(v) >= 2:
                            res[prefix + tgt.id] = (v, st.lineno)
        scan(m.tree.body, "")
        return res

    def flat(v, path=()):
        if isinstance(v, dict):
            for k, x in v.items():
                yield from flat(x, path + (repr(k),))
        elif isinstance(v, (list, tuple, set)) and all(isinstance(x, (str, int, float, bool)) or x is None for x in v):
            for x in v:
                yield path + (repr(x),)
        elif isinstance(v, (list, tuple)):
            for i, x in enumerate(v):
                yield from flat(x, path + (f"#{i}",))
        else:
            yield path + (repr(v),)

    for short in shorts:
        try:
            m, rm = repo.mod(short), ref.mod(short)
        except AnalysisError:
            continue
        ct, rt = tables(m), tables(rm)
        for name, (rv, _) in rt.items():
            if name not in ct:
                continue
            cv, line = ct[name]
            if cv == rv:
                continue
            gone = sorted(set(flat(rv)) - set(flat(cv)))
            for g in gone[:4]:
                out.append((short, name, " -> ".join(g), line))
    return out
