"""M3 - finite-atom path evaluator.

Enumerates the paths of a (nearly) loop-free decision procedure.  Every branch
test is reduced to a Boolean combination of *atoms* - normalised expressions the
engine cannot decide (calls, comparisons, subscripts).  Atoms are discovered
lazily: when a test needs an undecided atom the run is forked on both values
(deterministic re-execution under a growing assignment).  Rule-specific hooks
may decide atoms concretely (e.g. `node.is_start_node()` for a node *class*
taken from the class table) and name effects.

The result is a list of Path(atoms, effects, result): a decision table of the
analysed function.  Rules compare that table with a reference oracle.  Nothing
of the analysed program is executed: values are symbolic terms, only branch
*structure* is evaluated.

Loops: `for`/`while` are unrolled up to `unroll` iterations with an atom per
iteration deciding whether the iterator is exhausted / the condition holds.
Try/except: every simple statement in a try body that contains a call or a
subscript forks on "raises <handler type>" for each handler.
"""

from __future__ import annotations

import ast
import os
import re
from dataclasses import dataclass, field

from .model import AnalysisError, u

NOTHING = object()


class Sym:
    """Opaque symbolic value identified by canonical text."""

    __slots__ = ("text", "tag")

    def __init__(self, text, tag=None):
        self.text = text
        self.tag = tag

    def __repr__(self):
        return f"<{self.text}>"

    def __eq__(self, other):
        return isinstance(other, Sym) and other.text == self.text

    def __hash__(self):
        return hash(("Sym", self.text))


def vtext(v):
    if isinstance(v, Sym):
        return v.text
    if isinstance(v, (list, tuple)):
        o, c = ("[", "]") if isinstance(v, list) else ("(", ")")
        return o + ", ".join(vtext(x) for x in v) + c
    return repr(v)


class _Prune(Exception):
    """the path is not one of the (truncated) function: dropped"""


class _NeedAtom(Exception):
    def __init__(self, key):
        self.key = key


class _Return(Exception):
    def __init__(self, value):
        self.value = value


class _Raise(Exception):
    def __init__(self, text, node=None):
        self.text = text
        self.node = node


class _Break(Exception):
    pass


class _Continue(Exception):
    pass


class _Caught(Exception):
    def __init__(self, handler):
        self.handler = handler


@dataclass
class Path:
    atoms: dict
    effects: list
    result: tuple  # ("return", value) | ("raise", text) | ("fall", None)
    env: dict = field(default_factory=dict)

    def eff_names(self):
        return [e[0] for e in self.effects]

    def describe(self):
        a = ", ".join(f"{k}={'T' if v else 'F'}" for k, v in self.atoms.items())
        e = " ; ".join(_efftext(x) for x in self.effects)
        return f"[{a}] => {e} => {self.result[0]} {vtext(self.result[1]) if self.result[1] is not None else ''}"


def _efftext(e):
    return e[0] + "(" + ", ".join(vtext(x) for x in e[1:]) + ")"


class Hooks:
    """Override in rules."""

    unroll = 2

    def resolve(self, expr, st):
        """Return a concrete/symbolic value for `expr`, or NOTHING."""
        return NOTHING

    def on_call(self, call, ftext, args, kwargs, st):
        """Called for every evaluated call.  May record effects via st.effect()
        and return a value for the call, or NOTHING for the default (opaque
        symbolic result, recorded as effect ('call', text) when used as a
        statement)."""
        return NOTHING

    def on_store(self, target_text, value, st):
        return NOTHING

    def pure(self, ftext):
        """Is the call a pure predicate (same value each time)?"""
        return True

    def inline(self, call, ftext, st):
        """Return an ast.FunctionDef to inline for this call, or None."""
        return None

    # canonicalise d.pop(k, default) / d.get(k[, default]) / d.setdefault(k, v) into the membership
    # atom `k In d` (so that the idiom and the explicit `if k in d:` form give the same table)
    dict_idioms = True


class State:
    def __init__(self, hooks, assign):
        self.hooks = hooks
        self.assign = assign  # atom key -> bool (given)
        self.used = {}  # atoms actually consulted, in order
        self.env = {}
        self.mem = {}  # text -> value  (attribute/subscript stores)
        self.version = {}
        self.effects = []
        self.depth = 0
        self.counter = 0

    def effect(self, *e):
        self.effects.append(tuple(e))

    def atom(self, key):
        if key in self.used:
            return self.used[key]
        # a little arithmetic: `k < len(X)` is monotone in k, so atoms already decided on this path may
        # decide this one (keeps infeasible combinations like 2 < len(X) false, 3 < len(X) true out of the table)
        m = _LEN_BOUND.match(key)
        if m:
            k = int(m.group(1))
            what = m.group(2)
            for other, val in self.used.items():
                mo = _LEN_BOUND.match(other)
                if mo and mo.group(2) == what:
                    j = int(mo.group(1))
                    if val and k <= j:
                        return True
                    if not val and k >= j:
                        return False
        if key not in self.assign:
            raise _NeedAtom(key)
        self.used[key] = self.assign[key]
        return self.used[key]

    def bump(self, base):
        self.version[base] = self.version.get(base, 0) + 1
        for k in [k for k in self.mem if _base(k) == base]:
            del self.mem[k]

    def store_key(self, tt):
        """a store to an attribute / element invalidates what is known about that location only"""
        for k in [k for k in self.mem if k == tt or k.startswith(tt + ".") or k.startswith(tt + "[")]:
            del self.mem[k]

    def bump_store(self, tt):
        """a store to `x.attr...` changes that attribute of x (and what hangs below it), not the rest of x"""
        m = re.match(r"(\w+)\.(\w+)", tt)
        if m:
            self.bump_attrs(m.group(1), [m.group(2)])
        else:
            self.bump(_base(tt))

    def bump_attrs(self, recv, attrs):
        """a method call on `recv` that is known to write only the given attributes of it"""
        for a in attrs:
            k = f"{recv}.{a}"
            self.version[k] = self.version.get(k, 0) + 1
            for m in [m for m in self.mem if m == k or m.startswith(k + ".") or m.startswith(k + "[")]:
                del self.mem[m]

    def vkey(self, text):
        b = _base(text)
        v = self.version.get(b, 0)
        m = re.match(r"\w+\.\w+", text)
        if m:
            v += self.version.get(m.group(0), 0)
        if v:
            # a value read through a local that was bound in the same epoch (`t = x.a; t[i]`) is the value read
            # directly (`x.a[i]`): the mark of the binding is dropped when nothing was written in between
            m2 = re.fullmatch(rf"(.*)@{v}((?:\[[^\[\]]*\]|\.\w+)+)", text)
            if m2 and _base(m2.group(1)) == b:
                text = m2.group(1) + m2.group(2)
        return text if not v else f"{text}@{v}"


import builtins as _b

_BUILTIN_NAMES = set(dir(_b))
_RAISERS = {}


def _pkg_raisers(repo):
    """exception class defined in the package -> (names of functions/classes that may raise it transitively,
    names of all functions/classes of the package)"""
    key = repo.root
    if key in _RAISERS:
        return _RAISERS[key]
    classes = {}
    for m in repo.modules.values():
        for n in ast.walk(m.tree):
            if isinstance(n, ast.ClassDef):
                classes[n.name] = [u(b).split(".")[-1] for b in n.bases]
    def is_exc(c, seen=()):
        if c in seen:
            return False
        return any(b.endswith("Error") or b.endswith("Exception") or (b in classes and is_exc(b, seen + (c,))) for b in classes.get(c, []))
    excs = [c for c in classes if is_exc(c)]
    def subclasses(e):
        out = {e}
        changed = True
        while changed:
            changed = False
            for c, bs in classes.items():
                if c not in out and any(b in out for b in bs):
                    out.add(c)
                    changed = True
        return out
    direct, calls = {}, {}
    known = set(classes)
    for f in repo.all_functions():
        owner = [f.name]
        if f.cls is not None and f.name in ("__init__", "__post_init__"):
            owner.append(f.cls.name)
        known.add(f.name)
        for n in ast.walk(f.node):
            if isinstance(n, ast.Raise) and n.exc is not None:
                t = u(n.exc.func if isinstance(n.exc, ast.Call) else n.exc).split(".")[-1]
                for o in owner:
                    direct.setdefault(t, set()).add(o)
            elif isinstance(n, ast.Call):
                nm = n.func.attr if isinstance(n.func, ast.Attribute) else n.func.id if isinstance(n.func, ast.Name) else None
                if nm:
                    for o in owner:
                        calls.setdefault(o, set()).add(nm)
    out = {}
    for e in excs:
        r = set()
        for sc in subclasses(e):
            r |= direct.get(sc, set())
        changed = True
        while changed:
            changed = False
            for fn, cs in calls.items():
                if fn not in r and cs & r:
                    r.add(fn)
                    changed = True
        out[e] = (r, known)
    _RAISERS[key] = out
    return out


_LEN_BOUND = re.compile(r"(\d+) Lt (len\(.*\))$")


def _base(text):
    i = 0
    while i < len(text) and (text[i].isalnum() or text[i] == "_"):
        i += 1
    return text[:i]


FUNC_INDEX = {}  # id(ast FunctionDef) -> FuncInfo (filled by sa.model)


class Evaluator:
    def __init__(self, hooks: Hooks, max_paths=20000):
        self.hooks = hooks
        self.max_paths = max_paths
        self.fi = None

    def _one_sided_helper(self, c, ftext):
        """A call to a function of the same module that exists only on one side of the
        (analysed tree, reviewed snapshot) pair is an extract-method / inline-method
        refactoring: interpret the callee's body in place."""
        fi = self.fi
        if fi is None:
            return None
        name = None
        if isinstance(c.func, ast.Name):
            name = c.func.id
        elif isinstance(c.func, ast.Attribute) and isinstance(c.func.value, ast.Name) and c.func.value.id in ("self", "cls"):
            name = c.func.attr
        elif isinstance(c.func, ast.Attribute) and fi.cls is not None and u(c.func.value) == fi.cls.name:
            name = c.func.attr
        if name is None:
            return None
        m = fi.module
        cand = None
        p = fi
        while p is not None and cand is None:
            cand = m.functions.get(p.qualname + "." + name)
            p = p.parent
        if cand is None and fi.cls is not None and isinstance(c.func, ast.Attribute):
            cand = fi.cls.find_method(name)
        if cand is None and isinstance(c.func, ast.Name):
            cand = m.functions.get(name)
        if cand is None or cand.node is fi.node:
            return None
        try:
            from .review import other_side

            o = other_side(m.repo)
            om = o.modules.get(m.name)
            if om is None or cand.qualname in om.functions:
                return None
        except Exception:
            return None
        return cand.node

    # -- public ----------------------------------------------------------
    def paths(self, fn: ast.FunctionDef, params=None, body=None):
        self.fi = FUNC_INDEX.get(id(fn))
        try:
            self.hooks.fi = self.fi
        except Exception:
            pass
        results = []
        work = [dict()]
        seen = set()
        n = 0
        while work:
            assign = work.pop()
            n += 1
            if n > self.max_paths:
                raise AnalysisError(f"path explosion in {fn.name} (> {self.max_paths})")
            st = State(self.hooks, assign)
            if hasattr(self.hooks, "begin_path"):
                self.hooks.begin_path()  # hooks that keep a model state of their own start every path from the same state
            if body is None:
                for k_, v_ in _unpassed_new_defaults(self.fi).items():
                    st.env[k_] = v_
                for k_, e_ in _enclosing_bindings(self.fi).items():
                    if k_ not in st.env:
                        st.env[k_] = Sym(u(e_))  # a name the enclosing function binds once to a memoised function of its parameter
            if params:
                st.env.update(params)
            try:
                res = self._run_fn_body(body if body is not None else fn.body, st)
            except _Prune:
                continue
            except _NeedAtom as na:
                a1 = dict(assign)
                a1[na.key] = True
                a0 = dict(assign)
                a0[na.key] = False
                work.append(a1)
                work.append(a0)
                continue
            sig = tuple(sorted(st.used.items()))
            if sig in seen:
                continue
            seen.add(sig)
            env_ = dict(st.env)
            if hasattr(self.hooks, "end_path"):
                env_["__model__"] = self.hooks.end_path()
            results.append(Path(dict(st.used), st.effects, res, env_))
        return results

    def _run_fn_body(self, body, st):
        try:
            self.block(body, st)
            return ("fall", None)
        except _Return as r:
            return ("return", r.value)
        except _Raise as r:
            return ("raise", r.text)
        except _Break:
            return ("break", None)
        except _Continue:
            return ("continue", None)

    # -- statements --------------------------------------------------------
    def block(self, stmts, st):
        for s in stmts:
            self.stmt(s, st)

    def stmt(self, s, st):
        if isinstance(s, ast.Expr):
            if isinstance(s.value, ast.Constant):
                return
            if isinstance(s.value, ast.Call):
                c0 = s.value
                if (isinstance(c0.func, ast.Attribute) and c0.func.attr in ("update", "extend") and len(c0.args) == 1 and not c0.keywords
                        and isinstance(c0.args[0], (ast.GeneratorExp, ast.ListComp)) and not (c0.func.attr == "update" and isinstance(c0.args[0].elt, ast.Tuple))):
                    # S.update(e for x in it if c) / L.extend(...)  ==  for x in it: if c: S.add(e) / L.append(e)
                    key = id(s)
                    if key not in _YF:
                        comp = c0.args[0]
                        one = "add" if c0.func.attr == "update" else "append"
                        body = [ast.Expr(value=ast.Call(func=ast.Attribute(value=c0.func.value, attr=one, ctx=ast.Load()), args=[comp.elt], keywords=[]))]
                        for g in reversed(comp.generators):
                            if g.ifs:
                                body = [ast.If(test=g.ifs[0] if len(g.ifs) == 1 else ast.BoolOp(op=ast.And(), values=list(g.ifs)), body=body, orelse=[])]
                            body = [ast.For(target=g.target, iter=g.iter, body=body, orelse=[])]
                        loop = body[0]
                        ast.fix_missing_locations(ast.copy_location(loop, s))
                        _YF[key] = (s, loop)
                    self.loop(_YF[key][1], st)
                    return
                self.call(s.value, st, as_stmt=True)
                return
            if isinstance(s.value, ast.YieldFrom) and isinstance(s.value.value, (ast.GeneratorExp, ast.ListComp)) and len(s.value.value.generators) == 1:
                # yield from (e for x in it if c)  ==  for x in it: if c: yield e
                g = s.value.value.generators[0]
                y = ast.Expr(value=ast.Yield(value=s.value.value.elt))
                body = [y] if not g.ifs else [ast.If(test=g.ifs[0] if len(g.ifs) == 1 else ast.BoolOp(op=ast.And(), values=list(g.ifs)), body=[y], orelse=[])]
                loop = ast.For(target=g.target, iter=g.iter, body=body, orelse=[])
                ast.fix_missing_locations(ast.copy_location(loop, s))
                key = id(s)
                loop = _YF.setdefault(key, (s, loop))[1]
                self.loop(loop, st)
                return
            if isinstance(s.value, (ast.Yield, ast.YieldFrom)):
                v = self.ev(s.value.value, st) if s.value.value is not None else None
                st.effect("yield" if isinstance(s.value, ast.Yield) else "yield_from", v)
                return
            self.ev(s.value, st)
            return
        if isinstance(s, ast.Assign):
            c1 = s.value
            if (len(s.targets) == 1 and isinstance(s.targets[0], (ast.Attribute, ast.Name)) and isinstance(c1, ast.Call) and isinstance(c1.func, ast.Name)
                    and c1.func.id in ("max", "min") and len(c1.args) == 2 and not c1.keywords and c1.func.id not in st.env):
                # t = max(t, v)  is  if v > t: t = v   (likewise min / <)
                tt1 = u(s.targets[0])
                others = [a for a in c1.args if u(a) != tt1]
                if len(others) == 1 and not any(isinstance(n, (ast.Call, ast.NamedExpr)) for n in ast.walk(others[0])):
                    cmp_ = ast.Compare(left=others[0], ops=[ast.Gt() if c1.func.id == "max" else ast.Lt()], comparators=[ast.copy_location(type(s.targets[0])(**{**{f: getattr(s.targets[0], f) for f in s.targets[0]._fields}, "ctx": ast.Load()}), s.targets[0])])
                    body = ast.Assign(targets=s.targets, value=others[0])
                    if_ = ast.If(test=cmp_, body=[body], orelse=[])
                    ast.fix_missing_locations(ast.copy_location(if_, s))
                    ast.copy_location(body, s)
                    ast.fix_missing_locations(body)
                    return self.stmt(if_, st)
            v = self.ev(s.value, st)
            for t in s.targets:
                self.assign(t, v, st)
            return
        if isinstance(s, ast.AnnAssign):
            if s.value is not None:
                self.assign(s.target, self.ev(s.value, st), st)
            return
        if isinstance(s, ast.AugAssign):
            cur = self.ev(s.target, st)
            v = self.ev(s.value, st)
            new = Sym(f"({vtext(cur)} {type(s.op).__name__} {vtext(v)})")
            if isinstance(s.op, ast.Add) and (isinstance(cur, str) or _is_f(cur) or isinstance(v, str) or _is_f(v)) and not (isinstance(cur, str) and isinstance(v, str)):
                lp, rp = _fparts(cur), _fparts(v)
                if lp is not None and rp is not None:
                    new = _fstring(lp + rp, s)  # text += piece  is  text + piece
            if isinstance(s.op, ast.Add) and isinstance(cur, list):
                new = cur + (v if isinstance(v, list) else [Sym("*" + vtext(v))])
            elif isinstance(cur, (int, float)) and isinstance(v, (int, float)) and not isinstance(cur, bool):
                try:
                    new = _binop(s.op, cur, v)
                except Exception:
                    pass
            tt = u(s.target)
            if isinstance(s.target, ast.Name):
                st.env[s.target.id] = new
                st.effect("aug", tt, type(s.op).__name__, v)
            else:
                tt = self.subst_text(s.target, st, lvalue=True)
                r = self.hooks.on_store(tt, ("aug", type(s.op).__name__, v), st)
                if r is NOTHING:
                    st.effect("aug", tt, type(s.op).__name__, v)
                st.bump_store(tt)
                st.mem[tt] = new
            return
        if isinstance(s, ast.If):
            if self.truth(s.test, st):
                self.block(s.body, st)
            else:
                self.block(s.orelse, st)
            return
        if isinstance(s, ast.Return):
            raise _Return(self.ev(s.value, st) if s.value is not None else None)
        if isinstance(s, ast.Raise):
            raise _Raise(u(s.exc) if s.exc is not None else "reraise", s)
        if isinstance(s, ast.Pass):
            return
        if isinstance(s, ast.Break):
            raise _Break()
        if isinstance(s, ast.Continue):
            raise _Continue()
        if isinstance(s, (ast.For, ast.While)):
            self.loop(s, st)
            return
        if isinstance(s, ast.Try):
            self.try_(s, st)
            return
        if isinstance(s, ast.With):
            for item in s.items:
                v = self.ev(item.context_expr, st)
                if item.optional_vars is not None:
                    self.assign(item.optional_vars, Sym(f"with({vtext(v)})"), st)
            self.block(s.body, st)
            return
        if isinstance(s, (ast.FunctionDef, ast.ClassDef, ast.Import, ast.ImportFrom, ast.Global, ast.Nonlocal)):
            return
        if isinstance(s, ast.Delete):
            for t in s.targets:
                tt = self.subst_text(t, st, lvalue=True)
                r = self.hooks.on_store(tt, ("del",), st)
                if r is NOTHING:
                    st.effect("del", tt)
                st.bump_store(tt)
            return
        if isinstance(s, ast.Assert):
            return
        raise AnalysisError(f"decision engine: unsupported statement {type(s).__name__}: {u(s)[:80]}")

    def assign(self, t, v, st):
        if isinstance(t, ast.Name):
            st.env[t.id] = v
            return
        if isinstance(t, (ast.Tuple, ast.List)):
            for i, e in enumerate(t.elts):
                if isinstance(v, (list, tuple)) and len(v) == len(t.elts):
                    self.assign(e, v[i], st)
                else:
                    self.assign(e, Sym(f"{vtext(v)}[{i}]"), st)
            return
        tt = self.subst_text(t, st, lvalue=True)
        r = self.hooks.on_store(tt, v, st)
        if r is NOTHING:
            st.effect("store", tt, v)
        if "[" in tt:
            st.bump_store(tt)  # an element store may alias other element reads of the same container
        else:
            st.store_key(tt)
        st.mem[tt] = v

    def loop(self, s, st):
        k = self.hooks.unroll
        if isinstance(s, ast.For):
            d = _desugar_filtered_loop(s)
            if d is None and isinstance(s.iter, ast.Name):
                v0 = st.env.get(s.iter.id)
                if isinstance(v0, Sym) and v0.tag and v0.tag[0] == "comp" and len(v0.tag) == 3 and isinstance(v0.tag[1], (ast.ListComp, ast.GeneratorExp)):
                    # `xs = [e for n in it if c]` ... `for x in xs:` with nothing the comprehension reads changed in between
                    snap = v0.tag[2]
                    if all(vtext(st.env.get(k, NOTHING)) == t for k, t in snap.items()):
                        key = (id(s), id(v0.tag[1]))
                        if key not in _DESUGARED:
                            s2 = ast.For(target=s.target, iter=v0.tag[1], body=s.body, orelse=s.orelse)
                            ast.copy_location(s2, s)
                            _DESUGARED[key] = (s, _desugar_filtered_loop(s2))
                        d = _DESUGARED[key][1]
            if d is not None:
                s = d
            # `for i, x in enumerate(X[, start])` visits the elements of X; i is the position (+ start)
            enum_target, enum_start = None, 0
            if (isinstance(s.iter, ast.Call) and isinstance(s.iter.func, ast.Name) and s.iter.func.id == "enumerate" and len(s.iter.args) in (1, 2)
                    and isinstance(s.target, ast.Tuple) and len(s.target.elts) == 2 and isinstance(s.target.elts[0], ast.Name)
                    and all(k_.arg == "start" for k_ in s.iter.keywords) and len(s.iter.args) + len(s.iter.keywords) <= 2):
                sv = s.iter.args[1] if len(s.iter.args) == 2 else s.iter.keywords[0].value if s.iter.keywords else None
                if sv is None or (isinstance(sv, ast.Constant) and isinstance(sv.value, int)):
                    enum_target, enum_start = s.target.elts[0], (sv.value if sv is not None else 0)
                    s2 = ast.For(target=s.target.elts[1], iter=s.iter.args[0], body=s.body, orelse=s.orelse)
                    ast.copy_location(s2, s)
                    s = s2
            it = self.ev(s.iter, st)
            ittext = vtext(it)
            concrete = it if isinstance(it, (list, tuple)) else None
            if concrete is not None and hasattr(self.hooks, "trim"):
                concrete = self.hooks.trim(concrete)  # a rule may look at the first element(s) of a constant list only
            # a loop over d.values() / d.keys() visits the entries of d.items(): denote its items that way
            part = None
            if concrete is None and isinstance(s.iter, ast.Call) and isinstance(s.iter.func, ast.Attribute) and not s.iter.args and s.iter.func.attr in ("values", "keys"):
                mm = re.fullmatch(r"(.*)\.(values|keys)\(\)([#@]\d+)?", ittext)
                if mm:
                    part = 1 if mm.group(2) == "values" else 0
                    ittext = f"{mm.group(1)}.items(){mm.group(3) or ''}"
            if part is None and concrete is None and isinstance(s.iter, (ast.Name, ast.Attribute, ast.Subscript)) and isinstance(s.target, ast.Name) and isinstance(it, Sym):
                # `for k in d:` where the body reads d[k]: d is a mapping and the loop visits its keys (= `for k in d.keys():`)
                it_src = u(s.iter)
                if any(isinstance(n, ast.Subscript) and u(n.value) == it_src and isinstance(n.slice, ast.Name) and n.slice.id == s.target.id for b in s.body for n in ast.walk(b)):
                    part = 0
                    ittext = f"{ittext}.items()"
            st.counter += 1
            lid = f"{ittext}#L{st.counter}"
            i = 0
            broke = False
            lc = st.counter

            def items():
                if concrete is not None:
                    # a list known element by element; `*xs` elements stand for the (unknown many) elements of xs
                    for x in concrete:
                        if isinstance(x, Sym) and x.text.startswith("*"):
                            star = x.text[1:]
                            j = 0
                            while True:
                                if j >= k:
                                    st.effect("loop-bound", star)
                                    break
                                if not st.atom(f"more({star}#L{lc},{j})"):
                                    break
                                yield Sym(f"{star}[{j}]", tag=("item", star, j))
                                j += 1
                        else:
                            yield x
                    return
                n = 0
                while True:
                    if n >= k:
                        # bound reached: assume exhausted (paths needing more are cut)
                        st.effect("loop-bound", ittext)
                        return
                    if not st.atom(f"more({lid},{n})"):
                        return
                    if part is not None:
                        yield Sym(f"{ittext}[{n}][{part}]", tag=("item", ittext, n))
                    else:
                        yield Sym(f"{ittext}[{n}]", tag=("item", ittext, n))
                    n += 1

            pos = enum_start
            exact = True
            for item in items():
                self.assign(s.target, item, st)
                if enum_target is not None:
                    if isinstance(item, Sym) and item.tag and item.tag[0] == "item" and concrete is not None:
                        exact = False  # position inside a `*xs` part of a list display: not a known number
                    self.assign(enum_target, pos if exact else Sym(f"position({vtext(item)})"), st)
                    pos += 1
                try:
                    self.block(s.body, st)
                except _Break:
                    broke = True
                    break
                except _Continue:
                    pass
            if not broke:
                self.block(s.orelse, st)
            return
        # while
        i = 0
        broke = False
        while True:
            if i >= k + getattr(self.hooks, 'while_extra', 1):
                st.effect("loop-bound", u(s.test))
                break
            if not self.truth(s.test, st):
                break
            try:
                self.block(s.body, st)
            except _Break:
                broke = True
                break
            except _Continue:
                pass
            i += 1
        if not broke:
            self.block(s.orelse, st)

    def try_(self, s, st):
        def run_body():
            for b in s.body:
                if self._may_raise_stmt(b):
                    for h in s.handlers:
                        ht = u(h.type) if h.type is not None else "BaseException"
                        if not self._may_raise_exc(b, ht):
                            continue
                        subs = [n for n in ast.walk(b) if isinstance(n, ast.Subscript) and isinstance(n.ctx, ast.Load) and not isinstance(n.slice, ast.Slice)]
                        if ht == "KeyError" and not subs and not any(isinstance(n, (ast.Call, ast.Delete)) for n in ast.walk(b)):
                            continue  # nothing in the statement looks anything up by key (slices and attribute reads do not raise KeyError)
                        if ht == "KeyError" and len(subs) == 1 and not any(isinstance(n, ast.Call) for n in ast.walk(b)):
                            # `try: ... d[k] ... except KeyError` is the membership idiom: same atom as `k in d`
                            kv = self.ev(subs[0].slice, st)
                            present = st.atom(st.vkey(f"{vtext(kv)} In {self.subst_text(subs[0].value, st)}"))
                            if not present:
                                raise _Caught(h)
                            continue
                        if st.atom(st.vkey(f"raises({u(b)[:70]} -> {ht})")):
                            raise _Caught(h)
                try:
                    self.stmt(b, st)
                except _Raise as r:
                    h = self._match_handler(s, r)
                    if h is None:
                        raise
                    raise _Caught(h)

        try:
            try:
                run_body()
                self.block(s.orelse, st)
            except _Caught as c:
                if c.handler.name:
                    st.env[c.handler.name] = Sym(f"exc:{u(c.handler.type) if c.handler.type else ''}")
                st.effect("caught", u(c.handler.type) if c.handler.type is not None else "*")
                self.block(c.handler.body, st)
        finally:
            pass
        if s.finalbody:
            self.block(s.finalbody, st)

    def _match_handler(self, s, r):
        exc = r.text.split("(")[0]
        for h in s.handlers:
            if h.type is None:
                return h
            types = [u(e) for e in h.type.elts] if isinstance(h.type, ast.Tuple) else [u(h.type)]
            if exc in types or "Exception" in types or "BaseException" in types:
                return h
            # ValueError subclasses declared in the package are matched by name only
        return None

    def _may_raise_exc(self, b, ht):
        """can statement `b` raise the package-defined exception `ht`?  Only code of the package raises such
        an exception: the statement must call (by name) something that transitively contains `raise ht`
        (or a subclass), or call a value of unknown origin.  Other exception types: anything may raise them."""
        fi = self.fi
        if fi is None:
            return True
        table = _pkg_raisers(fi.module.repo)
        if ht not in table:
            return True
        raisers, known = table[ht]
        for n in ast.walk(b):
            if isinstance(n, ast.Call):
                name = n.func.attr if isinstance(n.func, ast.Attribute) else n.func.id if isinstance(n.func, ast.Name) else None
                if name is None or name in raisers:
                    return True
                if name not in known and name not in _BUILTIN_NAMES:
                    # an unknown callable (local variable, parameter, stdlib function): stdlib never raises a package exception,
                    # a callable held in a variable may be anything
                    if isinstance(n.func, ast.Name):
                        return True
        return False

    def _may_raise_stmt(self, b):
        if isinstance(b, (ast.If, ast.For, ast.While, ast.Try, ast.With, ast.Raise)):
            return False
        for n in ast.walk(b):
            if isinstance(n, (ast.Call, ast.Subscript)):
                return True
        return False

    # -- expressions -------------------------------------------------------
    def subst_text(self, e, st, lvalue=False):
        """Text of an l-value / call receiver with local aliases substituted."""
        if isinstance(e, ast.Name):
            v = st.env.get(e.id, NOTHING)
            if isinstance(v, Sym):
                return v.text
            return e.id
        if isinstance(e, ast.Attribute):
            tt = f"{self.subst_text(e.value, st)}.{e.attr}"
            if not lvalue and isinstance(st.mem.get(tt), Sym):
                return st.mem[tt].text  # the location was assigned a symbolic value: denote it by that value
            return tt
        if isinstance(e, ast.Subscript):
            sv = self.ev(e.slice, st)
            bt = self.subst_text(e.value, st)
            if isinstance(e.value, ast.Name) and not lvalue and isinstance(sv, int) and not isinstance(sv, bool):
                # an element of a local list that is known element by element is that element, whatever the list is called
                lv_ = st.env.get(e.value.id, NOTHING)
                if isinstance(lv_, (list, tuple)) and -len(lv_) <= sv < len(lv_) and not any(isinstance(x, Sym) and x.text.startswith("*") for x in lv_):
                    el_ = lv_[sv]
                    if isinstance(el_, Sym):
                        return el_.text
            if isinstance(e.value, ast.Name) and not lvalue:
                # a table of constants is the same table under any name (a local, or a module-level constant)
                tv_ = st.env.get(e.value.id, NOTHING)
                if tv_ is NOTHING:
                    mc_ = _module_constant(self.fi, e.value.id)
                    if isinstance(mc_, (ast.List, ast.Tuple)) and all(isinstance(x, ast.Constant) for x in mc_.elts):
                        tv_ = [x.value for x in mc_.elts]
                if isinstance(tv_, (list, tuple)) and tv_ and all(isinstance(x, (str, int, float)) or x is None for x in tv_) and len(tv_) <= 40:
                    bt = vtext(list(tv_))
            it = vtext(sv)
            # d[k] where k is the key of the i-th item of d is the value of that item
            m = re.fullmatch(re.escape(bt) + r"\.items\(\)((?:[#@]\d+)?)\[(\d+)\]\[0\]", it)
            if m:
                return f"{bt}.items(){m.group(1)}[{m.group(2)}][1]"
            return f"{bt}[{it}]"
        if isinstance(e, ast.Call):
            v = self.ev(e, st)
            return vtext(v)
        return u(e)

    def _dict_lookup(self, base, idx, st):
        """D[k] for a dict display with constant keys: the value of the first key equal to k (a dispatch table is
        the if/elif chain over its keys); NOTHING when k matches no key (the caller decides: KeyError / default)"""
        members = base.tag[1]
        if isinstance(idx, (str, int, float)) or idx is None:
            return self.ev(members[idx], st) if idx in members else NOTHING
        if isinstance(idx, Sym) and len(members) <= 12:
            for c, vnode in members.items():
                if self._cmp1(ast.Eq(), idx, c, st):
                    return self.ev(vnode, st)
        return NOTHING

    def closure_text(self, e, st):
        """text of a comprehension / lambda / display with its free local names replaced by the
        values they hold on this path (so that a changed operand is visible in the text)"""
        bound = set()
        for n in ast.walk(e):
            if isinstance(n, ast.comprehension):
                bound |= {x.id for x in ast.walk(n.target) if isinstance(x, ast.Name)}
            elif isinstance(n, ast.Lambda):
                a = n.args
                bound |= {x.arg for x in a.args + a.kwonlyargs + a.posonlyargs}
                bound |= {x.arg for x in (a.vararg, a.kwarg) if x is not None}
            elif isinstance(n, ast.NamedExpr):
                bound.add(n.target.id)
        free = {n.id for n in ast.walk(e) if isinstance(n, ast.Name) and isinstance(n.ctx, ast.Load)} - bound
        m = {}
        for name in free:
            v = st.env.get(name, NOTHING)
            if v is NOTHING:
                continue
            if isinstance(v, tuple) and all(isinstance(x, (str, int, float)) or x is None for x in v):
                v = list(v)  # iterating / testing membership in a tuple or a list of constants is the same
            t = vtext(v)
            if t != name and len(t) < 400:
                m[name] = t
        # bound names are denoted positionally (renaming a comprehension variable changes nothing)
        order = []
        for n in ast.walk(e):
            if isinstance(n, ast.comprehension):
                for x in ast.walk(n.target):
                    if isinstance(x, ast.Name) and x.id not in order:
                        order.append(x.id)
            elif isinstance(n, ast.Lambda):
                for x in n.args.posonlyargs + n.args.args + n.args.kwonlyargs:
                    if x.arg not in order:
                        order.append(x.arg)
        for i, name in enumerate(order):
            m[name] = f"_c{i}"
        import copy

        e2 = _Rename(m).visit(copy.deepcopy(e))
        for n in ast.walk(e2):
            if isinstance(n, ast.comprehension) and isinstance(n.iter, ast.Tuple) and all(isinstance(x, ast.Constant) for x in n.iter.elts):
                n.iter = ast.copy_location(ast.List(elts=n.iter.elts, ctx=ast.Load()), n.iter)  # iterating a tuple or a list of constants

        class _Mem(ast.NodeTransformer):
            def visit_Attribute(self_, n):
                self_.generic_visit(n)
                v = st.mem.get(u(n))
                if isinstance(n.ctx, ast.Load) and isinstance(v, Sym) and len(v.text) < 400:
                    return ast.copy_location(ast.Name(id=v.text, ctx=ast.Load()), n)
                return n

        if st.mem:
            e2 = _Mem().visit(e2)
        for n in ast.walk(e2):
            if isinstance(n, ast.arg) and n.arg in m:
                n.arg = m[n.arg]
        return u(e2)

    def ev(self, e, st):
        r = self.hooks.resolve(e, st)
        if r is not NOTHING:
            return r
        if isinstance(e, ast.Constant):
            return e.value
        if isinstance(e, ast.Name):
            if e.id in st.env:
                return st.env[e.id]
            if e.id in ("True", "False", "None"):
                return {"True": True, "False": False, "None": None}[e.id]
            k = _module_constant(self.fi, e.id)
            if k is not None:
                return self.ev(k, st)  # a module-level table of constants is its literal
            return Sym(e.id)
        if isinstance(e, (ast.List, ast.Tuple)):
            vals = [self.ev(x, st) for x in e.elts]
            return vals if isinstance(e, ast.List) else tuple(vals)
        if isinstance(e, ast.Call):
            return self.call(e, st)
        if isinstance(e, (ast.Attribute, ast.Subscript)):
            tt = self.subst_text(e, st)
            if tt in st.mem:
                return st.mem[tt]
            if isinstance(e, ast.Attribute) and isinstance(e.value, ast.Name) and (e.value.id in ("self", "cls") or e.value.id not in st.env):
                kc = _class_constant(self.fi, e.value.id, e.attr)
                if kc is not None:
                    return self.ev(kc, st)  # a class-level table of constants is its literal
            if isinstance(e, ast.Subscript):
                base = self.ev(e.value, st)
                if isinstance(base, (list, tuple)) and not isinstance(e.slice, ast.Slice):
                    idx = self.ev(e.slice, st)
                    if isinstance(idx, int) and -len(base) <= idx < len(base):
                        return base[idx]
                if isinstance(base, Sym) and base.tag and base.tag[0] == "dict" and base.tag[1] is not None and not isinstance(e.slice, ast.Slice) and isinstance(e.ctx, ast.Load):
                    idx = self.ev(e.slice, st)
                    got = self._dict_lookup(base, idx, st)
                    if got is not NOTHING:
                        return got
                if isinstance(base, dict):
                    idx = self.ev(e.slice, st)
                    try:
                        if idx in base:
                            return base[idx]
                    except TypeError:
                        pass
            return Sym(st.vkey(tt))
        if isinstance(e, ast.BoolOp):
            # value semantics of and/or on symbolic operands: fork on truthiness
            last = None
            for i, x in enumerate(e.values):
                last = self.ev(x, st)
                if i == len(e.values) - 1:
                    return last  # the value of the last operand is the result, whatever its truth
                t = self.truth_of(last, st)
                if isinstance(e.op, ast.And) and not t:
                    return last
                if isinstance(e.op, ast.Or) and t:
                    return last
            return last
        if isinstance(e, ast.UnaryOp) and isinstance(e.op, ast.Not):
            return not self.truth(e.operand, st)
        if isinstance(e, ast.UnaryOp) and isinstance(e.op, ast.USub):
            v = self.ev(e.operand, st)
            if isinstance(v, (int, float)) and not isinstance(v, bool):
                return -v
            return Sym(f"-{vtext(v)}")
        if isinstance(e, ast.Compare):
            return self.compare(e, st)
        if isinstance(e, ast.IfExp):
            return self.ev(e.body, st) if self.truth(e.test, st) else self.ev(e.orelse, st)
        if isinstance(e, ast.BinOp):
            l = self.ev(e.left, st)
            r_ = self.ev(e.right, st)
            if isinstance(l, bool) and isinstance(r_, bool) and isinstance(e.op, (ast.BitXor, ast.BitOr, ast.BitAnd)):
                # decided truth values combine without a further case split
                return (l ^ r_) if isinstance(e.op, ast.BitXor) else (l | r_) if isinstance(e.op, ast.BitOr) else (l & r_)
            if isinstance(e.op, ast.Add):
                # string building: "lit" + x, f"..." + f"..." and the single f-string are one and the same text
                lp, rp = _fparts(l), _fparts(r_)
                if lp is not None and rp is not None and (isinstance(l, str) or isinstance(r_, str) or _is_f(l) or _is_f(r_)) and not (isinstance(l, str) and isinstance(r_, str)):
                    return _fstring(lp + rp, e)
            if isinstance(e.op, ast.Add) and (isinstance(l, list) or isinstance(r_, list)) and not isinstance(l, (str, int, float)) and not isinstance(r_, (str, int, float)):
                ll = l if isinstance(l, list) else [Sym("*" + _unlist(vtext(l)))]
                rr = r_ if isinstance(r_, list) else [Sym("*" + _unlist(vtext(r_)))]
                return ll + rr
            if (
                isinstance(l, (int, float, str))
                and isinstance(r_, (int, float, str))
                and not isinstance(l, bool)
                and not isinstance(r_, bool)
            ):
                try:
                    return _binop(e.op, l, r_)
                except Exception:
                    pass
            if isinstance(e.op, ast.Mult):
                # [c] * len(X) == [c for _ in X]
                for a, b in ((l, r_), (r_, l)):
                    if isinstance(a, list) and len(a) == 1 and not isinstance(a[0], (Sym, list, tuple, dict)) and isinstance(b, Sym) and b.tag and b.tag[0] == "call" and b.tag[1] == "len" and len(b.tag[2]) == 1:
                        return Sym(f"comp:[{a[0]!r} for _c0 in {vtext(b.tag[2][0])}]")
            return Sym(f"({vtext(l)} {type(e.op).__name__} {vtext(r_)})", tag=("binop", type(e.op).__name__, l, r_))
        if isinstance(e, ast.JoinedStr):
            parts = []
            for v in e.values:
                if isinstance(v, ast.Constant):
                    parts.append(("lit", str(v.value)))
                else:
                    vexpr_ = v.value
                    if isinstance(vexpr_, ast.Call) and isinstance(vexpr_.func, ast.Name) and vexpr_.func.id == "str" and len(vexpr_.args) == 1 and not vexpr_.keywords and v.conversion in (-1, 115) and v.format_spec is None:
                        vexpr_ = vexpr_.args[0]  # f"{str(x)}" is f"{x}"
                    val = self.ev(vexpr_, st)
                    if isinstance(val, str) and v.conversion == -1 and v.format_spec is None:
                        parts.append(("lit", val))
                    elif _is_f(val) and v.conversion == -1 and v.format_spec is None:
                        parts.extend(val.tag[2])  # an f-string spliced into an f-string
                    else:
                        parts.append(("val", vtext(val)))
            return _fstring(parts, e)
        if isinstance(e, ast.Lambda):
            return Sym("lambda:" + self.closure_text(e, st))
        if isinstance(e, (ast.ListComp, ast.SetComp, ast.GeneratorExp, ast.DictComp)):
            free = {n.id for n in ast.walk(e) if isinstance(n, ast.Name) and isinstance(n.ctx, ast.Load)}
            snap = {k: vtext(st.env[k]) for k in free if k in st.env}
            return Sym("comp:" + self.closure_text(e, st), tag=("comp", e, snap))
        if isinstance(e, ast.Dict):
            members = None
            if e.keys and all(isinstance(k, ast.Constant) for k in e.keys):
                members = {k.value: v for k, v in zip(e.keys, e.values)}
            return Sym("dict:" + self.closure_text(e, st), tag=("dict", members, e))
        if isinstance(e, ast.Set):
            members = None
            if e.elts and all(isinstance(k, ast.Constant) for k in e.elts):
                members = {k.value: None for k in e.elts}
            return Sym("set:" + self.closure_text(e, st), tag=("set", members, e))
        if isinstance(e, ast.Starred):
            return Sym("*" + _unlist(vtext(self.ev(e.value, st))))
        if isinstance(e, ast.Slice):
            parts = [vtext(self.ev(x, st)) if x is not None else "" for x in (e.lower, e.upper)]
            txt = ":".join(parts) + (":" + vtext(self.ev(e.step, st)) if e.step is not None else "")
            return Sym(txt)
        if isinstance(e, ast.NamedExpr):
            v = self.ev(e.value, st)
            self.assign(e.target, v, st)
            return v
        raise AnalysisError(f"decision engine: unsupported expression {type(e).__name__}: {u(e)[:80]}")

    def call(self, c: ast.Call, st, as_stmt=False):
        if len(c.args) >= 1 and isinstance(c.args[0], ast.GeneratorExp) and u(c.func) in _ITER_CONSUMERS and not any(isinstance(n, ast.NamedExpr) for n in ast.walk(c.args[0])):
            # a consumer that only iterates its argument: f(genexp) == f([listcomp])
            lc0 = ast.copy_location(ast.ListComp(elt=c.args[0].elt, generators=c.args[0].generators), c.args[0])
            c = ast.copy_location(ast.Call(func=c.func, args=[lc0, *c.args[1:]], keywords=c.keywords), c)
        if isinstance(c.func, ast.Attribute) and isinstance(c.func.value, ast.NamedExpr) and isinstance(c.func.value.target, ast.Name):
            # `(x := e).m(...)` binds x and calls x.m(...)
            self.ev(c.func.value, st)
            nm = ast.copy_location(ast.Name(id=c.func.value.target.id, ctx=ast.Load()), c.func.value)
            c = ast.copy_location(ast.Call(func=ast.copy_location(ast.Attribute(value=nm, attr=c.func.attr, ctx=ast.Load()), c.func), args=c.args, keywords=c.keywords), c)
        if isinstance(c.func, ast.Attribute):
            ftext = self.subst_text(c.func.value, st) + "." + c.func.attr
        else:
            ftext = self.subst_text(c.func, st) if isinstance(c.func, ast.Name) else u(c.func)
            if isinstance(c.func, ast.Name):
                ftext = c.func.id if not isinstance(st.env.get(c.func.id), Sym) else st.env[c.func.id].text
        if ftext.split(".")[-1] == "tqdm" and c.args:
            # tqdm(iterable, ...) iterates the iterable itself (progress display only)
            return self.ev(c.args[0], st)
        if c.keywords and all(k.arg is not None for k in c.keywords) and isinstance(c.func, ast.Attribute) and isinstance(c.func.value, ast.Name) and c.func.value.id in ("self", "cls") and self.fi is not None:
            # self.m(a, y=c, x=b) is self.m(a, b, c): arguments of a method of the same class are bound by its signature
            cls_ = self.fi.cls or (self.fi.parent.cls if self.fi.parent is not None else None)
            m_ = cls_.find_method(c.func.attr) if cls_ is not None else None
            if m_ is not None and m_.node.args.vararg is None and m_.node.args.kwarg is None and not m_.node.args.kwonlyargs:
                names_ = [a.arg for a in m_.node.args.posonlyargs + m_.node.args.args]
                if names_ and names_[0] in ("self", "cls") and not any(u(d) in ("staticmethod",) for d in m_.node.decorator_list):
                    names_ = names_[1:]
                kw_ = {k.arg: k.value for k in c.keywords}
                rest_ = names_[len(c.args):]
                if set(kw_) <= set(rest_):
                    take_ = []
                    for n_ in rest_:
                        if n_ in kw_:
                            take_.append(kw_[n_])
                        else:
                            break
                    if len(take_) == len(kw_):
                        c2_ = ast.Call(func=c.func, args=list(c.args) + take_, keywords=[])
                        ast.fix_missing_locations(ast.copy_location(c2_, c))
                        c = c2_
        if isinstance(c.func, ast.Attribute) and c.func.attr == "format" and isinstance(c.func.value, ast.Constant) and isinstance(c.func.value.value, str) and not any(isinstance(a, ast.Starred) for a in c.args) and all(k.arg for k in c.keywords):
            # "..{}..{name!s}..".format(a, name=b) is the f-string f"..{a}..{b!s}.."
            import string as _string

            try:
                fields = list(_string.Formatter().parse(c.func.value.value))
            except ValueError:
                fields = None
            if fields is not None and all((fn_ is None) or (re.fullmatch(r"\d*|[A-Za-z_]\w*", fn_) and not (spec_ or "").count("{")) for _, fn_, spec_, _ in fields):
                vals_, auto_, ok_ = [], 0, True
                kw_ = {k.arg: k.value for k in c.keywords}
                for lit_, fn_, spec_, conv_ in fields:
                    if lit_:
                        vals_.append(ast.Constant(value=lit_))
                    if fn_ is None:
                        continue
                    if fn_ == "":
                        idx_ = auto_
                        auto_ += 1
                        src_ = c.args[idx_] if idx_ < len(c.args) else None
                    elif fn_.isdigit():
                        src_ = c.args[int(fn_)] if int(fn_) < len(c.args) else None
                    else:
                        src_ = kw_.get(fn_)
                    if src_ is None:
                        ok_ = False
                        break
                    vals_.append(ast.FormattedValue(value=src_, conversion=ord(conv_) if conv_ else -1, format_spec=ast.JoinedStr(values=[ast.Constant(value=spec_)]) if spec_ else None))
                if ok_:
                    js_ = ast.JoinedStr(values=vals_)
                    ast.fix_missing_locations(ast.copy_location(js_, c))
                    return self.ev(js_, st)
        if isinstance(c.func, ast.Name) and c.func.id == "map" and len(c.args) == 2 and not c.keywords and isinstance(c.args[0], (ast.Name, ast.Attribute)) and "map" not in st.env:
            # map(f, xs) visits f(x) for x in xs
            lc_ = ast.ListComp(elt=ast.Call(func=c.args[0], args=[ast.Name(id="_m0", ctx=ast.Load())], keywords=[]), generators=[ast.comprehension(target=ast.Name(id="_m0", ctx=ast.Store()), iter=c.args[1], ifs=[], is_async=0)])
            ast.fix_missing_locations(ast.copy_location(lc_, c))
            return self.ev(lc_, st)
        if isinstance(c.func, ast.Attribute) and c.func.attr == "islice" and len(c.args) == 3 and not c.keywords and isinstance(c.args[1], ast.Constant) and c.args[1].value == 0:
            # islice(x, 0, n) is islice(x, n)
            c = ast.Call(func=c.func, args=[c.args[0], c.args[2]], keywords=[])
            ast.fix_missing_locations(c)
        if isinstance(c.func, ast.Attribute) and c.func.attr == "join" and len(c.args) == 1 and not c.keywords and isinstance(c.args[0], ast.GeneratorExp):
            # sep.join(genexp) is sep.join([listcomp])
            lc_ = ast.ListComp(elt=c.args[0].elt, generators=c.args[0].generators)
            ast.copy_location(lc_, c.args[0])
            c = ast.Call(func=c.func, args=[lc_], keywords=[])
            ast.fix_missing_locations(ast.copy_location(c, lc_))
        if isinstance(c.func, ast.Name) and c.func.id in ("sorted", "list", "set", "tuple", "len", "iter", "min", "max", "frozenset", "enumerate") and c.args and isinstance(c.args[0], ast.Call) and isinstance(c.args[0].func, ast.Attribute) and c.args[0].func.attr == "keys" and not c.args[0].args and not c.args[0].keywords and c.func.id not in st.env:
            # iterating / measuring d.keys() is iterating / measuring d
            c = ast.Call(func=c.func, args=[c.args[0].func.value] + list(c.args[1:]), keywords=c.keywords)
            ast.fix_missing_locations(c)
        args = [self.ev(a, st) for a in c.args]
        kwargs = {k.arg: self.ev(k.value, st) for k in c.keywords}
        if isinstance(c.func, ast.Attribute) and c.func.attr == "add_argument" and kwargs:
            # argparse: arguments that spell out the library's defaults say nothing; store_const True/False is store_true/false
            if kwargs.get("action") == "store_const" and kwargs.get("const") is True and kwargs.get("default", None) in (False,):
                kwargs = {k: v for k, v in kwargs.items() if k not in ("const", "default")}
                kwargs["action"] = "store_true"
            elif kwargs.get("action") == "store_const" and kwargs.get("const") is False and kwargs.get("default", None) in (True,):
                kwargs = {k: v for k, v in kwargs.items() if k not in ("const", "default")}
                kwargs["action"] = "store_false"
            kwargs = {k: v for k, v in kwargs.items() if not ((k in ("dest", "default", "const", "nargs", "type", "choices", "metavar") and v is None) or (k == "required" and v is False) or (k == "action" and v == "store"))}
        if isinstance(c.func, ast.Attribute) and c.func.attr == "__contains__" and len(args) == 1 and not kwargs:
            # x.__contains__(y) is the membership test `y in x`: one atom for both spellings
            r0 = self.hooks.on_call(c, ftext, args, kwargs, st)
            if r0 is not NOTHING:
                return r0
            return Sym(st.vkey(f"{vtext(args[0])} In {ftext[: -len('.__contains__')]}"))
        r = self.hooks.on_call(c, ftext, args, kwargs, st)
        if r is not NOTHING:
            return r
        if ftext == "len" and len(args) == 1 and not kwargs and isinstance(args[0], str):
            return len(args[0])  # length of a known text
        if ftext == "bool" and len(args) == 1 and not kwargs:
            a0_ = args[0]
            if a0_ is None or isinstance(a0_, (bool, int, float, str)):
                return bool(a0_)
            if isinstance(a0_, (list, tuple)) and not any(isinstance(x, Sym) and x.text.startswith("*") for x in a0_):
                return len(a0_) > 0
            return self.truth(c.args[0], st)  # bool(x) is the truth value of x
        if isinstance(c.func, ast.Attribute) and not kwargs and c.func.attr in ("lower", "upper", "strip", "lstrip", "rstrip", "startswith", "endswith", "isdigit", "isalpha", "isidentifier") and all(isinstance(a, str) for a in args):
            recv_ = self.ev(c.func.value, st)
            if isinstance(recv_, str):
                try:
                    return getattr(recv_, c.func.attr)(*args)  # a pure method of a known text
                except Exception:
                    pass
        if isinstance(c.func, ast.Attribute) and c.func.attr == "keys" and not args and not kwargs:
            base = self.ev(c.func.value, st)
            if isinstance(base, Sym) and base.tag and base.tag[0] == "dict" and base.tag[1] is not None:
                return base  # for membership and iteration d.keys() is d
        if isinstance(c.func, ast.Attribute) and c.func.attr == "get" and len(args) in (1, 2) and not kwargs:
            base = self.ev(c.func.value, st)
            if isinstance(base, Sym) and base.tag and base.tag[0] == "dict" and base.tag[1] is not None:
                got = self._dict_lookup(base, args[0], st)
                return got if got is not NOTHING else (args[1] if len(args) == 2 else None)
        if isinstance(c.func, ast.Attribute) and c.func.attr == "get" and len(args) in (1, 2) and not kwargs and isinstance(args[0], (str, int)) and not as_stmt:
            base_ = self.ev(c.func.value, st)
            if isinstance(base_, Sym) and not (base_.tag and base_.tag[0] == "dict") and not base_.text.startswith(("*", "comp:", "lambda:")) and base_.text.split(".")[0] not in ("os", "re", "sys", "requests"):
                # d.get(k[, default]) is d[k] when k is in d, else the default: the membership idiom, one atom for both spellings
                sub_ = ast.Subscript(value=c.func.value, slice=c.args[0], ctx=ast.Load())
                ast.fix_missing_locations(ast.copy_location(sub_, c))
                inn_ = ast.Compare(left=c.args[0], ops=[ast.In()], comparators=[c.func.value])
                ast.fix_missing_locations(ast.copy_location(inn_, c))
                if self.truth(inn_, st):
                    return self.ev(sub_, st)
                if len(c.args) == 2 and isinstance(c.args[1], ast.Dict) and not c.args[1].keys:
                    return Sym("dict:{}", tag=("dict", {}, c.args[1]))  # the empty default: nothing is in it
                return args[1] if len(args) == 2 else None
        if isinstance(c.func, ast.Attribute) and c.func.attr == "join" and len(args) == 1 and not kwargs:
            sep = self.ev(c.func.value, st)
            if isinstance(sep, str) and isinstance(args[0], (list, tuple)) and all(isinstance(x, str) for x in args[0]):
                return sep.join(args[0])  # constant folding of "sep".join([...constants...])
            if isinstance(sep, str) and isinstance(args[0], (list, tuple)) and args[0] and all(isinstance(x, str) or _is_f(x) for x in args[0]):
                parts = []
                for i, x in enumerate(args[0]):
                    if i and sep:
                        parts.append(("lit", sep))
                    parts.extend(_fparts(x))
                return _fstring(parts, c)  # joining pieces of text is concatenating them
        if isinstance(c.func, ast.Attribute) and c.func.attr == "isdisjoint" and len(c.args) == 1 and not c.keywords:
            # X.isdisjoint(Y)  is  not any(y in X for y in Y)
            src = ast.parse("any([_d0 in _X for _d0 in _Y])", mode="eval").body
            comp = src.args[0]
            comp.elt.comparators = [c.func.value]
            comp.generators[0].iter = c.args[0]
            ast.fix_missing_locations(ast.copy_location(src, c))
            for x_ in ast.walk(src):
                ast.copy_location(x_, c)
            return not self.truth(src, st)
        if ftext in ("any", "all") and len(c.args) == 1 and not kwargs and isinstance(c.args[0], (ast.GeneratorExp, ast.ListComp)):
            g = c.args[0]
            g0 = g.generators[0]
            it0_ = g0.iter
            if isinstance(it0_, ast.Name):
                # a display of constants bound to a local or to a module-level constant
                v0_ = st.env.get(it0_.id, NOTHING)
                if v0_ is NOTHING:
                    mc0_ = _module_constant(self.fi, it0_.id)
                    if isinstance(mc0_, (ast.List, ast.Tuple, ast.Set)):
                        it0_ = mc0_
                elif isinstance(v0_, (list, tuple)) and v0_ and all(isinstance(x, (str, int, float)) or x is None for x in v0_):
                    it0_ = ast.Tuple(elts=[ast.Constant(value=x) for x in v0_], ctx=ast.Load())
            if (len(g.generators) == 1 and not g0.ifs and isinstance(g0.target, ast.Name) and isinstance(it0_, (ast.Tuple, ast.List, ast.Set))
                    and 1 <= len(it0_.elts) <= 8 and all(isinstance(e, ast.Constant) for e in it0_.elts)):
                g0 = ast.comprehension(target=g0.target, iter=it0_, ifs=[], is_async=0)
                # any(P(x) for x in (a, b)) over a literal display is P(a) or P(b); all(...) is P(a) and P(b)
                vals = []
                for e in g0.iter.elts:
                    class _Sub(ast.NodeTransformer):
                        def visit_Name(self, n, e=e, name=g0.target.id):
                            return ast.copy_location(ast.Constant(value=e.value), n) if n.id == name else n
                    import copy as _copy

                    vals.append(_Sub().visit(_copy.deepcopy(g.elt)))
                bo = ast.BoolOp(op=ast.Or() if ftext == "any" else ast.And(), values=vals) if len(vals) > 1 else vals[0]
                ast.fix_missing_locations(ast.copy_location(bo, c))
                return self.truth(bo, st)
            if isinstance(g.elt, ast.UnaryOp) and isinstance(g.elt.op, ast.Not):
                # De Morgan over a comprehension: any(not P(x) ...) == not all(P(x) ...), all(not P ...) == not any(P ...)
                inner = type(g)(elt=g.elt.operand, generators=g.generators)
                ast.copy_location(inner, g)
                other = "all" if ftext == "any" else "any"
                oc = ast.Call(func=ast.Name(id=other, ctx=ast.Load()), args=[inner], keywords=[])
                ast.fix_missing_locations(ast.copy_location(oc, c))
                return not self.truth(oc, st)
            if isinstance(g, ast.GeneratorExp):
                # any(genexp) / all(genexp) == any([listcomp]) / all([listcomp])
                lc = ast.ListComp(elt=g.elt, generators=g.generators)
                ast.copy_location(lc, g)
                return Sym(st.vkey(f"{ftext}(comp:{self.closure_text(lc, st)})"), tag=("call", ftext, args, kwargs))
        if ftext in ("it.chain", "itertools.chain") and args and not kwargs:
            # chain(a, b, ...) visits a's elements, then b's
            out = []
            for a in args:
                if isinstance(a, (list, tuple)):
                    out.extend(a)
                else:
                    out.append(Sym("*" + vtext(a)))
            if not any(isinstance(x, Sym) and x.text.startswith("*") for x in out[:-1]):
                return out
        if ftext == "getattr" and len(args) == 2 and isinstance(args[1], str) and args[1].isidentifier() and not kwargs:
            # getattr(x, "name") is x.name
            return self.ev(ast.copy_location(ast.Attribute(value=c.args[0], attr=args[1], ctx=ast.Load()), c), st)
        if isinstance(c.func, ast.Attribute) and isinstance(c.func.value, ast.Name) and isinstance(st.env.get(c.func.value.id), list) and not kwargs:
            # a local list that is known element by element keeps being known when it grows
            lst = st.env[c.func.value.id]
            if c.func.attr == "append" and len(args) == 1:
                lst.append(args[0])
            elif c.func.attr == "extend" and len(args) == 1 and isinstance(args[0], (list, tuple)):
                lst.extend(args[0])
            elif c.func.attr in ("extend", "insert", "pop", "remove", "clear", "sort", "reverse", "__setitem__", "__delitem__"):
                st.env[c.func.value.id] = Sym(st.vkey(c.func.value.id))  # no longer known element by element
        if isinstance(c.func, ast.Attribute) and isinstance(c.func.value, ast.Name) and c.func.attr == "extend" and len(args) == 1 and not kwargs and isinstance(args[0], (list, tuple)) and args[0] and not any(isinstance(x, Sym) and x.text.startswith("*") for x in args[0]):
            # x.extend((a, b)) on a local is x.append(a); x.append(b)
            for x in args[0]:
                st.effect("call", f"{ftext[: -len('.extend')]}.append", x)
            return None
        if isinstance(c.func, ast.Attribute) and c.func.attr == "update" and len(c.args) == 1 and not kwargs and isinstance(c.args[0], ast.Dict) and c.args[0].keys and all(k is not None for k in c.args[0].keys):
            # d.update({k: v, ...}) is d[k] = v; ...
            recv = ftext[: -len(".update")]
            for k, v in zip(c.args[0].keys, c.args[0].values):
                tt = f"{recv}[{vtext(self.ev(k, st))}]"
                val = self.ev(v, st)
                if self.hooks.on_store(tt, val, st) is NOTHING:
                    st.effect("store", tt, val)
                st.mem[tt] = val
            st.bump(_base(recv))
            return None
        if ftext == "list" and len(args) == 1 and not kwargs and isinstance(args[0], Sym) and not isinstance(c.args[0], (ast.GeneratorExp, ast.Call)) and not args[0].text.startswith(("comp:", "*")):
            return [Sym("*" + args[0].text)]  # a fresh list holding the elements of xs
        if ftext == "list" and len(c.args) == 1 and not kwargs:
            a0 = c.args[0]
            if isinstance(a0, ast.GeneratorExp):
                # list(<genexp>) == [<listcomp>]
                lc = ast.ListComp(elt=a0.elt, generators=a0.generators)
                return Sym("comp:" + self.closure_text(ast.copy_location(lc, a0), st), tag=("comp", lc))
            if isinstance(a0, ast.Call) and u(a0.func) == "filter" and len(a0.args) == 2 and not a0.keywords:
                # list(filter(None, X)) == [x for x in X if x] ; list(filter(lambda v: P, X)) == [v for v in X if P]
                pred, src = a0.args
                srct = vtext(self.ev(src, st))
                if isinstance(pred, ast.Constant) and pred.value is None:
                    return Sym(f"comp:[_c0 for _c0 in {srct} if _c0]")
                if isinstance(pred, ast.Lambda) and len(pred.args.args) == 1:
                    v = pred.args.args[0].arg
                    lc = ast.ListComp(
                        elt=ast.Name(id=v, ctx=ast.Load()),
                        generators=[ast.comprehension(target=ast.Name(id=v, ctx=ast.Store()), iter=src, ifs=[pred.body], is_async=0)],
                    )
                    ast.fix_missing_locations(ast.copy_location(lc, a0))
                    return Sym("comp:" + self.closure_text(lc, st), tag=("comp", lc))
        if ftext == "isinstance" and len(args) == 2 and isinstance(args[1], tuple) and not kwargs:
            # isinstance(x, (A, B)) == isinstance(x, A) or isinstance(x, B)
            for t in args[1]:
                if self.truth_of(Sym(st.vkey(f"isinstance({vtext(args[0])}, {vtext(t)})")), st):
                    return True
            return False
        target = self.hooks.inline(c, ftext, st)
        if target is None:
            target = self._one_sided_helper(c, ftext)
        if target is not None and st.depth < 3:
            return self.inline_call(target, c, args, kwargs, st)
        if self.hooks.dict_idioms and isinstance(c.func, ast.Attribute) and not kwargs:
            recv = ftext[: -len(c.func.attr) - 1]
            attr = c.func.attr
            if attr == "pop" and len(args) == 2:
                if st.atom(st.vkey(f"{vtext(args[0])} In {recv}")):
                    val = Sym(st.vkey(f"{recv}[{vtext(args[0])}]"))
                    tt = f"{recv}[{vtext(args[0])}]"
                    if self.hooks.on_store(tt, ("del",), st) is NOTHING:
                        st.effect("del", tt)
                    st.bump(_base(recv))
                    return val
                return args[1]
            if attr == "get" and len(args) in (1, 2) and not isinstance(st.env.get(_base(recv)), (list, tuple)):
                if st.atom(st.vkey(f"{vtext(args[0])} In {recv}")):
                    return Sym(st.vkey(f"{recv}[{vtext(args[0])}]"))
                return args[1] if len(args) == 2 else None
            if attr == "setdefault" and len(args) == 2:
                tt = f"{recv}[{vtext(args[0])}]"
                if not st.atom(st.vkey(f"{vtext(args[0])} In {recv}")):
                    if self.hooks.on_store(tt, args[1], st) is NOTHING:
                        st.effect("store", tt, args[1])
                    st.bump(_base(recv))
                    st.mem[tt] = args[1]
                return Sym(st.vkey(tt))
        if ftext == "next" and len(c.args) in (1, 2) and isinstance(c.args[0], ast.GeneratorExp) and len(c.args[0].generators) == 1:
            # next((elt for x in S if P(x)), default)  ==  first-match loop
            g = c.args[0].generators[0]
            it = self.ev(g.iter, st)
            ittext = vtext(it)
            st.counter += 1
            lid = f"{ittext}#L{st.counter}"
            items = it if isinstance(it, (list, tuple)) else None
            i = 0
            saved = dict(st.env)
            try:
                while True:
                    if items is not None:
                        if i >= len(items):
                            break
                        item = items[i]
                    else:
                        if i >= self.hooks.unroll:
                            st.effect("loop-bound", ittext)
                            break
                        if not st.atom(f"more({lid},{i})"):
                            break
                        item = Sym(f"{ittext}[{i}]", tag=("item", ittext, i))
                    self.assign(g.target, item, st)
                    if all(self.truth(cond, st) for cond in g.ifs):
                        return self.ev(c.args[0].elt, st)
                    i += 1
            finally:
                for k in list(st.env):
                    if k not in saved:
                        del st.env[k]
                    else:
                        st.env[k] = saved[k]
            if len(c.args) == 2:
                return self.ev(c.args[1], st)
            raise _Raise("StopIteration()")
        if isinstance(c.func, ast.Attribute) and c.func.attr == "pop" and not c.args and not c.keywords and not as_stmt and re.fullmatch(r"[\w.]+", ftext):
            # x = L.pop()  is  x = L[-1]; L.pop()
            last = ast.parse("_[-1]", mode="eval").body
            last.value = c.func.value
            ast.copy_location(last, c)
            ast.fix_missing_locations(last)
            val = self.ev(last, st)
            self.call(c, st, as_stmt=True)
            return val
        own_cls_ = (self.fi.cls or (self.fi.parent.cls if self.fi.parent is not None else None)) if self.fi is not None else None
        if isinstance(c.func, ast.Attribute) and isinstance(c.func.value, ast.Name) and (c.func.value.id in ("self", "cls") or (own_cls_ is not None and c.func.value.id == own_cls_.name.rsplit(".", 1)[-1])) and not kwargs and args and not any(isinstance(a, ast.Starred) for a in c.args):
            # the parameters of a method were re-ordered (same names, every call site updated): a call that is not
            # interpreted in place is DENOTED in the reviewed order, so that `self.m(a, b)` before and `self.m(b, a)`
            # after are one thing
            ro_ = _reordered_params(self.fi, c.func.attr)
            if ro_ is not None and len(args) <= len(ro_[0]):
                cur_, ref_ = ro_
                by_ = dict(zip(cur_, args))
                new_ = [by_[n_] for n_ in ref_ if n_ in by_]
                if len(new_) == len(args) and [n_ for n_ in ref_ if n_ in by_] == ref_[: len(new_)]:
                    args = new_
        argt = ", ".join([vtext(a) for a in args] + [f"{k}={vtext(v)}" for k, v in kwargs.items()])
        text = f"{ftext}({argt})"
        if as_stmt or not self.hooks.pure(ftext):
            st.effect("call", ftext, *args, *[(k, v) for k, v in kwargs.items()])
            if isinstance(c.func, ast.Attribute):
                recv, meth = ftext.rsplit(".", 1)
                ws = _write_set(self.fi, meth) if re.fullmatch(r"\w+", recv) else None
                if ws is not None:
                    st.bump_attrs(recv, ws)  # the callee writes these attributes of its object, nothing else of it
                else:
                    st.bump(_base(ftext))
        if not self.hooks.pure(ftext):
            st.counter += 1
            return Sym(f"{text}#{st.counter}", tag=("call", ftext, args, kwargs))
        return Sym(st.vkey(text), tag=("call", ftext, args, kwargs))

    def inline_call(self, target: ast.FunctionDef, c, args, kwargs, st):
        a = target.args
        names = [x.arg for x in a.posonlyargs + a.args]
        if names and names[0] in ("self", "cls"):
            names = names[1:]
        saved = st.env
        env = {}
        if "self" in saved:
            env["self"] = saved["self"]
        defaults = dict(zip(reversed(names), reversed(a.defaults)))
        for i, n in enumerate(names):
            if i < len(args):
                env[n] = args[i]
            elif n in kwargs:
                env[n] = kwargs[n]
            elif n in defaults:
                env[n] = self.ev(defaults[n], st)
            else:
                env[n] = Sym(n)
        st.env = env
        st.depth += 1
        try:
            try:
                self.block(target.body, st)
                res = None
            except _Return as r:
                res = r.value
        finally:
            st.env = saved
            st.depth -= 1
        return res

    # -- truth ---------------------------------------------------------------
    def truth(self, test, st, suffix=""):
        if isinstance(test, ast.BoolOp):
            if isinstance(test.op, ast.And):
                for v in test.values:
                    if not self.truth(v, st, suffix):
                        return False
                return True
            for v in test.values:
                if self.truth(v, st, suffix):
                    return True
            return False
        if isinstance(test, ast.UnaryOp) and isinstance(test.op, ast.Not):
            return not self.truth(test.operand, st, suffix)
        v = self.ev(test, st)
        return self.truth_of(v, st, suffix)

    def truth_of(self, v, st, suffix=""):
        if isinstance(v, Sym):
            return st.atom(v.text + suffix)
        if isinstance(v, (list, tuple, dict, str, int, float, bool)) or v is None:
            return bool(v)
        raise AnalysisError(f"decision engine: truth of {v!r}")

    def compare(self, e: ast.Compare, st):
        left = self.ev(e.left, st)
        result = True
        for op, right_e in zip(e.ops, e.comparators):
            right = self.ev(right_e, st)
            r = self._cmp1(op, left, right, st)
            if not r:
                return False
            left = right
        return result

    def _cmp1(self, op, l, r, st):
        # len(x) compared with 0 / 1 is the emptiness test of x
        for a, b, flip in ((l, r, False), (r, l, True)):
            if isinstance(a, Sym) and a.tag and a.tag[0] == "call" and a.tag[1] == "len" and len(a.tag[2]) == 1 and isinstance(b, int) and not isinstance(b, bool):
                x = a.tag[2][0]
                name = type(op).__name__
                if flip:
                    name = {"Lt": "Gt", "Gt": "Lt", "LtE": "GtE", "GtE": "LtE"}.get(name, name)
                nonempty = None
                if (name, b) in (("Eq", 0), ("Lt", 1), ("LtE", 0)):
                    nonempty = False
                elif (name, b) in (("NotEq", 0), ("Gt", 0), ("GtE", 1)):
                    nonempty = True
                if nonempty is not None and isinstance(x, (Sym, list, tuple, dict, str)):
                    t = self.truth_of(x, st)
                    return t if nonempty else not t
        # a value already found truthy on this path, and the result of a str-returning library function, are not None
        if isinstance(op, (ast.Is, ast.IsNot, ast.Eq, ast.NotEq)):
            for a, b in ((l, r), (r, l)):
                if b is None and isinstance(a, Sym):
                    if st.used.get(a.text) is True or (a.tag and a.tag[0] == "call" and str(a.tag[1]) in _STR_FUNCS):
                        return isinstance(op, (ast.IsNot, ast.NotEq))
        # a constructor call never yields None
        if isinstance(op, (ast.Is, ast.IsNot, ast.Eq, ast.NotEq)):
            for a, b in ((l, r), (r, l)):
                if b is None and isinstance(a, Sym) and (a.tag and a.tag[0] == "call" and _is_class_name(str(a.tag[1]).rsplit(".", 1)[-1], self.fi) or re.fullmatch(r"(CFG|PLAT)\d*", a.text)):
                    return isinstance(op, (ast.IsNot, ast.NotEq))
        # re's search/match/fullmatch return a Match (always truthy) or None: `x is None` is `not x`
        if isinstance(op, (ast.Is, ast.IsNot, ast.Eq, ast.NotEq)):
            for a, b in ((l, r), (r, l)):
                if b is None and isinstance(a, Sym) and a.tag and a.tag[0] == "call" and str(a.tag[1]).rsplit(".", 1)[-1] in ("search", "match", "fullmatch"):
                    t = self.truth_of(a, st)
                    return (not t) if isinstance(op, (ast.Is, ast.Eq)) else t
        sym = isinstance(l, Sym) or isinstance(r, Sym) or _has_sym(l) or _has_sym(r)
        if not sym:
            try:
                if isinstance(op, ast.Eq):
                    return l == r
                if isinstance(op, ast.NotEq):
                    return l != r
                if isinstance(op, ast.Is):
                    return l is r or (l == r and (l is None or isinstance(l, bool)))
                if isinstance(op, ast.IsNot):
                    return not (l is r or (l == r and (l is None or isinstance(l, bool))))
                if isinstance(op, ast.In):
                    return l in r
                if isinstance(op, ast.NotIn):
                    return l not in r
                if isinstance(op, ast.Lt):
                    return l < r
                if isinstance(op, ast.LtE):
                    return l <= r
                if isinstance(op, ast.Gt):
                    return l > r
                if isinstance(op, ast.GtE):
                    return l >= r
            except TypeError:
                pass
        neg = False
        name = type(op).__name__
        if name == "NotEq":
            name, neg = "Eq", True
        elif name == "IsNot":
            name, neg = "Is", True
        elif name == "NotIn":
            name, neg = "In", True
        elif name == "GtE":
            name, neg = "Lt", True
        elif name == "LtE":
            name, neg = "Gt", True
        lt, rt = vtext(l), vtext(r)
        if name == "In" and rt.endswith(".keys()"):
            rt = rt[: -len(".keys()")]
        if name in ("Eq", "Is"):
            # None / constants: `x is None` and `x == None` are the same atom
            name = "Eq"
            if lt > rt:
                lt, rt = rt, lt
            if lt == rt:
                return not neg
        if name == "In" and not isinstance(l, Sym) and (isinstance(l, (str, int, float)) or l is None) and isinstance(r, Sym) and r.tag and r.tag[0] in ("dict", "set") and r.tag[1] is not None:
            hit = l in r.tag[1]  # a constant and a display of constants: decided
            return (not hit) if neg else hit
        if name == "In" and isinstance(l, Sym):
            # x in (c1, c2, ...) / x in {"a": .., "b": ..} with constant members is the chain x == c1 or x == c2 ...
            members = None
            if isinstance(r, (list, tuple)) and r and not _has_sym(r) and all(isinstance(c, (str, int, float)) or c is None for c in r):
                members = list(r)
            elif isinstance(r, Sym) and r.tag and r.tag[0] in ("dict", "set") and r.tag[1] is not None:
                members = list(r.tag[1])
            if members is not None and len(members) <= 12:
                hit = False
                for c in members:
                    if self._cmp1(ast.Eq(), l, c, st):
                        hit = True
                        break
                return (not hit) if neg else hit
        if name == "In" and isinstance(r, tuple) and not _has_sym(r) and all(isinstance(c, (str, int, float)) or c is None for c in r):
            rt = vtext(list(r))  # membership in a tuple or in a list of the same constants is the same test
        val = st.atom(f"{lt} {name} {rt}")
        return (not val) if neg else val


_WRITES = {}


def _write_set(fi, meth):
    """attributes of its own object that a method named `meth` may write (transitively through self-calls), by name over
    the whole package; None when no method of that name exists in the package (unknown callee: anything may change)"""
    if fi is None:
        return None
    repo = fi.module.repo
    if repo.root not in _WRITES:
        from .flow import MUTATORS

        direct, calls = {}, {}
        for f in repo.all_functions():
            if f.cls is None:
                continue
            w, cs = set(), set()
            for n in ast.walk(f.node):
                t = None
                if isinstance(n, (ast.Attribute, ast.Subscript)) and isinstance(n.ctx, (ast.Store, ast.Del)):
                    t = n
                elif isinstance(n, ast.Call) and isinstance(n.func, ast.Attribute):
                    if isinstance(n.func.value, ast.Name) and n.func.value.id == "self":
                        cs.add(n.func.attr)
                        continue
                    t = n.func.value  # any method called on a member may change that member
                if t is None:
                    continue
                x = t
                while isinstance(x, (ast.Attribute, ast.Subscript, ast.Call)):
                    if isinstance(x, ast.Attribute) and isinstance(x.value, ast.Name) and x.value.id == "self":
                        w.add(x.attr)
                        break
                    x = x.value if not isinstance(x, ast.Call) else x.func
            direct.setdefault(f.name, set()).update(w)
            calls.setdefault(f.name, set()).update(cs)
        changed = True
        while changed:
            changed = False
            for name, cs in calls.items():
                for c2 in cs:
                    extra = direct.get(c2)
                    if extra is None:
                        continue
                    if not extra <= direct[name]:
                        direct[name] |= extra
                        changed = True
        _WRITES[repo.root] = direct
    return _WRITES[repo.root].get(meth)


_STR_FUNCS = {"os.path.basename", "os.path.dirname", "os.path.abspath", "os.path.realpath", "os.path.join", "os.path.normpath", "os.path.relpath", "str", "repr", "os.getcwd", "os.fspath"}
_MODCONST = {}


def _module_constant(fi, name):
    """the literal bound to an upper-case module-level name that is assigned exactly once and never written
    by a function (a table of constants), else None"""
    if fi is None or not re.fullmatch(r"_?[A-Z][A-Z0-9_]*", name):
        return None
    m = fi.module
    key = (m.repo.root, m.name, name)
    if key not in _MODCONST:
        vals = [st.value for st in m.tree.body if isinstance(st, ast.Assign) and len(st.targets) == 1 and isinstance(st.targets[0], ast.Name) and st.targets[0].id == name]
        ok = len(vals) == 1 and isinstance(vals[0], (ast.Dict, ast.Tuple, ast.List, ast.Set, ast.Constant))
        if ok:
            for n in ast.walk(vals[0]):
                if isinstance(n, (ast.Call, ast.Lambda, ast.ListComp, ast.DictComp, ast.SetComp, ast.GeneratorExp)):
                    ok = False
            for f in m.functions.values():
                for n in ast.walk(f.node):
                    if isinstance(n, ast.Global) and name in n.names:
                        ok = False
                    if isinstance(n, ast.Name) and n.id == name and isinstance(n.ctx, (ast.Store, ast.Del)):
                        ok = False
                    if isinstance(n, ast.Call) and isinstance(n.func, ast.Attribute) and isinstance(n.func.value, ast.Name) and n.func.value.id == name and n.func.attr in ("append", "extend", "update", "pop", "clear", "add", "remove", "setdefault", "insert"):
                        ok = False
                    if isinstance(n, ast.Subscript) and isinstance(n.value, ast.Name) and n.value.id == name and isinstance(n.ctx, (ast.Store, ast.Del)):
                        ok = False
        _MODCONST[key] = vals[0] if ok else None
    return _MODCONST[key]


_CLSCONST: dict = {}
_ITER_CONSUMERS = {"sum", "math.fsum", "fsum", "max", "min", "sorted", "set", "frozenset", "tuple"}


def _class_constant(fi, recv, attr):
    """the literal bound to an upper-case class-level name `C._NAME` (or `self._NAME` / `cls._NAME` in a method of
    C or a subclass) that the class body assigns once and nothing in the package writes, else None"""
    if fi is None or not re.fullmatch(r"_{0,2}[A-Z][A-Z0-9_]*", attr):
        return None
    repo = fi.module.repo
    if recv in ("self", "cls"):
        if fi.cls is None:
            return None
        owners = [c for c in fi.cls.mro() if attr in c.class_attrs][:1]
    else:
        owners = [c for m in repo.modules.values() for c in m.classes.values() if c.name == recv and attr in c.class_attrs]
    if len(owners) != 1:
        return None
    ci = owners[0]
    key = (repo.root, ci.module.name, ci.qualname or ci.name, attr)
    if key not in _CLSCONST:
        val = ci.class_attrs[attr]
        n_assign = sum(1 for s2 in ci.node.body for t in (s2.targets if isinstance(s2, ast.Assign) else [s2.target] if isinstance(s2, (ast.AnnAssign, ast.AugAssign)) else []) if isinstance(t, ast.Name) and t.id == attr)
        ok = n_assign == 1 and isinstance(val, (ast.Dict, ast.Tuple, ast.List, ast.Set))
        if ok:
            for n in ast.walk(val):
                if isinstance(n, (ast.Call, ast.Lambda, ast.ListComp, ast.DictComp, ast.SetComp, ast.GeneratorExp)):
                    ok = False
        if ok:
            for m in repo.modules.values():
                for n in ast.walk(m.tree):
                    if isinstance(n, ast.Attribute) and n.attr == attr:
                        if isinstance(n.ctx, (ast.Store, ast.Del)):
                            ok = False
                    if isinstance(n, ast.Call) and isinstance(n.func, ast.Attribute) and isinstance(n.func.value, ast.Attribute) and n.func.value.attr == attr and n.func.attr in ("append", "extend", "update", "pop", "clear", "add", "remove", "setdefault", "insert", "sort", "reverse", "popitem", "discard"):
                        ok = False
                    if isinstance(n, ast.Subscript) and isinstance(n.value, ast.Attribute) and n.value.attr == attr and isinstance(n.ctx, (ast.Store, ast.Del)):
                        ok = False
        _CLSCONST[key] = val if ok else None
    return _CLSCONST[key]


def _is_class_name(name, fi):
    if fi is not None:
        repo = fi.module.repo
        if any(name in m.classes for m in repo.modules.values()):
            return True
    return bool(re.fullmatch(r"[A-Z][A-Za-z0-9]*[a-z][A-Za-z0-9]*", name)) and name not in ("None", "True", "False")


def _unlist(t):
    """the elements of list(X) / tuple(X) are the elements of X (`list(xs) + [y]` is `[*xs, y]`)"""
    m = re.fullmatch(r"(?:list|tuple)\((.*)\)", t)
    if m:
        depth = 0
        for ch in m.group(1):
            depth += ch in "([{"
            depth -= ch in ")]}"
            if depth < 0:
                return t
        if depth == 0 and "," not in re.sub(r"\([^()]*\)|\[[^\[\]]*\]", "", m.group(1)):
            return m.group(1)
    return t


_REORD: dict = {}


def _reordered_params(fi, mname):
    """(current order, reviewed order) of the parameters (self apart) of method `mname` of fi's class when both trees
    have the method with the same parameter names in a different order and no defaults / varargs change; else None.
    Seen from the reviewed tree the roles are swapped, so both sides denote calls in the reviewed order."""
    cls = fi.cls or (fi.parent.cls if fi.parent is not None else None)
    if cls is None:
        return None
    key = (fi.module.repo.root, cls.name, mname)
    if key in _REORD:
        return _REORD[key]
    out = None
    try:
        from . import review

        m = cls.find_method(mname)
        o = review.other_side(fi.module.repo)
        g = next((x for x in o.all_functions() if m is not None and x.key == m.key), None) if o is not None else None
        if m is not None and g is not None:
            def names(f):
                a = f.node.args
                if a.vararg or a.kwarg or a.kwonlyargs:
                    return None
                n = [x.arg for x in a.posonlyargs + a.args]
                return n[1:] if n and n[0] in ("self", "cls") else n
            cn, rn = names(m), names(g)
            if cn and rn and cn != rn and sorted(cn) == sorted(rn) and len(m.node.args.defaults) == len(g.node.args.defaults):
                is_ref = os.path.abspath(fi.module.repo.root) == os.path.abspath(review.reference_repo().root)
                out = None if is_ref else (cn, rn)
    except Exception:
        out = None
    _REORD[key] = out
    return out


_ENCL: dict = {}


def _enclosing_bindings(fi):
    """{name: expr} for the free names of a nested function that the enclosing function binds exactly once, by a plain
    top-level `name = <call or attribute of its own parameters / self>` that precedes the nested definition and that
    nothing re-binds: inside the nested function such a name IS that expression (hoisting `self.f(x)` out of a closure
    into a local of the enclosing function changes nothing when f is a function of its argument)"""
    if fi is None or fi.parent is None:
        return {}
    key = (fi.module.repo.root, fi.key)
    if key in _ENCL:
        return _ENCL[key]
    out = {}
    _ENCL[key] = out
    par = fi.parent.node
    bound_here = {a.arg for a in fi.node.args.posonlyargs + fi.node.args.args + fi.node.args.kwonlyargs}
    for n in ast.walk(fi.node):
        if isinstance(n, ast.Name) and isinstance(n.ctx, ast.Store):
            bound_here.add(n.id)
    free = {n.id for n in ast.walk(fi.node) if isinstance(n, ast.Name) and isinstance(n.ctx, ast.Load)} - bound_here
    pparams = {a.arg for a in par.args.posonlyargs + par.args.args + par.args.kwonlyargs}
    stores = {}
    for n in ast.walk(par):
        if isinstance(n, ast.Name) and isinstance(n.ctx, ast.Store):
            stores[n.id] = stores.get(n.id, 0) + 1
    reb = {x for n in ast.walk(par) if isinstance(n, (ast.Nonlocal, ast.Global)) for x in n.names}
    for i, s_ in enumerate(par.body):
        if s_ is fi.node:
            break
        if isinstance(s_, ast.Assign) and len(s_.targets) == 1 and isinstance(s_.targets[0], ast.Name):
            nm = s_.targets[0].id
            if nm in free and stores.get(nm) == 1 and nm not in reb and isinstance(s_.value, ast.Call):
                names = {x.id for x in ast.walk(s_.value) if isinstance(x, ast.Name)}
                if names <= pparams | {"self"} and all(stores.get(x, 0) == 0 for x in names & pparams) and _is_memo_call(fi, s_.value):
                    out[nm] = s_.value
    return out


def _is_memo_call(fi, call):
    """`self.m(arg)` where m is a memoised function of its argument (see review._is_memo_getter)"""
    if not (isinstance(call.func, ast.Attribute) and isinstance(call.func.value, ast.Name) and call.func.value.id == "self" and len(call.args) == 1 and not call.keywords):
        return False
    cls = fi.cls or (fi.parent.cls if fi.parent is not None else None)
    if cls is None:
        return False
    m = cls.find_method(call.func.attr)
    if m is None:
        return False
    from .review import _is_memo_getter

    return _is_memo_getter(m)


_UNPASSED: dict = {}


def _unpassed_new_defaults(fi):
    """{parameter: default} for the optional parameters of `fi` that (1) the reviewed version of the function does
    not have, (2) have a literal default, and (3) no call anywhere in the analysed package passes (by position, by
    keyword, or possibly through * / **): such a parameter always holds its default, so the function is evaluated
    with it bound (an added, not yet used option leaves every existing behaviour as it was)"""
    if fi is None:
        return {}
    key = (fi.module.repo.root, fi.key)
    if key in _UNPASSED:
        return _UNPASSED[key]
    out = {}
    _UNPASSED[key] = out
    try:
        from . import review

        ref = review.other_side(fi.module.repo)
        rfi = ref.function(fi.key) if ref is not None and hasattr(ref, "function") else None
        if rfi is None and ref is not None:
            rfi = next((g for g in ref.all_functions() if g.key == fi.key), None)
    except Exception:
        rfi = None
    if rfi is None:
        return out
    a = fi.node.args
    old = {x.arg for x in rfi.node.args.posonlyargs + rfi.node.args.args + rfi.node.args.kwonlyargs}
    pos = a.posonlyargs + a.args
    cands = {}
    for i, (arg, d) in enumerate(zip(pos[len(pos) - len(a.defaults):], a.defaults)):
        cands[arg.arg] = (len(pos) - len(a.defaults) + i, d)
    for arg, d in zip(a.kwonlyargs, a.kw_defaults):
        if d is not None:
            cands[arg.arg] = (None, d)
    cands = {k: v for k, v in cands.items() if k not in old and isinstance(v[1], ast.Constant)}
    if not cands:
        return out
    names = {fi.node.name}
    is_method = fi.cls is not None and not fi.is_static()
    sub_inits = set()
    if fi.node.name == "__init__" and fi.cls is not None:
        # constructed through the class (or a subclass that inherits / chains to this __init__)
        names = {fi.cls.name.rsplit(".", 1)[-1]}
        for m in fi.module.repo.modules.values():
            for c in m.classes.values():
                if any(u(b).rsplit(".", 1)[-1] == fi.cls.name.rsplit(".", 1)[-1] for b in c.node.bases):
                    names.add(c.name.rsplit(".", 1)[-1])
                    sub_inits |= {id(x) for x in ast.walk(c.node) if isinstance(x, ast.Call) and isinstance(x.func, ast.Attribute) and x.func.attr == "__init__"}
    passed = set()
    for m in fi.module.repo.modules.values():
        for n in ast.walk(m.tree):
            if not isinstance(n, ast.Call):
                continue
            if id(n) in sub_inits:
                if n.keywords or len(n.args) > 1:
                    passed |= set(cands)
                continue
            cn = n.func.attr if isinstance(n.func, ast.Attribute) else n.func.id if isinstance(n.func, ast.Name) else None
            if cn not in names:
                continue
            if any(k.arg is None for k in n.keywords) or any(isinstance(x, ast.Starred) for x in n.args):
                passed |= set(cands)
                continue
            for k in n.keywords:
                passed.add(k.arg)
            # positional: a bound call does not spell `self`; an unbound one (Class.method(obj, ..)) does - be generous
            for name, (idx, _) in cands.items():
                if idx is not None and len(n.args) + (1 if is_method else 0) > idx:
                    passed.add(name)
    for name, (_, d) in cands.items():
        if name not in passed:
            out[name] = d.value
    return out


def _is_f(v):
    return isinstance(v, Sym) and v.tag is not None and v.tag[0] == "fstring"


def _fparts(v):
    if isinstance(v, str):
        return [("lit", v)]
    if _is_f(v):
        return list(v.tag[2])
    if isinstance(v, Sym) and v.tag and v.tag[0] == "call" and v.tag[1] == "str" and len(v.tag[2]) == 1 and not v.tag[3]:
        return [("val", vtext(v.tag[2][0]))]  # "lit" + str(x) is f"lit{x}"
    if isinstance(v, Sym) and not v.text.startswith("*"):
        return [("val", v.text)]
    return None


def _fstring(parts, node):
    merged = []
    for k, t in parts:
        if k == "lit" and merged and merged[-1][0] == "lit":
            merged[-1] = ("lit", merged[-1][1] + t)
        else:
            merged.append((k, t))
    text = "".join(t if k == "lit" else "{" + t + "}" for k, t in merged)
    return Sym("f'" + text + "'", tag=("fstring", node, merged))


_YF: dict = {}
_DESUGARED: dict = {}


class _Rename(ast.NodeTransformer):
    def __init__(self, m):
        self.m = m

    def visit_Name(self, n):
        if n.id in self.m:
            return ast.copy_location(ast.Name(id=self.m[n.id], ctx=n.ctx), n)
        return n


def _desugar_filtered_loop(s: ast.For):
    """`for x in [e(n) for n in it if c(n)]: B`  and  `for x in filter(lambda n: c(n), it): B`
    are the loop `for n in it: if c(n): x = e(n); B` (same visits, same order).  Only single-generator
    comprehensions; comprehension variables get fresh names so that they cannot capture locals."""
    if id(s) in _DESUGARED:
        return _DESUGARED[id(s)][1]
    import copy

    it = s.iter
    out = None
    target = elt = src = None
    ifs = []
    if isinstance(it, (ast.ListComp, ast.GeneratorExp)) and len(it.generators) == 1 and not it.generators[0].is_async:
        g = it.generators[0]
        target, elt, src, ifs = g.target, it.elt, g.iter, list(g.ifs)
    elif isinstance(it, ast.Call) and u(it.func) == "filter" and len(it.args) == 2 and isinstance(it.args[0], ast.Lambda) and len(it.args[0].args.args) == 1 and not it.keywords:
        lam = it.args[0]
        target = ast.Name(id=lam.args.args[0].arg, ctx=ast.Store())
        elt = ast.Name(id=lam.args.args[0].arg, ctx=ast.Load())
        src, ifs = it.args[1], [lam.body]
    if target is not None and any(isinstance(n, (ast.Lambda, ast.ListComp, ast.GeneratorExp, ast.SetComp, ast.DictComp, ast.NamedExpr)) for x in [elt, *ifs] for n in ast.walk(x)):
        target = None
    if target is not None:
        names = {n.id for n in ast.walk(target) if isinstance(n, ast.Name)}
        m = {n: f"_cv_{n}" for n in names}
        ren = _Rename(m)
        t2 = ren.visit(copy.deepcopy(target))
        e2 = ren.visit(copy.deepcopy(elt))
        i2 = [ren.visit(copy.deepcopy(c)) for c in ifs]
        bind = ast.Assign(targets=[copy.deepcopy(s.target)], value=e2, lineno=s.lineno, col_offset=s.col_offset)
        body = [bind] + list(s.body)
        if i2:
            test = i2[0] if len(i2) == 1 else ast.BoolOp(op=ast.And(), values=i2)
            body = [ast.If(test=test, body=body, orelse=[], lineno=s.lineno, col_offset=s.col_offset)]
        out = ast.For(target=t2, iter=src, body=body, orelse=s.orelse, lineno=s.lineno, col_offset=s.col_offset)
        ast.fix_missing_locations(out)
    _DESUGARED[id(s)] = (s, out)
    return out


def _has_sym(v):
    if isinstance(v, Sym):
        return True
    if isinstance(v, (list, tuple)):
        return any(_has_sym(x) for x in v)
    return False


def _binop(op, l, r):
    import operator as o

    table = {
        ast.Add: o.add, ast.Sub: o.sub, ast.Mult: o.mul, ast.FloorDiv: o.floordiv,
        ast.Mod: o.mod, ast.Div: o.truediv,
    }
    return table[type(op)](l, r)
