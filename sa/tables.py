"""M6 - extraction of tables the package writes out literally: constant-returning
methods per class, keyword -> node-class dispatch of DirectiveParser, dict/list
literals, `if x == "k": return e` chains, add_argument registrations."""

from __future__ import annotations

import ast

from .model import AnalysisError, ClassInfo, FuncInfo, Repo, callee, const, dotted, strip_doc, u, walk_no_nested

NOTHING = object()


def const_return(fi: FuncInfo):
    """Value of a method whose body is `return <constant>` (docstring allowed);
    NOTHING otherwise."""
    body = strip_doc(fi.node.body)
    if len(body) == 1 and isinstance(body[0], ast.Return):
        v = body[0].value
        if v is None:
            return None
        if isinstance(v, ast.Constant):
            return v.value
    if len(body) == 1 and isinstance(body[0], ast.Pass):
        return None
    return NOTHING


KIND_METHODS = ("is_start_node", "is_cont_node", "is_end_node")


def node_base(repo: Repo) -> ClassInfo:
    return repo.cls("preprocessor", "Node")


def node_kind_table(repo: Repo):
    """{ClassInfo: {'is_start_node': bool, ...}} for Node and every package
    subclass, resolved through the MRO to constant-returning methods."""
    base = node_base(repo)
    out = {}
    for c in repo.subclasses(base):
        row = {}
        for m in KIND_METHODS:
            fi = c.find_method(m)
            if fi is None:
                raise AnalysisError(f"{c.key}: no {m} in MRO")
            v = const_return(fi)
            if v is NOTHING or not isinstance(v, bool):
                raise AnalysisError(f"{fi.key}: kind predicate is not a constant-returning method: {u(fi.node.body[-1])[:60]}")
            row[m] = v
        out[c] = row
    return out


def kind_of(row):
    ks = [k for k, m in zip("SCE", KIND_METHODS) if row[m]]
    return "".join(ks) or "N"


def directive_dispatch(repo: Repo):
    """From DirectiveParser.parse's candidate list: for every candidate method,
    the keyword it matches first and the node class(es) it returns.
    -> list of dict(method=FuncInfo, keyword=str, classes=[names], returns=[ast.Call])"""
    dp = repo.cls("preprocessor", "DirectiveParser")
    parse = dp.find_method("parse")
    if parse is None:
        raise AnalysisError("anchor vanished: DirectiveParser.parse")
    cands = None
    for n in walk_no_nested(parse.node):
        if isinstance(n, ast.Assign) and isinstance(n.value, ast.List) and n.value.elts and all(
            isinstance(e, ast.Attribute) and dotted(e.value) == "self" for e in n.value.elts
        ):
            cands = [e.attr for e in n.value.elts]
    if cands is None:
        raise AnalysisError("DirectiveParser.parse: candidate list `[self.define, ...]` not found")
    rows = []
    for name in cands:
        fi = dp.find_method(name)
        if fi is None:
            raise AnalysisError(f"DirectiveParser.{name}: candidate is not a method")
        kw = None
        fi_real = fi
        fi = _unwrap_delegation(dp, fi)
        # first match_value in source order
        calls = [
            n
            for n in walk_no_nested(fi.node)
            if isinstance(n, ast.Call) and callee(n) == "self.match_value" and len(n.args) == 2
        ]
        calls.sort(key=lambda c: (c.lineno, c.col_offset))
        if calls and u(calls[0].args[0]) == "Identifier" and isinstance(calls[0].args[1], ast.Constant):
            kw = calls[0].args[1].value
        else:
            kw = None
        rets = [
            n.value
            for n in walk_no_nested(fi.node)
            if isinstance(n, ast.Return) and isinstance(n.value, ast.Call) and isinstance(n.value.func, ast.Name)
        ]
        rows.append({"method": fi_real, "keyword": kw, "classes": [r.func.id for r in rets], "returns": rets})
    return rows, parse


class _Body:
    """a function body with a delegate's parameters replaced by the arguments of the delegating call"""

    def __init__(self, node):
        self.node = node


def _unwrap_delegation(cls, fi):
    """`def else_(self): return self.__bare(kw, Node)` stands for the body of __bare with (kw, Node) substituted"""
    import copy

    body = strip_doc(fi.node.body)
    if len(body) == 1 and isinstance(body[0], ast.Return) and isinstance(body[0].value, ast.Call):
        c = body[0].value
        if isinstance(c.func, ast.Attribute) and dotted(c.func.value) == "self" and not c.keywords and all(isinstance(a, (ast.Constant, ast.Name)) for a in c.args):
            h = cls.find_method(c.func.attr)
            if h is not None and h is not fi:
                params = [a.arg for a in h.node.args.args][1:]
                if len(params) == len(c.args):
                    sub = dict(zip(params, c.args))

                    class S(ast.NodeTransformer):
                        def visit_Name(self, n):
                            return copy.deepcopy(sub[n.id]) if n.id in sub and isinstance(n.ctx, ast.Load) else n

                    node = S().visit(copy.deepcopy(h.node))
                    ast.fix_missing_locations(node)
                    return _Body(node)
    return fi


def dict_literal(node):
    if not isinstance(node, ast.Dict):
        raise AnalysisError(f"expected a dict literal: {u(node)[:60]}")
    out = {}
    for k, v in zip(node.keys, node.values):
        if not isinstance(k, ast.Constant):
            raise AnalysisError(f"dict literal with non-constant key: {u(k)}")
        out[k.value] = v
    return out


def str_list(node):
    if isinstance(node, ast.BinOp) and isinstance(node.op, ast.Add):
        return str_list(node.left) + str_list(node.right)
    if not isinstance(node, (ast.List, ast.Tuple)):
        raise AnalysisError(f"expected a list literal: {u(node)[:60]}")
    out = []
    for e in node.elts:
        if not (isinstance(e, ast.Constant) and isinstance(e.value, str)):
            raise AnalysisError(f"list literal with non-string element: {u(e)}")
        out.append(e.value)
    return out


_OPERATOR_FUNCS = {
    "add": ast.Add, "sub": ast.Sub, "mul": ast.Mult, "truediv": ast.Div, "floordiv": ast.FloorDiv, "mod": ast.Mod, "lshift": ast.LShift, "rshift": ast.RShift,
    "and_": ast.BitAnd, "or_": ast.BitOr, "xor": ast.BitXor, "pow": ast.Pow,
    "eq": ast.Eq, "ne": ast.NotEq, "lt": ast.Lt, "le": ast.LtE, "gt": ast.Gt, "ge": ast.GtE,
    "not_": ast.Not, "neg": ast.USub, "pos": ast.UAdd, "inv": ast.Invert, "invert": ast.Invert,
}


def _dispatch_arms(fn, var):
    """the same decision written as a table: `T = {"k": operator.add, "j": lambda a, b: a and b, ...}` and
    `return T[var](x, y)`  ->  [(k, the expression the entry computes for (x, y), stmt)]; None when the function is
    not written that way"""
    import copy

    tables = {}
    for st in ast.walk(fn):
        if isinstance(st, ast.Assign) and len(st.targets) == 1 and isinstance(st.targets[0], ast.Name) and isinstance(st.value, ast.Dict) and st.value.keys and all(isinstance(k, ast.Constant) and isinstance(k.value, str) for k in st.value.keys):
            tables[st.targets[0].id] = st.value
    for st in ast.walk(fn):
        if not (isinstance(st, ast.Return) and isinstance(st.value, ast.Call) and isinstance(st.value.func, ast.Subscript)):
            continue
        sub = st.value.func
        if not (isinstance(sub.value, ast.Name) and sub.value.id in tables and u(sub.slice) == var and not st.value.keywords):
            continue
        args = st.value.args
        arms = []
        for k, v in zip(tables[sub.value.id].keys, tables[sub.value.id].values):
            e = None
            if isinstance(v, ast.Attribute) and isinstance(v.value, ast.Name) and v.value.id in ("operator", "op", "_operator") and v.attr in _OPERATOR_FUNCS:
                o = _OPERATOR_FUNCS[v.attr]
                if issubclass(o, ast.cmpop) and len(args) == 2:
                    e = ast.Compare(left=args[0], ops=[o()], comparators=[args[1]])
                elif issubclass(o, ast.unaryop) and len(args) == 1:
                    e = ast.UnaryOp(op=o(), operand=args[0])
                elif issubclass(o, ast.operator) and len(args) == 2:
                    e = ast.BinOp(left=args[0], op=o(), right=args[1])
            elif isinstance(v, ast.Lambda) and len(v.args.args) == len(args) and not v.args.defaults:
                names = {a.arg: x for a, x in zip(v.args.args, args)}

                class _S(ast.NodeTransformer):
                    def visit_Name(self, n):
                        return copy.deepcopy(names[n.id]) if n.id in names else n

                e = _S().visit(copy.deepcopy(v.body))
            if e is None:
                raise AnalysisError(f"{fn.name}: table entry {k.value!r} -> `{u(v)}` not understood")
            ast.fix_missing_locations(ast.copy_location(e, v))
            arms.append((k.value, e, v))
        return arms
    return None


def if_chain_arms(fn: ast.FunctionDef, var: str):
    """`if var == "k": return e  elif ...` -> [(k, return-expr ast, stmt)]; the
    final else (if any) is returned under key None."""
    body = strip_doc(fn.body)
    arms = []
    node = None
    for st in body:
        if isinstance(st, ast.If):
            node = st
            break
    disp = _dispatch_arms(fn, var)
    if disp is not None:
        return disp
    if node is None:
        raise AnalysisError(f"{fn.name}: no if-chain found")
    while True:
        t = node.test
        if not (
            isinstance(t, ast.Compare)
            and len(t.ops) == 1
            and isinstance(t.ops[0], ast.Eq)
            and u(t.left) == var
            and isinstance(t.comparators[0], ast.Constant)
        ):
            raise AnalysisError(f"{fn.name}: arm test is not `{var} == <const>`: {u(t)}")
        if not (len(node.body) == 1 and isinstance(node.body[0], ast.Return)):
            raise AnalysisError(f"{fn.name}: arm body is not a single return: {u(node.body[0])[:60]}")
        arms.append((t.comparators[0].value, node.body[0].value, node.body[0]))
        if len(node.orelse) == 1 and isinstance(node.orelse[0], ast.If):
            node = node.orelse[0]
            continue
        if node.orelse:
            arms.append((None, None, node.orelse[0]))
        break
    return arms


def add_argument_calls(fn_node):
    """All `<x>.add_argument(...)` calls in a function, in source order."""
    calls = [
        n
        for n in walk_no_nested(fn_node)
        if isinstance(n, ast.Call) and isinstance(n.func, ast.Attribute) and n.func.attr == "add_argument"
    ]
    calls.sort(key=lambda c: (c.lineno, c.col_offset))
    return calls
