# Copyright (C) 2019-2024 Intel Corporation
# SPDX-License-Identifier: BSD-3-Clause

import os
from pathlib import Path


def is_source_file(filename: str | os.PathLike) -> bool:
    """
    Parameters
    ----------
    filename: Union[str, os.Pathlike]
        The filename of a potential source file.

    Returns
    -------
    bool
        True if the file ends in a recognized extension and False otherwise.
        Only files that can be parsed correctly have recognized extensions.

    Raises
    ------
    TypeError
        If filename is not a string or Path.
    """
    if not (isinstance(filename, str) or isinstance(filename, Path)):
        raise TypeError("filename must be a string or Path")

    extension = Path(filename).suffix
    supported_extensions = [
        ".f90",
        ".F90",
        ".f",
        ".ftn",
        ".fpp",
        ".F",
        ".FOR",
        ".FTN",
        ".FPP",
        ".c",
        ".h",
        ".c++",
        ".cxx",
        ".cpp",
        ".cc",
        ".hpp",
        ".hxx",
        ".h++",
        ".hh",
        ".inc",
        ".inl",
        ".tcc",
        ".icc",
        ".ipp",
        ".cu",
        ".cuh",
        ".cl",
        ".s",
        ".S",
        ".asm",
    ]
    return extension in supported_extensions
