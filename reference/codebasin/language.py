# Copyright (C) 2019-2024 Intel Corporation
# SPDX-License-Identifier: BSD-3-Clause
"""
Contains classes and functions related to language detection
and providing information about the language to other parts of
code base investigator
"""

import logging
import os

log = logging.getLogger(__name__)


class FileLanguage:
    """
    Represents the language and modifiers for a given filename
    """

    _supported_languages = ["fortran-free", "fortran-fixed", "c", "c++", "asm"]

    _language_extensions = {}
    _language_extensions["fortran-free"] = [".f90", ".F90"]
    _language_extensions["fortran-fixed"] = [
        ".f",
        ".ftn",
        ".fpp",
        ".F",
        ".FOR",
        ".FTN",
        ".FPP",
    ]
    _language_extensions["c"] = [".c", ".h"]
    _language_extensions["c++"] = [
        ".c++",
        ".cxx",
        ".cpp",
        ".cc",
        ".hpp",
        ".hxx",
        ".h++",
        ".hh",
        ".inc",
        ".inl",
        ".tcc",
        ".icc",
        ".ipp",
        ".cu",
        ".cuh",
        ".cl",
    ]
    _language_extensions["asm"] = [".s", ".S", ".asm"]

    def __init__(self, filename):
        self._filename = filename
        self._extension = os.path.splitext(self._filename)[1]
        self._language = None

        for lang in self._supported_languages:
            if self._extension in self._language_extensions[lang]:
                self._language = lang
                break

    def get_language(self):
        return self._language
