# Copyright (C) 2019-2025 Intel Corporation
# SPDX-License-Identifier: BSD-3-Clause
"""
This package contains implementation details that are not part of the public
interface of Code Base Investigator. These implementation details are not
intended to be used by other scripts, and should not be relied upon.
"""
import codebasin._detail.logging
