#!/usr/bin/env python3
# Copyright (C) 2019-2024 Intel Corporation
# SPDX-License-Identifier: BSD-3-Clause

import argparse
import hashlib
import json
import logging
import os
import sys
from pathlib import Path

from codebasin import CodeBase, __version__, config, finder, util

# TODO: Refactor to avoid imports from __main__
from codebasin.__main__ import Formatter, WarningAggregator, _help_string
from codebasin.preprocessor import CodeNode

log = logging.getLogger("codebasin")


def _build_parser() -> argparse.ArgumentParser:
    """
    Build argument parser.
    """
    parser = argparse.ArgumentParser(
        description="CBI Coverage Tool " + __version__,
        formatter_class=argparse.RawTextHelpFormatter,
        add_help=False,
    )
    parser.set_defaults(func=None)
    parser.add_argument(
        "-h",
        "--help",
        action="help",
        help="Display help message and exit.",
    )
    parser.add_argument(
        "--version",
        action="version",
        version=f"CBI Coverage Tool {__version__}",
        help="Display version information and exit.",
    )

    subparsers = parser.add_subparsers(title="commands")

    compute_parser = subparsers.add_parser(
        "compute",
        help="Compute coverage.",
        formatter_class=argparse.RawTextHelpFormatter,
        add_help=False,
    )
    compute_parser.set_defaults(func=_compute)
    compute_parser.add_argument(
        "-h",
        "--help",
        action="help",
        help=_help_string("Display help message and exit."),
    )
    compute_parser.add_argument(
        "-S",
        "--source-dir",
        metavar="<path>",
        dest="source_dir",
        help=_help_string("Path to source directory.", is_long=True),
        default=os.getcwd(),
    )
    compute_parser.add_argument(
        "-x",
        "--exclude",
        dest="excludes",
        metavar="<pattern>",
        action="append",
        default=[],
        help=_help_string(
            "Exclude files matching this pattern from the code base.",
            "May be specified multiple times.",
            is_long=True,
        ),
    )
    compute_parser.add_argument(
        "-o",
        "--output",
        dest="ofile",
        metavar="<output path>",
        default="coverage.json",
        help=_help_string(
            "Path to coverage JSON file.",
            "If not specified, defaults to 'coverage.json'.",
            is_long=True,
            is_last=True,
        ),
    )
    compute_parser.add_argument(
        "ifile",
        metavar="<input path>",
        help=_help_string(
            "Path to compilation database JSON file.",
            is_last=True,
        ),
    )

    return parser


def _compute(args: argparse.Namespace):
    dbpath = os.path.realpath(args.ifile)
    covpath = os.path.realpath(args.ofile)
    for path in [dbpath, covpath]:
        if not util.valid_path(path):
            raise ValueError(f"{path} is not a valid path.")
        util.ensure_ext(path, [".json"])

    source_dir = os.path.realpath(args.source_dir)

    # Run CBI configured as-if:
    # - configuration contains a single (dummy) platform
    # - codebase contains all files in the specified compilation database
    db = config.load_database(dbpath, source_dir)
    configuration = {"cli": db}
    codebase = CodeBase(source_dir, exclude_patterns=args.excludes)
    state = finder.find(source_dir, codebase, configuration)

    # Export coverage information in P3 Analysis Library format.
    covarray = []
    for filename in codebase:
        # Don't list symlinks if their target is in the code base.
        # The target will be listed separately.
        path = Path(filename)
        if path.is_symlink() and path.resolve() in codebase:
            continue

        relative_path = os.path.relpath(filename, start=source_dir)

        with open(filename, "rb") as f:
            digest = hashlib.file_digest(f, "sha512")

        used_lines = []
        unused_lines = []
        tree = state.get_tree(filename)
        association = state.get_map(filename)
        for node in [n for n in tree.walk() if isinstance(n, CodeNode)]:
            if association[node] == frozenset([]):
                unused_lines.extend(node.lines)
            else:
                used_lines.extend(node.lines)

        covarray.append(
            {
                "file": relative_path,
                "id": digest.hexdigest(),
                "used_lines": used_lines,
                "unused_lines": unused_lines,
            },
        )

    util._validate_json(covarray, "coverage")
    with open(covpath, "w") as f:
        json.dump(covarray, f, indent=2)

    sys.exit(0)


def cli(argv: list[str]) -> int:
    parser = _build_parser()
    args = parser.parse_args(argv)
    command = args.func

    if command is None:
        parser.print_help()
        sys.exit(2)

    # Configure logging such that:
    # - All messages are written to a log file
    # - Only errors are written to the terminal
    # - Meta-warnings and statistics are generated by a WarningAggregator
    aggregator = WarningAggregator()
    log.setLevel(logging.DEBUG)

    file_handler = logging.FileHandler("cbi.log", mode="w")
    file_handler.setLevel(logging.INFO)
    file_handler.setFormatter(Formatter())
    file_handler.addFilter(aggregator)
    log.addHandler(file_handler)

    # Inform the user that a log file has been created.
    # 'print' instead of 'log' to ensure the message is visible in the output.
    log_path = os.path.abspath("cbi.log")
    print(f"Log file created at {log_path}")

    stderr_handler = logging.StreamHandler(sys.stderr)
    stderr_handler.setLevel(logging.ERROR)
    stderr_handler.setFormatter(Formatter(colors=sys.stderr.isatty()))
    log.addHandler(stderr_handler)

    return command(args)


def main():
    try:
        cli(sys.argv[1:])
    except Exception as e:
        log.error(str(e))
        sys.exit(1)


if __name__ == "__main__":
    sys.argv[0] = "codebasin.coverage"
    main()
